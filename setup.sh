#!/bin/sh
# MANIFEST.setup_cmd: offline, idempotent.  Everything runs with /venv/bin/python.
cd "$(dirname "$0")" || exit 2
export PIP_NO_INDEX=1
if ! /venv/bin/python -c "import hypothesis" 2>/dev/null; then
  /venv/bin/pip install --no-index --find-links /opt/veriftools/wheels hypothesis || exit 2
fi
if ! PYTHONPATH=.deps /venv/bin/python -c "import atheris" 2>/dev/null; then
  /venv/bin/pip install -q --no-index --find-links /opt/veriftools/wheels --target .deps atheris \
    || echo "setup: atheris not installable; fuzz drivers will report themselves as skipped"
fi
mkdir -p evidence out
PYTHONPATH=. /venv/bin/python -c "
import hypothesis, pvf.runner, pvf.case
import sys; sys.path.insert(0, '/repo')
import pox.lib.addresses
print('setup ok: hypothesis', hypothesis.__version__)
" || exit 2
