"""Cases are plain JSON-able data.  bytes are carried as {"$b": hex}."""
import hashlib
import json


def to_jsonable(x):
  if isinstance(x, (bytes, bytearray)):
    return {"$b": bytes(x).hex()}
  if isinstance(x, dict):
    return {str(k): to_jsonable(v) for k, v in x.items()}
  if isinstance(x, (list, tuple)):
    return [to_jsonable(v) for v in x]
  if isinstance(x, (set, frozenset)):
    return sorted((to_jsonable(v) for v in x), key=lambda v: json.dumps(v, sort_keys=True))
  if isinstance(x, float):
    if x != x or x in (float("inf"), float("-inf")):
      return {"$f": repr(x)}
    return x
  if x is None or isinstance(x, (bool, int, str)):
    return x
  return {"$repr": repr(x)}


def from_jsonable(x):
  if isinstance(x, dict):
    if len(x) == 1 and "$b" in x:
      return bytes.fromhex(x["$b"])
    if len(x) == 1 and "$f" in x:
      return float(x["$f"])
    return {k: from_jsonable(v) for k, v in x.items()}
  if isinstance(x, list):
    return [from_jsonable(v) for v in x]
  return x


def dumps(case, **kw):
  return json.dumps(to_jsonable(case), sort_keys=True, **kw)


def loads(s):
  return from_jsonable(json.loads(s))


def digest(case):
  return hashlib.sha1(dumps(case).encode()).hexdigest()[:16]


def short(case, limit=1500):
  """A JSON-able rendering of a case that is bounded in size (for samples)."""
  j = to_jsonable(case)
  s = json.dumps(j, sort_keys=True)
  if len(s) <= limit:
    return j
  return {"$truncated": s[:limit], "$len": len(s), "$digest": digest(case)}
