"""A SoftwareSwitch driven at byte level for the flow-table checks (C03, C04).

TableSwitch(ports, expire=False, **switch_kw)
  .send(bytes)          controller -> switch bytes (through OFConnection.read)
  .replies()            decoded switch -> controller messages since the last call (ref/of10_tablemsgs)
  .swallowed            exceptions that OFConnection.read caught and only logged
  .frame(bytes, port)   data-plane frame in; returns [(out_port, bytes), ...] emitted at event time
  .table                the FlowTable
  .now / .advance(dt)   virtual clock (fires the ExpireMixin timer at its exact deadlines)
"""
from ..runner import HarnessError
from ..ref import of10_tablemsgs as W
from . import world as _world


class TableSwitch(object):
  def __init__(self, ports, expire=False, **kw):
    self.world = _world.World()
    self.end = self.world.add_switch(1, ports=ports, expire=expire, **kw)
    self.swallowed = []
    conn = self.end.conn
    orig = conn._error_handler

    def handler(reason, info):
      if reason == conn.ERR_EXCEPTION:
        self.swallowed.append(info[0])
      else:
        self.swallowed.append(RuntimeError("OFConnection error %r %r" % (reason, info)))
      return orig(reason, info)
    conn._error_handler = handler

  @property
  def table(self):
    return self.end.sw.table

  @property
  def now(self):
    return self.world.clock.now

  def advance(self, dt):
    self.world.advance(dt)

  def send(self, data):
    self.end.rx_bytes(data)

  def replies(self):
    msgs, rest = W.parse_stream(self.end.take_sent())
    if rest:
      raise HarnessError("switch sent a partial message: %r" % rest)
    return msgs

  def frame(self, data, port):
    self.end.take_emitted()
    self.end.rx_frame(data, port)
    return self.end.take_emitted()

  def close(self):
    t = getattr(self.end.sw, "_expire_timer", None)
    if t is not None:
      t.cancel()
    self.world.close()
