"""The simulated POX world: one process, one thread, virtual time, fake sockets.

boot()        -- create pox.core.core once per process (single-threaded scheduler, fake pingers)
World()       -- reset all module-level state and give a fresh scheduler/nexus under a virtual clock
FakeSock      -- scripted socket for of_01.Connection
SwitchEnd     -- SoftwareSwitch + OFConnection on a fake IOWorker
World.attach  -- join a switch to a controller-side of_01.Connection through byte pipes

Nothing here imports or shares code with the reference models in pvf/ref.
"""
import contextlib
import errno
import io
import logging
import os
import socket as _socket
import sys
import time as _real_time

from ..runner import HarnessError

_booted = False


class VClock(object):
  def __init__(self, t0=1000.0):
    self.now = float(t0)

  def time(self):
    return self.now

  def sleep(self, dt):
    self.now += dt


class TimeShim(object):
  """Stands in for the `time` module attribute of a POX module."""
  def __init__(self, clock):
    self._clock = clock

  def time(self):
    return self._clock.time()

  def sleep(self, dt):
    return self._clock.sleep(dt)

  def __getattr__(self, n):
    return getattr(_real_time, n)


class FakePinger(object):
  """Replaces the socket-pair pinger.  pongAll() on an empty pinger would block a
  real one; that is recorded in `underflows` instead."""
  _n = 0

  def __init__(self):
    self.count = 0
    self.underflows = 0
    self.pings = 0
    FakePinger._n += 1
    self._id = FakePinger._n

  def ping(self):
    self.count += 1
    self.pings += 1

  def pong(self):
    if self.count == 0:
      self.underflows += 1
    else:
      self.count -= 1

  def pongAll(self):
    if self.count == 0:
      self.underflows += 1
    self.count = 0

  def fileno(self):
    return 100000 + self._id

  def v_readable(self):
    return self.count > 0

  def __repr__(self):
    return "<FakePinger %d n=%d>" % (self._id, self.count)


class FakeSock(object):
  """A scripted stream socket.

  inbox: bytes the peer has sent and that recv() will return (at most `n` per call);
  eof/recv_error: what recv() does when inbox is empty (default: EAGAIN);
  send_script: list of outcomes for successive send() calls: int k (accept at most k bytes),
  "all", "eagain", or an errno name such as "EPIPE"; default "all" once exhausted.
  """
  _n = 0

  def __init__(self, name=None, send_script=None):
    FakeSock._n += 1
    self.name = name or ("fs%d" % FakeSock._n)
    self._fileno = 200000 + FakeSock._n
    self.inbox = bytearray()
    self.eof = False
    self.recv_error = None
    self.sent = bytearray()
    self.send_calls = []          # (offered_len, outcome)
    self.send_script = list(send_script or [])
    self.closed = False
    self.shutdowns = []
    self.sends_after_fatal = 0
    self.fatal = False
    self.recv_sizes = []
    self.max_recv = None          # cap on bytes returned per recv (segmentation)
    self.segments = None          # explicit list of segment sizes for successive recv()s

  # -- peer side
  def feed(self, data):
    self.inbox += data

  def take_sent(self):
    d = bytes(self.sent)
    del self.sent[:]
    return d

  # -- socket API
  def recv(self, n, flags=0):
    if self.closed:
      raise OSError(errno.EBADF, "Bad file descriptor")
    if self.inbox:
      k = n
      if self.segments:
        k = min(k, self.segments.pop(0))
      if self.max_recv is not None:
        k = min(k, self.max_recv)
      k = max(1, k)
      d = bytes(self.inbox[:k])
      del self.inbox[:k]
      self.recv_sizes.append(len(d))
      return d
    if self.recv_error is not None:
      raise OSError(self.recv_error, os.strerror(self.recv_error))
    if self.eof:
      return b""
    raise BlockingIOError(errno.EAGAIN, "Resource temporarily unavailable")

  def send(self, data, flags=0):
    if self.fatal or self.closed:
      self.sends_after_fatal += 1
    if self.closed:
      raise OSError(errno.EBADF, "Bad file descriptor")
    outcome = self.send_script.pop(0) if self.send_script else "all"
    self.send_calls.append((len(data), outcome))
    if outcome == "all":
      k = len(data)
    elif outcome == "eagain":
      raise BlockingIOError(errno.EAGAIN, "Resource temporarily unavailable")
    elif isinstance(outcome, str):
      self.fatal = True
      code = getattr(errno, outcome)
      raise OSError(code, os.strerror(code))
    else:
      k = min(int(outcome), len(data))
    self.sent += data[:k]
    return k

  def close(self):
    self.closed = True

  def shutdown(self, how):
    self.shutdowns.append(how)

  def fileno(self):
    return self._fileno

  def getpeername(self):
    return ("10.0.0.%d" % (self._fileno % 250), 6633)

  def getsockname(self):
    return ("127.0.0.1", 6633)

  def setblocking(self, b):
    pass

  def setsockopt(self, *a):
    pass

  def v_readable(self):
    return bool(self.inbox) or self.eof or self.recv_error is not None

  def __repr__(self):
    return "<FakeSock %s>" % self.name


class _DeferredSenderStub(object):
  """of_01.Connection.send hands leftovers to the module-global deferredSender.
  Worlds that do not test the send path must never reach it."""
  sending = False

  def __init__(self):
    self.calls = []

  def send(self, con, data):
    self.calls.append((con, bytes(data)))

  def kill(self, con):
    pass


def _quiet():
  return contextlib.redirect_stdout(io.StringIO())


def boot():
  """Create pox.core.core exactly once per process, single threaded."""
  global _booted
  if _booted:
    return
  logging.disable(logging.CRITICAL)
  import pox.lib.util as U
  if not hasattr(U, "_pvf_real_make_pinger"):
    U._pvf_real_make_pinger = U.make_pinger      # kept for drivers that run the real PipePinger over a virtual pipe
  U.makePinger = FakePinger
  U.make_pinger = FakePinger
  import pox.lib.recoco as RP
  import pox.lib.recoco.recoco as R
  orig = R.Scheduler

  def factory(*a, **kw):
    kw["startInThread"] = False
    kw["threaded_selecthub"] = False
    return orig(*a, **kw)
  RP.Scheduler = factory
  import pox.core
  try:
    with _quiet():
      if pox.core.core is None:
        pox.core.initialize(threaded_selecthub=False, handle_signals=False)
  finally:
    RP.Scheduler = orig
  import pox.lib.ioworker as IOW
  IOW.makePinger = FakePinger
  import pox.openflow.of_01 as of_01
  import pox.openflow.libopenflow_01 as of
  if of._logger is None:
    of._logger = logging.getLogger("libopenflow_01")
  _booted = True


_TIME_MODULES = [
  "pox.lib.recoco.recoco", "pox.openflow.flow_table", "pox.datapaths.switch", "pox.openflow.of_01",
  "pox.openflow.discovery", "pox.openflow.spanning_tree", "pox.core", "pox.forwarding.l2_learning",
  "pox.openflow.libopenflow_01",
]


class World(object):
  """A fresh POX universe.  Create one per case."""

  def __init__(self, t0=1000.0, time_modules=()):
    boot()
    import pox.core
    import pox.lib.recoco.recoco as R
    import pox.lib.revent.revent as RE
    import pox.openflow as OFP
    import pox.openflow.of_01 as of_01
    import pox.openflow.libopenflow_01 as of
    import pox.datapaths.switch as SW
    self.core = core = pox.core.core
    self.clock = VClock(t0)
    self.shim = TimeShim(self.clock)
    self._patched = []
    for name in list(_TIME_MODULES) + list(time_modules):
      m = sys.modules.get(name)
      if m is None:
        try:
          m = __import__(name, fromlist=["x"])
        except Exception:
          continue
      if hasattr(m, "time"):
        self._patched.append((m, m.time))
        m.time = self.shim
    # -- module-level state
    of_01.Connection.ID = 0
    of_01.Connection._aborted_connections = 0
    SW.OFConnection.ID = 0
    of.generate_xid = of.xid_generator()
    FakeSock._n = 0
    FakePinger._n = 0
    self.deferred = _DeferredSenderStub()
    of_01.deferredSender = self.deferred
    # -- core
    core.components = {"core": core}
    core._waiters = []
    core._eventMixin_handlers = {}
    core._go_up_deferrals = set()
    core.running = True
    core.starting_up = True
    core._openflow_wanted = False
    R.defaultScheduler = None
    self.sched = R.Scheduler(isDefaultScheduler=True, startInThread=False, threaded_selecthub=False)
    core.scheduler = self.sched
    self.hub = self.sched._selectHub
    self.hub._select_func = self._vselect
    self.idle_advances = []
    self._limit = None
    # -- openflow nexus
    self.arbiter = OFP.OpenFlowConnectionArbiter()
    core.register("OpenFlowConnectionArbiter", self.arbiter)
    self.nexus = OFP.OpenFlowNexus()
    core.register("openflow", self.nexus)
    self.links = []
    self.switches = {}

  def close(self):
    for m, t in self._patched:
      m.time = t
    self._patched = []
    self.sched._hasQuit = True

  # ------------------------------------------------------------------ time & scheduling
  def _vselect(self, rl, wl, xl, timeout):
    ro = [r for r in rl if self._readable(r)]
    wo = [w for w in wl if self._writable(w)]
    if ro or wo:
      return ro, wo, []
    if timeout is None:
      raise HarnessError("virtual select with nothing ready and no timeout")
    # nothing ready: time passes
    t = self.clock.now + timeout
    dl = self._next_deadline()
    if dl is not None and abs(dl - t) < 1e-6:
      t = dl                      # land exactly on the timer's deadline
    if self._limit is not None and t > self._limit:
      t = self._limit
    self.idle_advances.append((self.clock.now, t))
    self.clock.now = max(self.clock.now, t)
    return [], [], []

  @staticmethod
  def _readable(o):
    f = getattr(o, "v_readable", None)
    if f is not None:
      return f()
    s = getattr(o, "sock", None) or getattr(o, "socket", None)
    if s is not None and hasattr(s, "v_readable"):
      return s.v_readable()
    return False

  @staticmethod
  def _writable(o):
    f = getattr(o, "v_writable", None)
    if f is not None:
      return f()
    return True

  def _next_deadline(self):
    dl = None
    for stuff in list(self.hub._tasks.values()):
      tto = stuff[4]
      if tto is not None and (dl is None or tto < dl):
        dl = tto
    return dl

  def _drain_incoming(self):
    """Let the hub pick up newly registered selects/timers (pinger is set)."""
    n = 0
    while self.hub._pinger.count > 0 or not self.hub._incoming.empty():
      if self.hub._pinger.count == 0:
        self.hub._pinger.ping()
      self.hub._select(self.hub._tasks, {})
      n += 1
      if n > 10000:
        raise HarnessError("select hub does not drain")

  def run_ready(self, max_cycles=100000):
    """Run cooperative tasks until the ready queue is empty; fire whatever is due now."""
    n = 0
    while True:
      progressed = False
      while len(self.sched._ready):
        self.sched.cycle()
        progressed = True
        n += 1
        if n > max_cycles:
          raise HarnessError("scheduler does not quiesce within %d cycles" % max_cycles)
      self._drain_incoming()
      dl = self._next_deadline()
      if dl is not None and dl <= self.clock.now:
        self.hub._select(self.hub._tasks, {})     # pre-expired entries are returned
        progressed = True
      if self._io_ready():
        self.hub._select(self.hub._tasks, {})
        progressed = True
      if not progressed and not len(self.sched._ready):
        return

  def _io_ready(self):
    for stuff in list(self.hub._tasks.values()):
      for r in (stuff[1] or ()):
        if self._readable(r):
          return True
    return False

  def settle(self, max_rounds=10000):
    """Run tasks and move bytes over all links until nothing moves."""
    for _ in range(max_rounds):
      self.run_ready()
      moved = False
      for l in self.links:
        moved |= l.pump()
      if not moved and not len(self.sched._ready):
        return
    raise HarnessError("world does not settle")

  def advance(self, dt):
    """Let virtual time pass, firing every timer at its exact deadline."""
    target = self.clock.now + dt
    self.settle()
    while True:
      dl = self._next_deadline()
      if dl is None or dl > target:
        break
      self._limit = None
      if dl > self.clock.now:
        self.clock.now = dl
      self.hub._select(self.hub._tasks, {})
      self.settle()
    self.clock.now = target
    self.settle()

  # ------------------------------------------------------------------ construction helpers
  def controller_connection(self, sock=None):
    import pox.openflow.of_01 as of_01
    sock = sock or FakeSock()
    con = of_01.Connection(sock)
    return con

  def add_switch(self, dpid, ports=4, expire=False, **kw):
    sw = SwitchEnd(self, dpid, ports=ports, expire=expire, **kw)
    self.switches[dpid] = sw
    return sw

  def attach(self, sw, segmenter=None):
    """Connect a SwitchEnd to a new controller-side Connection and return the Link."""
    l = Link(self, sw, segmenter)
    self.links.append(l)
    return l


class FakeWorker(object):
  pass


def _make_worker(sock):
  import pox.lib.ioworker as IOW

  class _W(IOW.IOWorker):
    def __init__(self, sock):
      super(_W, self).__init__()
      self.socket = sock
      self.shutdown_calls = 0

    def shutdown(self, *a, **kw):
      self.shutdown_calls += 1
      return super(_W, self).shutdown(*a, **kw)

    def take_sent(self):
      d = self.send_buf
      self.send_buf = b""
      return d
  return _W(sock)


class SwitchEnd(object):
  """A SoftwareSwitch with its OFConnection on a fake IOWorker."""

  def __init__(self, world, dpid, ports=4, expire=False, **kw):
    import pox.datapaths.switch as SW
    self.world = world
    if expire:
      cls = type("ExpiringSwitch", (SW.ExpireMixin, SW.SoftwareSwitch), {})
    else:
      cls = SW.SoftwareSwitch
    self.sw = cls(dpid, ports=ports, **kw)
    self.sock = FakeSock("sw%x" % dpid)
    self.worker = _make_worker(self.sock)
    self.conn = SW.OFConnection(self.worker)
    self.sw.set_connection(self.conn)
    self.emitted = []      # (port_no, bytes) at event time
    self.sw.addListenerByName("DpPacketOut", self._on_out)
    self.on_emit = None

  def _on_out(self, ev):
    data = ev.packet.pack()
    self.emitted.append((ev.port.port_no, data))
    if self.on_emit is not None:
      self.on_emit(self, ev.port.port_no, data)

  def take_emitted(self):
    e = self.emitted
    self.emitted = []
    return e

  # controller -> switch bytes
  def rx_bytes(self, data):
    self.worker._push_receive_data(data)

  # switch -> controller bytes
  def take_sent(self):
    return self.worker.take_sent()

  def rx_frame(self, frame_bytes, in_port):
    import pox.lib.packet as pkt
    self.sw.rx_packet(pkt.ethernet(frame_bytes), in_port)


class Link(object):
  """Byte pipes between a SwitchEnd and a controller-side of_01.Connection."""

  def __init__(self, world, sw, segmenter=None):
    self.world, self.sw = world, sw
    self.csock = FakeSock("ctl-%x" % sw.sw.dpid)
    self.segmenter = segmenter
    self.con = world.controller_connection(self.csock)
    self.bytes_to_switch = 0
    self.bytes_to_controller = 0
    self.alive = True

  def pump(self):
    """Move pending bytes both ways once.  Returns True if anything moved."""
    moved = False
    if not self.alive:
      return False
    d = self.csock.take_sent()
    if d:
      self.bytes_to_switch += len(d)
      for seg in self._segments(d):
        self.sw.rx_bytes(seg)
      moved = True
    d = self.sw.take_sent()
    if d:
      self.bytes_to_controller += len(d)
      for seg in self._segments(d):
        self.csock.feed(seg)
        n = 0
        while self.csock.inbox:
          if self.con.read() is False:
            self.alive = False
            break
          n += 1
          if n > 100000:
            raise HarnessError("controller read loop does not drain")
      moved = True
    return moved

  def _segments(self, d):
    if self.segmenter is None:
      return [d]
    return self.segmenter(d)

  def handshake(self):
    """HELLO from the switch side, then pump until ConnectionUp."""
    self.sw.sw.send_hello(force=True) if hasattr(self.sw.sw, "send_hello") else None
    self.world.settle()
    return self.con.connect_time is not None
