"""Drivers for POX's two real I/O loops as plain generators, and a deterministic line budget.

  LineBudget        sys.monitoring LINE counter over the code objects of chosen modules; makes
                    "does not terminate" a deterministic observation (a flag), not a wall-clock timeout
  ControllerLoop    of_01.OpenFlow_01_Task.run() with of_01.socket shimmed: fake listener, FakeSocks,
                    the real accept / read / close / except logic
  SwitchLoop        ioworker.RecocoIOLoop.run() with real RecocoIOWorkers on FakeSocks and
                    OFConnection (+ a SoftwareSwitch) behind each of them
  LogTap            stands in for a module's `log` so that exceptions the loops swallow with
                    log.exception() can be seen by the oracle

Nothing here judges anything; the property modules do.
"""
import socket as _real_socket
import sys

from ..runner import HarnessError
from .world import FakeSock


# --------------------------------------------------------------------------- line budget

class BudgetExceeded(BaseException):
  """Raised from the LINE callback on every traced line once the budget is spent, so that control
  leaves the spinning code.  The flag LineBudget.exceeded is the verdict, not this exception:
  bare `except:` clauses on the way out may swallow it."""


class LineBudget(object):
  _instance = None
  MODULES = ("pox.openflow.of_01", "pox.datapaths.switch", "pox.openflow.libopenflow_01", "pox.lib.ioworker",
             "pox.openflow.util")

  # libopenflow_01._ofp_meta.__len__ answers len(<class without __len__>) by recursing into itself until
  # RecursionError and swallowing it; a LINE callback at that depth cannot even be entered.  Not traced.
  UNTRACED = frozenset(["_ofp_meta.__len__"])

  def __init__(self, modules=None):
    self.active = False
    self.count = 0
    self.limit = 0
    self.exceeded = False
    self.max_seen = 0
    self.where = None
    self._tool = None
    self._modules = tuple(modules or self.MODULES)
    self._install()

  @classmethod
  def get(cls):
    if cls._instance is None:
      cls._instance = LineBudget()
    return cls._instance

  # -- installation: local LINE events on every code object defined in the modules
  def _install(self):
    mon = getattr(sys, "monitoring", None)
    if mon is None:
      raise HarnessError("sys.monitoring is not available (Python >= 3.12 needed for the line budget)")
    for tid in (4, 3, 2, 1):
      try:
        mon.use_tool_id(tid, "pvf-line-budget")
        self._tool = tid
        break
      except ValueError:
        continue
    if self._tool is None:
      raise HarnessError("no free sys.monitoring tool id for the line budget")
    mon.register_callback(self._tool, mon.events.LINE, self._on_line)
    files = set()
    codes = []
    seen = set()
    for name in self._modules:
      __import__(name)
      m = sys.modules[name]
      fn = getattr(m, "__file__", None)
      if fn:
        files.add(fn)
    for name in self._modules:
      m = sys.modules[name]
      for v in list(vars(m).values()):
        self._collect(v, files, codes, seen, 0)
    for c in codes:
      mon.set_local_events(self._tool, c, mon.events.LINE)
    self.n_code_objects = len(codes)
    import atexit
    atexit.register(self._uninstall)

  def _uninstall(self):
    """No callbacks while the interpreter tears modules down."""
    self.active = False
    try:
      sys.monitoring.register_callback(self._tool, sys.monitoring.events.LINE, None)
      sys.monitoring.free_tool_id(self._tool)
    except Exception:
      pass

  def rescan(self):
    """Code objects may have been replaced (atheris instruments functions in place): trace the current ones."""
    mon = sys.monitoring
    files = set(getattr(sys.modules[n], "__file__", None) for n in self._modules)
    codes, seen = [], set()
    for name in self._modules:
      for v in list(vars(sys.modules[name]).values()):
        self._collect(v, files, codes, seen, 0)
    for c in codes:
      mon.set_local_events(self._tool, c, mon.events.LINE)
    self.n_code_objects = len(codes)

  def functions(self):
    """The plain functions defined in the traced modules (for in-place instrumentation by a fuzzer)."""
    import types
    out, seen = [], set()

    def walk(v, depth):
      if depth > 5 or id(v) in seen:
        return
      seen.add(id(v))
      if isinstance(v, (staticmethod, classmethod)):
        v = v.__func__
      if isinstance(v, property):
        for f in (v.fget, v.fset, v.fdel):
          if f is not None:
            walk(f, depth + 1)
      elif isinstance(v, type):
        if getattr(v, "__module__", None) in self._modules:
          for x in list(vars(v).values()):
            walk(x, depth + 1)
      elif isinstance(v, types.FunctionType) and v.__module__ in self._modules:
        out.append(v)
    for name in self._modules:
      for v in list(vars(sys.modules[name]).values()):
        walk(v, 0)
    return out

  def _collect(self, v, files, codes, seen, depth):
    if depth > 6:
      return
    code = None
    if isinstance(v, (staticmethod, classmethod)):
      v = v.__func__
    if isinstance(v, property):
      for f in (v.fget, v.fset, v.fdel):
        if f is not None:
          self._collect(f, files, codes, seen, depth + 1)
      return
    if isinstance(v, type):
      if id(v) in seen:
        return
      seen.add(id(v))
      mod = sys.modules.get(getattr(v, "__module__", None))
      if mod is None or getattr(mod, "__file__", None) not in files:
        return
      for x in list(vars(v).values()):
        self._collect(x, files, codes, seen, depth + 1)
      return
    code = getattr(v, "__code__", None)
    if code is None:
      w = getattr(v, "__wrapped__", None)
      if w is not None:
        self._collect(w, files, codes, seen, depth + 1)
      return
    self._collect_code(code, files, codes, seen)
    clo = getattr(v, "__closure__", None)
    if clo:
      for cell in clo:
        try:
          self._collect(cell.cell_contents, files, codes, seen, depth + 1)
        except ValueError:
          pass

  def _collect_code(self, code, files, codes, seen):
    if id(code) in seen or code.co_filename not in files:
      return
    seen.add(id(code))
    if getattr(code, "co_qualname", "") in self.UNTRACED:
      return
    codes.append(code)
    for k in code.co_consts:
      if hasattr(k, "co_code"):
        self._collect_code(k, files, codes, seen)

  # -- the callback
  def _on_line(self, code, line):
    if not self.active:
      return None
    self.count += 1
    if self.count > self.limit:
      if not self.exceeded:
        self.exceeded = True
        self.where = (code.co_filename, code.co_name, line)
      raise BudgetExceeded("line budget of %d exceeded in %s:%s" % (self.limit, code.co_name, line))
    return None

  # -- use
  def begin(self, limit):
    self.count = 0
    self.limit = int(limit)
    self.exceeded = False
    self.where = None
    self.active = True

  def end(self):
    self.active = False
    if not self.exceeded and self.count > self.max_seen:
      self.max_seen = self.count
    return self.exceeded

  def run(self, limit, fn, *a, **kw):
    """Call fn under the budget.  Returns (exceeded, result, exception)."""
    self.begin(limit)
    res = exc = None
    try:
      res = fn(*a, **kw)
    except BudgetExceeded:
      pass
    except BaseException as e:      # judged by the caller
      exc = e
    finally:
      self.end()
    return self.exceeded, res, exc


# --------------------------------------------------------------------------- log tap

class LogTap(object):
  """Replaces a module-level `log`.  Nothing is printed; .exception() records sys.exc_info()."""

  def __init__(self):
    self.exceptions = []       # exception objects passed through log.exception
    self.errors = 0

  def exception(self, *a, **kw):
    e = sys.exc_info()[1]
    if isinstance(e, BudgetExceeded):
      return
    if a and isinstance(a[0], str) and len(a) > 1:
      try:
        a[0] % a[1:]             # the real logger would format eagerly-given arguments lazily; keep it honest
      except Exception:
        pass
    self.exceptions.append(e)

  def error(self, *a, **kw):
    self.errors += 1

  def debug(self, *a, **kw):
    pass

  info = warn = warning = critical = debug

  def isEnabledFor(self, lvl):
    return False


# --------------------------------------------------------------------------- controller loop

class FakeListener(object):
  def __init__(self):
    self.pending = []
    self.closed = False
    self.bound = None
    self._fileno = 190000

  def setsockopt(self, *a):
    pass

  def bind(self, addr):
    self.bound = addr

  def listen(self, n):
    pass

  def setblocking(self, b):
    pass

  def accept(self):
    if not self.pending:
      raise BlockingIOError(11, "Resource temporarily unavailable")
    s = self.pending.pop(0)
    return s, s.getpeername()

  def close(self):
    self.closed = True

  def shutdown(self, how):
    pass

  def fileno(self):
    return self._fileno

  def v_readable(self):
    return bool(self.pending)


class SocketShim(object):
  """Stands in for the `socket` module attribute of of_01: everything is the real module except
  socket(), which hands out the fake listener."""

  def __init__(self, listener):
    self._listener = listener

  def socket(self, *a, **kw):
    return self._listener

  def __getattr__(self, n):
    return getattr(_real_socket, n)


class ControllerLoop(object):
  """OpenFlow_01_Task.run() driven by hand.

  connection_class: optional subclass of of_01.Connection that the loop will instantiate for accepted
  sockets (the loop looks the name `Connection` up in of_01's globals)."""

  def __init__(self, world, connection_class=None, budget=None):
    import pox.openflow.of_01 as of_01
    self.of_01 = of_01
    self.world = world
    self.budget = budget
    self.listener = FakeListener()
    self._saved = (of_01.socket, of_01.Connection, of_01.log)
    of_01.socket = SocketShim(self.listener)
    if connection_class is not None:
      of_01.Connection = connection_class
    self.log = LogTap()
    of_01.log = self.log
    self.task = of_01.OpenFlow_01_Task(port=6633, address="0.0.0.0")
    self.gen = self.task.gen
    self.alive = True
    self.ended = None           # "return" | exception object
    self.exceeded = False
    self.steps = 0
    self.select = self._advance(None)

  def close(self):
    """End the generator the way POX itself would (KeyboardInterrupt is the one exception run() lets
    through; a plain gen.close() is swallowed by its bare `except:`), then restore of_01."""
    of_01 = self.of_01
    try:
      self.gen.throw(KeyboardInterrupt())
    except BaseException:
      pass
    try:
      self.gen.close()
    except BaseException:
      pass
    of_01.socket, of_01.Connection, of_01.log = self._saved

  def _advance(self, value):
    if not self.alive:
      return None

    def go():
      return self.gen.send(value)
    if self.budget is not None:
      exceeded, res, exc = self.budget[0].run(self.budget[1], go)
    else:
      exceeded, res, exc = False, None, None
      try:
        res = go()
      except BaseException as e:
        exc = e
    self.steps += 1
    if exceeded:
      self.exceeded = True
      self.alive = False
      self.ended = "budget"
      return None
    if exc is not None:
      self.alive = False
      self.ended = "return" if isinstance(exc, StopIteration) else exc
      return None
    return res

  # -- what the loop currently selects on
  @property
  def selected(self):
    if self.select is None:
      return []
    return list(self.select._args[0] or [])

  def connections(self):
    return [s for s in self.selected if s is not self.listener]

  def connect(self, sock=None):
    """A switch connects: queue a socket on the listener and let the loop accept it.
    Returns the Connection object the loop created."""
    sock = sock or FakeSock()
    before = set(id(c) for c in self.connections())
    self.listener.pending.append(sock)
    self.step()
    for c in self.connections():
      if id(c) not in before and getattr(c, "sock", None) is sock:
        return c
    return None

  def readable(self):
    out = []
    for s in self.selected:
      if s is self.listener:
        if self.listener.v_readable():
          out.append(s)
      else:
        sk = getattr(s, "sock", None)
        if sk is not None and not sk.closed and sk.v_readable():
          out.append(s)
    return out

  def step(self, rlist=None):
    """One wake-up of the task with the given (default: all currently readable) sockets."""
    if not self.alive:
      return False
    if rlist is None:
      rlist = self.readable()
    self.select = self._advance((list(rlist), [], []))
    return self.alive

  def drain(self, max_steps=100000):
    """Step until nothing is readable any more."""
    n = 0
    while self.alive and self.readable():
      self.step()
      n += 1
      if n > max_steps:
        raise HarnessError("controller loop does not drain")
    return n


# --------------------------------------------------------------------------- switch loop

class SwitchPeer(object):
  """One controller connection of the switch-side loop: FakeSock <- RecocoIOWorker <- OFConnection <- switch."""

  def __init__(self, sock, worker, conn, switch):
    self.sock, self.worker, self.conn, self.switch = sock, worker, conn, switch


class SwitchLoop(object):
  def __init__(self, world, budget=None):
    import pox.lib.ioworker as IOW
    import pox.datapaths.switch as SW
    self.IOW, self.SW = IOW, SW
    self.world = world
    self.budget = budget
    self._saved = IOW.log
    self.log = LogTap()
    IOW.log = self.log
    self.loop = IOW.RecocoIOLoop()
    self.gen = self.loop.gen
    self.peers = []
    self.alive = True
    self.ended = None
    self.exceeded = False
    self.steps = 0
    self.select = self._advance(None)

  def close(self):
    try:
      self.gen.close()
    except BaseException:
      pass
    self.IOW.log = self._saved

  def _advance(self, value):
    if not self.alive:
      return None

    def go():
      return self.gen.send(value)
    if self.budget is not None:
      exceeded, res, exc = self.budget[0].run(self.budget[1], go)
    else:
      exceeded, res, exc = False, None, None
      try:
        res = go()
      except BaseException as e:
        exc = e
    self.steps += 1
    if exceeded:
      self.exceeded = True
      self.alive = False
      self.ended = "budget"
      return None
    if exc is not None:
      self.alive = False
      self.ended = "return" if isinstance(exc, StopIteration) else exc
      return None
    return res

  def add_peer(self, dpid, sock=None, with_switch=True, ports=4):
    """Register a worker on a fake socket with the loop, an OFConnection on it and (optionally) a
    SoftwareSwitch behind that, the way pox.datapaths does on connect."""
    sock = sock or FakeSock("sw%x" % dpid)
    worker = self.loop.new_worker(sock)
    conn = self.SW.OFConnection(worker)
    sw = None
    if with_switch:
      sw = self.SW.SoftwareSwitch(dpid, ports=ports)
      sw.set_connection(conn)
    p = SwitchPeer(sock, worker, conn, sw)
    self.peers.append(p)
    self.step()                 # the pending "add worker" command runs at the top of the loop
    return p

  @property
  def selected(self):
    if self.select is None:
      return []
    return list(self.select._args[0] or [])

  def readable(self):
    out = []
    for s in self.selected:
      if s is self.loop.pinger:
        if s.v_readable():
          out.append(s)
      else:
        sk = getattr(s, "socket", None)
        if sk is not None and not sk.closed and sk.v_readable():
          out.append(s)
    return out

  def writable(self):
    if self.select is None:
      return []
    return [w for w in (self.select._args[1] or []) if not w.socket.closed]

  def step(self, rlist=None, wlist=None):
    if not self.alive:
      return False
    if rlist is None:
      rlist = self.readable()
    if wlist is None:
      wlist = self.writable()
    self.select = self._advance((list(rlist), list(wlist), []))
    return self.alive

  def drain(self, max_steps=100000):
    n = 0
    while self.alive and (self.readable() or self.writable()):
      self.step()
      n += 1
      if n > max_steps:
        raise HarnessError("switch loop does not drain")
    return n
