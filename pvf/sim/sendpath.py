"""Harness for C20: the two send paths of POX under scripted socket outcomes.

ScriptSock      -- FakeSock whose send() outcomes also understand "half" / "most" / "zero" and that
                   records which thread made each call and when shutdown() happened
message(k, n)   -- the k-th queued message: n pseudo-random bytes that depend on (k, offset) only
Baton           -- two-thread baton passing: exactly one of {harness thread, sender thread} runs
ControllerRig   -- of_01.Connection(s) on ScriptSocks + a REAL of_01.DeferredSender whose run() executes on a
                   managed thread; the hand-over points are the shimmed of_01.select.select and (optionally)
                   every acquisition of DeferredSender._lock made by the sender thread
SwitchRig       -- RecocoIOWorker(s) on ScriptSocks inside the REAL RecocoIOLoop.run generator, which the
                   harness answers with the Select results the case dictates (no threads)

Nothing in here judges anything; pvf/props/c20.py holds the oracle.

A different interleaver (line-level switch points from pvf/sim/detsched.py) can replace Baton: ControllerRig only
uses start(fn) / resume(value) -> (kind, info) / yield_(kind, info) -> value / on_sender() / finish().
"""
import errno
import hashlib
import os
import socket as _socket
import struct
import threading

from ..runner import HarnessError
from .world import World, FakeSock, FakePinger

FATALS = ("EPIPE", "ECONNRESET")


def message(k, n):
  """n bytes of message number k.  SHAKE-128 of the index: no period, so a lost, duplicated or
  moved slice of any length shows up as a mismatch."""
  return hashlib.shake_128(b"pvf-c20-msg-%d" % k).digest(n)


def echo_request(xid, body):
  """OFPT_ECHO_REQUEST written from the OpenFlow 1.0 header layout (version, type, length, xid)."""
  return struct.pack("!BBHL", 1, 2, 8 + len(body), xid) + body


class ScriptSock(FakeSock):
  """send_script outcomes: "all", "half" (n//2 of n), "most" (n-1 of n), "zero"/0, int k, "eagain",
  "EPIPE"/"ECONNRESET".  Exhausted script = "all"."""

  def __init__(self, name=None, send_script=None):
    FakeSock.__init__(self, name, send_script)
    self.calls = []            # (who, offered, outcome, accepted or None)
    self.shutdown_at = []      # (how, len(sent) at that moment)
    self.who = lambda: "h"
    self.short = 0             # calls that accepted fewer bytes than offered
    self.eagain = 0
    self.backpressure = False  # a short write or EAGAIN has happened
    self.total = 0             # bytes ever accepted (take_sent() does not reset it)
    self.scripted = False      # set once the case's script is installed (handshake traffic is not judged)
    self.trouble = []          # things the socket API contract forbids (harness-side observations)
    self.peeks = 0
    self.connect_error = None

  def send(self, data, flags=0):
    if not isinstance(data, (bytes, bytearray, memoryview)):
      self.trouble.append("send() called with %s" % type(data).__name__)
      raise TypeError("a bytes-like object is required, not %r" % type(data).__name__)
    n = len(data)
    if self.send_script:
      o = self.send_script[0]
      if o == "half":
        self.send_script[0] = n // 2
      elif o == "most":
        self.send_script[0] = max(0, n - 1)
      elif o == "zero":
        self.send_script[0] = 0
    before = len(self.sent)
    was_closed = self.closed
    try:
      k = FakeSock.send(self, data, flags)
    except OSError as e:
      oc = "closed" if was_closed else self.send_calls[-1][1]
      if oc == "eagain":
        self.eagain += 1
        self.backpressure = True
      self.calls.append((self.who(), n, oc, None))
      raise
    self.total += len(self.sent) - before
    if k < n:
      self.short += 1
      self.backpressure = True
    self.calls.append((self.who(), n, self.send_calls[-1][1], k))
    return k

  def shutdown(self, how):
    self.shutdown_at.append((how, self.total))
    FakeSock.shutdown(self, how)
    if how != 1:               # SHUT_RD / SHUT_RDWR: the read side reports end of stream from now on
      self.eof = True

  def recv(self, n, flags=0):
    """MSG_PEEK (IOWorker._try_connect probes a connecting socket with recv(1, MSG_PEEK)) returns without
    consuming; `connect_error` (an errno name) is what the probe of a failed connection attempt raises."""
    if flags & _socket.MSG_PEEK:
      self.peeks += 1
      if self.closed:
        raise OSError(errno.EBADF, "Bad file descriptor")
      if self.connect_error is not None:
        self.fatal = True
        code = getattr(errno, self.connect_error)
        raise OSError(code, os.strerror(code))
      if self.inbox:
        return bytes(self.inbox[:max(1, n)])
      if self.eof:
        return b""
      raise BlockingIOError(errno.EAGAIN, "Resource temporarily unavailable")
    return FakeSock.recv(self, n, flags)

  def begin_script(self, script):
    """Forget the handshake traffic and start the scripted part of the case."""
    self.take_sent()
    del self.send_calls[:]
    del self.calls[:]
    self.send_script = list(script)
    self.short = self.eagain = self.total = 0
    self.backpressure = False
    self.scripted = True


# --------------------------------------------------------------------------- baton passing

class Baton(object):
  """Exactly one of the harness thread and the sender thread runs at any time."""

  def __init__(self, timeout=120.0):
    # raw locks used as binary semaphores (released by the other thread); much cheaper than threading.Semaphore
    self._h = threading.Lock()
    self._t = threading.Lock()
    self._h.acquire()
    self._t.acquire()
    self.timeout = timeout
    self.thread = None
    self.done = False
    self.exc = None
    self.pending = None
    self._value = None
    self.abandoned = False

  def start(self, fn):
    def body():
      self._t.acquire()
      try:
        if not self.abandoned:
          fn()
      except BaseException as e:     # reported by the harness thread, never swallowed
        self.exc = e
      finally:
        self.done = True
        self.pending = ("done", None)
        self._h.release()
    self.thread = threading.Thread(target=body, name="pvf-c20-sender")
    self.thread.daemon = True
    self.thread.start()

  def on_sender(self):
    return threading.current_thread() is self.thread

  def yield_(self, kind, info=None):
    """Called on the sender thread: park, let the harness run, return what it passes back."""
    self.pending = (kind, info)
    self._h.release()
    if not self._t.acquire(timeout=self.timeout):
      self.abandoned = True
      raise SystemExit("pvf: sender thread abandoned by the harness")
    return self._value

  def resume(self, value=None):
    """Called on the harness thread: let the sender run up to its next hand-over point."""
    if self.done:
      return ("done", None)
    self._value = value
    self._t.release()
    if not self._h.acquire(timeout=self.timeout):
      raise HarnessError("sender thread made no progress for %.0f s" % self.timeout)
    return self.pending

  def finish(self):
    if self.thread is not None:
      self.thread.join(self.timeout)
      if self.thread.is_alive():
        raise HarnessError("sender thread did not end")


class _HandoverLock(object):
  """DeferredSender._lock with a hand-over point in front of every acquisition by the sender thread."""

  def __init__(self, real, rig):
    self._real, self._rig = real, rig

  def acquire(self, *a, **kw):
    self._rig._lock_point()
    return self._real.acquire(*a, **kw)

  def release(self):
    return self._real.release()

  def __enter__(self):
    self._rig._lock_point()
    return self._real.__enter__()

  def __exit__(self, *a):
    return self._real.__exit__(*a)


class _SelectShim(object):
  def __init__(self, rig, real):
    self._rig, self._real = rig, real

  def select(self, rl, wl, xl, timeout=None):
    return self._rig._select(rl, wl, xl, timeout)

  def __getattr__(self, n):
    return getattr(self._real, n)


# --------------------------------------------------------------------------- OpenFlow bytes for a minimal handshake

def _hello(xid=0):
  return struct.pack("!BBHL", 1, 0, 8, xid)


def _features_reply(dpid, xid=0):
  # ofp_switch_features without ports: header, datapath_id, n_buffers, n_tables, pad[3], capabilities, actions
  return struct.pack("!BBHLQLB3xLL", 1, 6, 32, xid, dpid, 256, 1, 0xc7, 0xfff)


def _barrier_reply(xid):
  return struct.pack("!BBHL", 1, 19, 8, xid)


def _frames(data):
  off = 0
  while off + 8 <= len(data):
    v, t, l, x = struct.unpack_from("!BBHL", data, off)
    if l < 8:
      raise HarnessError("bad frame in handshake traffic")
    yield t, x, data[off:off + l]
    off += l


# --------------------------------------------------------------------------- controller side

class ControllerRig(object):
  """Connections + the real DeferredSender on a managed thread."""

  def __init__(self, conns, lockpts=False, interleaver=None):
    import pox.openflow.of_01 as of_01
    import pox.core
    self.of_01 = of_01
    self.threads_before = threading.active_count()
    self.world = World()
    self.core = pox.core.core
    self.baton = interleaver if interleaver is not None else Baton()
    self.lockpts = bool(lockpts)
    self.lock_yields = 0
    self.selects = 0
    self.timeouts = 0
    self.sender_error = None
    self._torn = False
    self._old_select = of_01.select
    of_01.select = _SelectShim(self, self._old_select)

    class _Sender(of_01.DeferredSender):
      def start(self_):            # the harness runs run() itself
        pass

    if of_01.pox.lib.util.makePinger is not FakePinger:
      raise HarnessError("makePinger is not the fake one")
    self.ds = _Sender()
    if not isinstance(self.ds._waker, FakePinger):
      raise HarnessError("DeferredSender waker is not a FakePinger")
    self.ds._lock = _HandoverLock(self.ds._lock, self)
    of_01.deferredSender = self.ds

    self.down_nexus = {}           # connection index -> ConnectionDown events seen on the nexus
    self.down_con = {}
    self.down_thread = {}
    self.socks, self.cons = [], []
    self.world.nexus.addListenerByName("ConnectionDown", self._on_down_nexus)
    for i, spec in enumerate(conns):
      s = ScriptSock("c%d" % i)
      s.who = self._who
      con = of_01.Connection(s)
      self.socks.append(s)
      self.cons.append(con)
      self.down_nexus[i] = self.down_con[i] = 0
      con.addListenerByName("ConnectionDown", lambda ev, i=i: self._on_down_con(i))
      if spec.get("hs"):
        self._handshake(i)
      s.begin_script(spec.get("script") or [])
    self.at = None                 # (kind, info) where the sender thread is parked
    self.baton.start(self.ds.run)
    self.at = self.baton.resume(None)

  # -- observations
  def _who(self):
    return "t" if self.baton.on_sender() else "h"

  def _on_down_nexus(self, ev):
    for i, c in enumerate(self.cons):
      if c is ev.connection:
        self.down_nexus[i] += 1
        self.down_thread[i] = self._who()

  def _on_down_con(self, i):
    self.down_con[i] += 1

  def _handshake(self, i):
    s, con = self.socks[i], self.cons[i]
    dpid = i + 1
    s.feed(_hello())
    con.read()
    s.feed(_features_reply(dpid))
    con.read()
    xid = None
    for t, x, _ in _frames(bytes(s.sent)):
      if t == 18:
        xid = x
    if xid is None:
      raise HarnessError("controller did not send a barrier request during the handshake")
    s.feed(_barrier_reply(xid))
    con.read()
    if con.connect_time is None or con.dpid != dpid:
      raise HarnessError("minimal handshake did not complete")
    if self.world.nexus.connections.get(dpid) is not con:
      raise HarnessError("connection not registered after the handshake")

  # -- hand-over points (run on the sender thread)
  def _select(self, rl, wl, xl, timeout):
    if not self.baton.on_sender():
      raise HarnessError("select called from the harness thread")
    self.selects += 1
    return self.baton.yield_("select", (list(rl), list(wl), list(xl), timeout))

  def _lock_point(self):
    if self.lockpts and not self._torn and self.baton.on_sender():
      self.lock_yields += 1
      self.baton.yield_("lock", None)

  # -- harness-side operations
  def queued(self, i):
    """Bytes the deferred sender still holds for connection i (anchor state, used for labels only)."""
    d = self.ds._dataForConnection.get(self.cons[i])
    return sum(len(x) for x in d) if d else 0

  def idle(self):
    return not self.ds._dataForConnection and self.ds._waker.count == 0

  def go(self, wmask, emask=0):
    """Let the sender thread run to its next hand-over point.  If it is parked in select, the
    result is: waker readable iff it has been pinged; of the connections it asked about, those in
    wmask writable and those in emask in exceptional condition."""
    if self.baton.done:
      return "done"
    kind, info = self.at
    val = None
    if kind == "select":
      rl, wl, xl, timeout = info
      r = [x for x in rl if x.v_readable()]
      e = [c for c in xl if (emask >> self.cons.index(c)) & 1]
      w = [c for c in wl if (wmask >> self.cons.index(c)) & 1 and c not in e]
      if not r and not w and not e:
        self.timeouts += 1
      val = (r, w, e)
    self.at = self.baton.resume(val)
    if self.at[0] == "done" and self.baton.exc is not None and self.sender_error is None:
      self.sender_error = self.baton.exc
    return kind

  def visit(self):
    """What the controller's read loop does when it next looks at the connections: a connection
    whose socket reports end of stream is closed (read() False -> close())."""
    closed = []
    for i, (s, con) in enumerate(zip(self.socks, self.cons)):
      if s.closed or not s.v_readable():
        continue
      if con.read() is False:
        con.close()
        closed.append(i)
    return closed

  def teardown(self):
    """Stop the sender thread the way POX does (core.running False + waker ping) and undo the patches."""
    if self._torn:
      return
    self._torn = True
    try:
      self.core.running = False
      try:
        self.ds._waker.ping()
        n = 0
        while not self.baton.done:
          kind, info = self.at
          val = None
          if kind == "select":
            val = ([x for x in info[0] if x.v_readable()], [], [])
          self.at = self.baton.resume(val)
          n += 1
          if n > 1000:
            raise HarnessError("deferred sender does not stop after core.running became False")
        if self.baton.exc is not None and self.sender_error is None:
          self.sender_error = self.baton.exc
        self.baton.finish()
      finally:
        self.core.running = True
    finally:
      self.of_01.select = self._old_select
      self.of_01.deferredSender = None
      self.world.close()
    if threading.active_count() != self.threads_before:
      raise HarnessError("thread count %d after the case, %d before" % (threading.active_count(), self.threads_before))


# --------------------------------------------------------------------------- switch side

class _LogTap(object):
  def __init__(self, real):
    self._real = real
    self.exceptions = []

  def exception(self, e, *a, **kw):
    self.exceptions.append(e)

  def __getattr__(self, n):
    return getattr(self._real, n)


class SwitchRig(object):
  """RecocoIOWorkers inside the real RecocoIOLoop.run generator."""

  def __init__(self, scripts):
    import pox.lib.ioworker as IOW
    import pox.core
    self.IOW = IOW
    self.world = World()
    self.core = pox.core.core
    self._old_log = IOW.log
    self.log = IOW.log = _LogTap(self._old_log)
    if IOW.makePinger is not FakePinger:
      raise HarnessError("ioworker.makePinger is not the fake one")
    self.loop = IOW.RecocoIOLoop()
    self.socks, self.workers, self.closes = [], [], []
    self.connects = []
    self.on_connect = None       # set by the case runner: fn(worker index), runs inside the connect handler
    self.handler_errors = []
    for i, spec in enumerate(scripts):
      if not isinstance(spec, dict):
        spec = {"script": spec}
      s = ScriptSock("w%d" % i)
      w = self.loop.new_worker(s)
      self.closes.append(0)
      self.connects.append(0)
      w.close_handler = lambda w_, i=i: self._on_close(i)
      self.socks.append(s)
      self.workers.append(w)
      s.begin_script(spec.get("script") or [])
      if spec.get("connecting"):
        # what PersistentIOWorker / BackoffWorker (the software switch's own connection) do: the worker is
        # registered while the TCP connection is still being established
        w._connecting = True
        w.connect_handler = lambda w_, i=i: self._on_connect(i)
        if spec.get("refuse"):
          # a refused connection has no peer bytes; it is only modelled as noticed by _do_send (a socket whose
          # connect failed would also be reported readable, _do_recv would close the worker and the _do_send of
          # the same round would call send() on the dead socket and get an error -- a failed connect is not one
          # of the property's per-send outcomes, so that round is not generated)
          s.connect_error = "ECONNREFUSED"
        elif spec.get("peer"):
          s.feed(b"\x01\x00\x00\x08\x00\x00\x00\x01")     # the peer's first bytes are already there
    self.dead = False
    self.rounds = 0
    self.gen = self.loop.run()
    self.sel = None
    self._advance(None)
    for w in self.workers:
      if w not in self.loop._workers:
        raise HarnessError("worker was not registered by the first loop pass")

  def _on_close(self, i):
    self.closes[i] += 1

  def _on_connect(self, i):
    # IOWorker._call_safe swallows exceptions of the handler: harness trouble is kept in a list instead
    self.connects[i] += 1
    if self.on_connect is not None:
      try:
        self.on_connect(i)
      except HarnessError as e:
        self.handler_errors.append(e)

  def _advance(self, value):
    try:
      if value is None:
        self.sel = next(self.gen)
      else:
        self.sel = self.gen.send(value)
    except StopIteration:
      self.dead = True
      self.sel = None

  def round(self, wmask, rmask=-1):
    """Answer the pending Select: pinger readable iff pinged; a worker is readable when the peer's bytes are
    waiting in its socket and rmask allows; of the workers the loop asked to write, those in wmask are
    writable.  Runs the loop body and the head of the next iteration."""
    if self.dead:
      return False
    rl, wl, xl = self.sel._args[0], self.sel._args[1], self.sel._args[2]
    r = [x for x in rl if x is self.loop.pinger and x.v_readable()]
    r += [x for x in rl if x is not self.loop.pinger and x in self.workers
          and (rmask >> self.workers.index(x)) & 1 and self.socks[self.workers.index(x)].inbox]
    w = [x for x in wl if (wmask >> self.workers.index(x)) & 1]
    self.rounds += 1
    self._advance((r, w, []))
    return True

  def asked_to_write(self, i):
    return (not self.dead) and self.workers[i] in self.sel._args[1]

  def idle(self):
    if self.dead:
      return True
    return (self.loop.pinger.count == 0 and not self.sel._args[1]
            and not self.loop._pending_commands
            and not any(w._ready_to_send for w in self.loop._workers))

  def teardown(self):
    try:
      if not self.dead:
        self.gen.close()
    finally:
      self.IOW.log = self._old_log
      self.world.close()
