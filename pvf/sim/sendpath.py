"""Harness for C20: the two send paths of POX under scripted socket outcomes.

ScriptSock      -- FakeSock whose send() outcomes also understand "half" / "most" / "zero" and that
                   records which thread made each call and when shutdown() happened
message(k, n)   -- the k-th queued message: n pseudo-random bytes that depend on (k, offset) only
Baton           -- two-thread baton passing: exactly one of {harness thread, sender thread} runs
ControllerRig   -- of_01.Connection(s) on ScriptSocks + a REAL of_01.DeferredSender whose run() executes on a
                   managed thread; the hand-over points are the shimmed of_01.select.select and (optionally)
                   every acquisition of DeferredSender._lock made by the sender thread
SwitchRig       -- RecocoIOWorker(s) on ScriptSocks inside the REAL RecocoIOLoop.run generator, which the
                   harness answers with the Select results the case dictates (no threads)

Nothing in here judges anything; pvf/props/c20.py holds the oracle.

A different interleaver (line-level switch points from pvf/sim/detsched.py) can replace Baton: ControllerRig only
uses start(fn) / resume(value) -> (kind, info) / yield_(kind, info) -> value / on_sender() / finish().
"""
import errno
import hashlib
import os
import socket as _socket
import struct
import threading

from ..runner import HarnessError
from .world import World, FakeSock, FakePinger

FATALS = ("EPIPE", "ECONNRESET")


def message(k, n):
  """n bytes of message number k.  SHAKE-128 of the index: no period, so a lost, duplicated or
  moved slice of any length shows up as a mismatch."""
  return hashlib.shake_128(b"pvf-c20-msg-%d" % k).digest(n)


def echo_request(xid, body):
  """OFPT_ECHO_REQUEST written from the OpenFlow 1.0 header layout (version, type, length, xid)."""
  return struct.pack("!BBHL", 1, 2, 8 + len(body), xid) + body


class ScriptSock(FakeSock):
  """send_script outcomes: "all", "half" (n//2 of n), "most" (n-1 of n), "zero"/0, int k, "eagain",
  "EPIPE"/"ECONNRESET".  Exhausted script = "all"."""

  def __init__(self, name=None, send_script=None):
    FakeSock.__init__(self, name, send_script)
    self.calls = []            # (who, offered, outcome, accepted or None)
    self.shutdown_at = []      # (how, len(sent) at that moment)
    self.who = lambda: "h"
    self.short = 0             # calls that accepted fewer bytes than offered
    self.eagain = 0
    self.backpressure = False  # a short write or EAGAIN has happened
    self.total = 0             # bytes ever accepted (take_sent() does not reset it)
    self.scripted = False      # set once the case's script is installed (handshake traffic is not judged)
    self.trouble = []          # things the socket API contract forbids (harness-side observations)
    self.peeks = 0
    self.connect_error = None
    self.hook = None           # fn(sock, "pre"|"post") around every send() call (pre-emption points of the rig)
    self.fatal_via = None      # "send" / "recv": which kind of socket call reported the first fatal error
    self.sends_after_recv_fault = 0
    self.calls_at_rd_shutdown = None   # number of send() calls made before the first shutdown of the read side

  def send(self, data, flags=0):
    if not isinstance(data, (bytes, bytearray, memoryview)):
      self.trouble.append("send() called with %s" % type(data).__name__)
      raise TypeError("a bytes-like object is required, not %r" % type(data).__name__)
    hook = self.hook
    if hook is None:
      return self._send(data, flags)
    hook(self, "pre")
    try:
      return self._send(data, flags)
    finally:
      hook(self, "post")

  def _send(self, data, flags):
    n = len(data)
    if self.send_script:
      o = self.send_script[0]
      if o == "half":
        self.send_script[0] = n // 2
      elif o == "most":
        self.send_script[0] = max(0, n - 1)
      elif o == "zero":
        self.send_script[0] = 0
    before = len(self.sent)
    was_closed = self.closed
    if self.fatal and not was_closed:
      # a socket that has reported a fatal error stays dead: every further send() fails (and is counted)
      self.sends_after_fatal += 1
      if self.fatal_via == "recv":
        self.sends_after_recv_fault += 1
      self.calls.append((self.who(), n, "dead", None))
      raise BrokenPipeError(errno.EPIPE, os.strerror(errno.EPIPE))
    try:
      k = FakeSock.send(self, data, flags)
    except OSError as e:
      oc = "closed" if was_closed else self.send_calls[-1][1]
      if oc == "eagain":
        self.eagain += 1
        self.backpressure = True
      elif self.fatal and self.fatal_via is None:
        self.fatal_via = "send"
      self.calls.append((self.who(), n, oc, None))
      raise
    self.total += len(self.sent) - before
    if k < n:
      self.short += 1
      self.backpressure = True
    self.calls.append((self.who(), n, self.send_calls[-1][1], k))
    return k

  def shutdown(self, how):
    if how != 1 and self.calls_at_rd_shutdown is None:
      self.calls_at_rd_shutdown = len(self.calls)
    self.shutdown_at.append((how, self.total))
    FakeSock.shutdown(self, how)
    if how != 1:               # SHUT_RD / SHUT_RDWR: the read side reports end of stream from now on
      self.eof = True

  def recv(self, n, flags=0):
    """MSG_PEEK (IOWorker._try_connect probes a connecting socket with recv(1, MSG_PEEK)) returns without
    consuming; `connect_error` (an errno name) is what the probe of a failed connection attempt raises."""
    if flags & _socket.MSG_PEEK:
      self.peeks += 1
      if self.closed:
        raise OSError(errno.EBADF, "Bad file descriptor")
      if self.connect_error is not None:
        self.fatal = True
        if self.fatal_via is None:
          self.fatal_via = "recv"
        code = getattr(errno, self.connect_error)
        raise OSError(code, os.strerror(code))
      if self.inbox:
        return bytes(self.inbox[:max(1, n)])
      if self.eof:
        return b""
      raise BlockingIOError(errno.EAGAIN, "Resource temporarily unavailable")
    if self.recv_error is not None and not self.inbox and not self.closed:
      # a fatal error reported by recv() (connection reset, timed out): the socket is dead from now on
      self.fatal = True
      if self.fatal_via is None:
        self.fatal_via = "recv"
    if self.fatal and not self.inbox and not self.closed:
      # a socket whose send() failed fatally reports the error to recv() as well
      raise ConnectionResetError(errno.ECONNRESET, os.strerror(errno.ECONNRESET))
    return FakeSock.recv(self, n, flags)

  def v_readable(self):
    # select reports a socket with a pending error readable
    return FakeSock.v_readable(self) or (self.fatal and not self.closed)

  def begin_script(self, script):
    """Forget the handshake traffic and start the scripted part of the case."""
    self.take_sent()
    del self.send_calls[:]
    del self.calls[:]
    self.send_script = list(script)
    self.short = self.eagain = self.total = 0
    self.backpressure = False
    self.scripted = True


# --------------------------------------------------------------------------- baton passing

class Baton(object):
  """Exactly one of the harness thread and the sender thread runs at any time."""

  def __init__(self, timeout=120.0):
    # raw locks used as binary semaphores (released by the other thread); much cheaper than threading.Semaphore
    self._h = threading.Lock()
    self._t = threading.Lock()
    self._h.acquire()
    self._t.acquire()
    self.timeout = timeout
    self.thread = None
    self.done = False
    self.exc = None
    self.pending = None
    self._value = None
    self.abandoned = False

  def start(self, fn):
    def body():
      self._t.acquire()
      try:
        if not self.abandoned:
          fn()
      except BaseException as e:     # reported by the harness thread, never swallowed
        self.exc = e
      finally:
        self.done = True
        self.pending = ("done", None)
        self._h.release()
    self.thread = threading.Thread(target=body, name="pvf-c20-sender")
    self.thread.daemon = True
    self.thread.start()

  def on_sender(self):
    return threading.current_thread() is self.thread

  def yield_(self, kind, info=None):
    """Called on the sender thread: park, let the harness run, return what it passes back."""
    self.pending = (kind, info)
    self._h.release()
    if not self._t.acquire(timeout=self.timeout):
      self.abandoned = True
      raise SystemExit("pvf: sender thread abandoned by the harness")
    return self._value

  def resume(self, value=None):
    """Called on the harness thread: let the sender run up to its next hand-over point."""
    if self.done:
      return ("done", None)
    self._value = value
    self._t.release()
    if not self._h.acquire(timeout=self.timeout):
      raise HarnessError("sender thread made no progress for %.0f s" % self.timeout)
    return self.pending

  def finish(self):
    if self.thread is not None:
      self.thread.join(self.timeout)
      if self.thread.is_alive():
        raise HarnessError("sender thread did not end")


class _HandoverLock(object):
  """DeferredSender._lock with a hand-over point in front of every acquisition by the sender thread, and with
  the blocking of the cooperative thread modelled: when the harness thread asks for the lock while the sender
  thread holds it (the sender is parked inside its locked section, at a socket write), the sender runs on until
  it lets go of the lock and parks right there ("released"); only then does the harness thread get the lock --
  what a pre-empted sender thread and a cooperative thread blocked in `with self._lock` do for real."""

  def __init__(self, real, rig):
    self._real, self._rig = real, rig
    self.sender_depth = 0

  def _enter(self):
    rig = self._rig
    if rig.baton.on_sender():
      rig._lock_point()
      return True
    if self.sender_depth:
      rig._harness_blocked(self)
    return False

  def _left(self):
    self.sender_depth -= 1
    if self.sender_depth == 0:
      self._rig._released_point()

  def acquire(self, *a, **kw):
    mine = self._enter()
    r = self._real.acquire(*a, **kw)
    if mine and r:
      self.sender_depth += 1
    return r

  def release(self):
    mine = self._rig.baton.on_sender()
    r = self._real.release()
    if mine:
      self._left()
    return r

  def __enter__(self):
    mine = self._enter()
    r = self._real.__enter__()
    if mine:
      self.sender_depth += 1
    return r

  def __exit__(self, *a):
    mine = self._rig.baton.on_sender()
    r = self._real.__exit__(*a)
    if mine:
      self._left()
    return r


class ClosedDescriptorInSelect(ValueError):
  """What select.select raises when one of the objects it is handed has fileno() == -1 (a closed socket)."""


class _SelectShim(object):
  def __init__(self, rig, real):
    self._rig, self._real = rig, real

  def select(self, rl, wl, xl, timeout=None):
    return self._rig._select(rl, wl, xl, timeout)

  def __getattr__(self, n):
    return getattr(self._real, n)


# --------------------------------------------------------------------------- OpenFlow bytes for a minimal handshake

def _hello(xid=0):
  return struct.pack("!BBHL", 1, 0, 8, xid)


def _features_reply(dpid, xid=0):
  # ofp_switch_features without ports: header, datapath_id, n_buffers, n_tables, pad[3], capabilities, actions
  return struct.pack("!BBHLQLB3xLL", 1, 6, 32, xid, dpid, 256, 1, 0xc7, 0xfff)


def _barrier_reply(xid):
  return struct.pack("!BBHL", 1, 19, 8, xid)


def _frames(data):
  off = 0
  while off + 8 <= len(data):
    v, t, l, x = struct.unpack_from("!BBHL", data, off)
    if l < 8:
      raise HarnessError("bad frame in handshake traffic")
    yield t, x, data[off:off + l]
    off += l


# --------------------------------------------------------------------------- controller side

class ControllerRig(object):
  """Connections + the real DeferredSender on a managed thread."""

  def __init__(self, conns, lockpts=False, interleaver=None, sockpts=0):
    import pox.openflow.of_01 as of_01
    import pox.core
    self.of_01 = of_01
    self.threads_before = threading.active_count()
    self.world = World()
    self.core = pox.core.core
    self.baton = interleaver if interleaver is not None else Baton()
    self.lockpts = bool(lockpts)
    self.sockpts = int(sockpts or 0)     # bit 0: hand over before, bit 1: after every socket write of the sender thread
    self.lock_yields = 0
    self.sock_yields = 0
    self.down_yields = 0
    self.on_down = [spec.get("on_down") for spec in conns]   # size of the message a ConnectionDown listener sends to the next connection
    self.listener_send = None      # fn(target index, data, on_sender_thread): told about every listener send before it is made
    self.listener_errors = []
    self.harness_waiting = False
    self.blocked = 0               # cooperative sends that had to wait for the sender's lock
    self.blocked_log = []          # per wait: what the sender thread did meanwhile
    self.selects = 0
    self.timeouts = 0
    self.sender_error = None
    self._torn = False
    self._old_select = of_01.select
    of_01.select = _SelectShim(self, self._old_select)

    class _Sender(of_01.DeferredSender):
      def start(self_):            # the harness runs run() itself
        pass

    if of_01.pox.lib.util.makePinger is not FakePinger:
      raise HarnessError("makePinger is not the fake one")
    self.ds = _Sender()
    if not isinstance(self.ds._waker, FakePinger):
      raise HarnessError("DeferredSender waker is not a FakePinger")
    self.ds._lock = _HandoverLock(self.ds._lock, self)
    of_01.deferredSender = self.ds

    self.down_nexus = {}           # connection index -> ConnectionDown events seen on the nexus
    self.down_con = {}
    self.down_thread = {}
    self.socks, self.cons = [], []
    self.world.nexus.addListenerByName("ConnectionDown", self._on_down_nexus)
    for i, spec in enumerate(conns):
      s = ScriptSock("c%d" % i)
      s.who = self._who
      if self.sockpts:
        s.hook = self._sock_point
      con = of_01.Connection(s)
      self.socks.append(s)
      self.cons.append(con)
      self.down_nexus[i] = self.down_con[i] = 0
      con.addListenerByName("ConnectionDown", lambda ev, i=i: self._on_down_con(i))
      if spec.get("hs"):
        self._handshake(i)
      s.begin_script(spec.get("script") or [])
    self.at = None                 # (kind, info) where the sender thread is parked
    self.baton.start(self.ds.run)
    self.at = self.baton.resume(None)

  # -- observations
  def _who(self):
    return "t" if self.baton.on_sender() else "h"

  def _on_down_nexus(self, ev):
    # revent swallows what a listener raises: harness trouble is kept in a list instead
    try:
      for i, c in enumerate(self.cons):
        if c is ev.connection:
          self.down_nexus[i] += 1
          self.down_thread[i] = self._who()
          self._down_listener(i)
    except (HarnessError, SystemExit) as e:
      self.listener_errors.append(e)
      raise

  def _down_listener(self, i):
    """A ConnectionDown listener of the application.  It runs on whichever thread disconnects the connection -- the
    sender thread after a fatal error during a flush.  Hand-over point "down" (bit 2 of sockpts): the sender thread is
    pre-empted while the listeners run.  With `on_down` the listener sends a message to the next connection."""
    on_sender = self.baton.on_sender()
    if on_sender and (self.sockpts & 4) and not self._torn:
      self.down_yields += 1
      self.baton.yield_("down", i)
    size = self.on_down[i] if i < len(self.on_down) else None
    if size and len(self.cons) > 1 and not self._torn:
      t = (i + 1) % len(self.cons)
      data = message(200 + i, max(8, int(size)))
      if self.listener_send is not None:
        self.listener_send(t, data, on_sender)
      self.cons[t].send(data)

  def _on_down_con(self, i):
    self.down_con[i] += 1

  def _handshake(self, i):
    s, con = self.socks[i], self.cons[i]
    dpid = i + 1
    s.feed(_hello())
    con.read()
    s.feed(_features_reply(dpid))
    con.read()
    xid = None
    for t, x, _ in _frames(bytes(s.sent)):
      if t == 18:
        xid = x
    if xid is None:
      raise HarnessError("controller did not send a barrier request during the handshake")
    s.feed(_barrier_reply(xid))
    con.read()
    if con.connect_time is None or con.dpid != dpid:
      raise HarnessError("minimal handshake did not complete")
    if self.world.nexus.connections.get(dpid) is not con:
      raise HarnessError("connection not registered after the handshake")

  # -- hand-over points (run on the sender thread)
  def _select(self, rl, wl, xl, timeout):
    if not self.baton.on_sender():
      raise HarnessError("select called from the harness thread")
    self.selects += 1
    for c in list(wl) + list(xl):
      if c in self.cons and self.socks[self.cons.index(c)].closed:
        # a closed socket's fileno() is -1 (FakeSock keeps its number): the real select refuses it
        raise ClosedDescriptorInSelect("file descriptor cannot be a negative integer (-1)")
    return self.baton.yield_("select", (list(rl), list(wl), list(xl), timeout))

  def _lock_point(self):
    if self.lockpts and not self._torn and self.baton.on_sender():
      self.lock_yields += 1
      self.baton.yield_("lock", None)

  def _sock_point(self, sock, phase):
    """The sender thread is pre-empted at a socket write (it holds its lock there): "write" = the call has not
    happened yet, "wrote" = the socket has answered but the sender has not yet acted on the answer."""
    if self._torn or not self.baton.on_sender():
      return
    if self.sockpts & (1 if phase == "pre" else 2):
      self.sock_yields += 1
      self.baton.yield_("write" if phase == "pre" else "wrote", sock)

  def _released_point(self):
    if self.harness_waiting and not self._torn and self.baton.on_sender():
      self.baton.yield_("released", None)

  def _harness_blocked(self, lock):
    """Runs on the harness thread, which wants the lock the parked sender thread holds."""
    if self._torn:
      raise HarnessError("harness thread needs the sender's lock during teardown")
    self.harness_waiting = True
    self.blocked += 1
    seen = {"disconnected": [c.disconnected for c in self.cons], "writes": 0}
    try:
      n = 0
      while lock.sender_depth and not self.baton.done:
        if self.at[0] == "select":
          raise HarnessError("sender thread sits in select() while holding its lock")
        self.at = self.baton.resume(None)
        if self.at[0] in ("write", "wrote"):
          seen["writes"] += 1
        if self.listener_errors:
          raise self.listener_errors[0]
        n += 1
        if n > 100000:
          raise HarnessError("sender thread never releases its lock")
      if self.baton.done and self.baton.exc is not None and self.sender_error is None:
        self.sender_error = self.baton.exc
    finally:
      self.harness_waiting = False
    seen["disconnected_now"] = [c.disconnected for c in self.cons]
    seen["flush_complete"] = not self.ds._dataForConnection
    self.blocked_log.append(seen)

  # -- harness-side operations
  def queued(self, i):
    """Bytes the deferred sender still holds for connection i (anchor state, used for labels only)."""
    d = self.ds._dataForConnection.get(self.cons[i])
    return sum(len(x) for x in d) if d else 0

  def idle(self):
    return not self.ds._dataForConnection and self.ds._waker.count == 0

  def go(self, wmask, emask=0):
    """Let the sender thread run to its next hand-over point.  If it is parked in select, the
    result is: waker readable iff it has been pinged; of the connections it asked about, those in
    wmask writable and those in emask in exceptional condition."""
    if self.baton.done:
      return "done"
    kind, info = self.at
    val = None
    if kind == "select":
      rl, wl, xl, timeout = info
      r = [x for x in rl if x.v_readable()]
      e = [c for c in xl if (emask >> self.cons.index(c)) & 1]
      w = [c for c in wl if (wmask >> self.cons.index(c)) & 1 and c not in e]
      if not r and not w and not e:
        self.timeouts += 1
      val = (r, w, e)
    self.at = self.baton.resume(val)
    if self.at[0] == "done" and self.baton.exc is not None and self.sender_error is None:
      self.sender_error = self.baton.exc
    return kind

  def visit(self):
    """What the controller's read loop does when it next looks at the connections: a connection
    whose socket reports end of stream is closed (read() False -> close())."""
    closed = []
    for i, (s, con) in enumerate(zip(self.socks, self.cons)):
      if s.closed or not s.v_readable():
        continue
      if con.read() is False:
        con.close()
        closed.append(i)
    return closed

  def teardown(self):
    """Stop the sender thread the way POX does (core.running False + waker ping) and undo the patches."""
    if self._torn:
      return
    self._torn = True
    try:
      self.core.running = False
      try:
        self.ds._waker.ping()
        n = 0
        while not self.baton.done:
          kind, info = self.at
          val = None
          if kind == "select":
            val = ([x for x in info[0] if x.v_readable()], [], [])
          self.at = self.baton.resume(val)
          n += 1
          if n > 1000:
            raise HarnessError("deferred sender does not stop after core.running became False")
        if self.baton.exc is not None and self.sender_error is None:
          self.sender_error = self.baton.exc
        self.baton.finish()
      finally:
        self.core.running = True
    finally:
      self.of_01.select = self._old_select
      self.of_01.deferredSender = None
      self.world.close()
    if threading.active_count() != self.threads_before:
      raise HarnessError("thread count %d after the case, %d before" % (threading.active_count(), self.threads_before))


# --------------------------------------------------------------------------- switch side

class _LogTap(object):
  def __init__(self, real):
    self._real = real
    self.exceptions = []

  def exception(self, e, *a, **kw):
    self.exceptions.append(e)

  def __getattr__(self, n):
    return getattr(self._real, n)


class SwitchRig(object):
  """RecocoIOWorkers inside the real RecocoIOLoop.run generator."""

  def __init__(self, scripts):
    import pox.lib.ioworker as IOW
    import pox.core
    self.IOW = IOW
    self.world = World()
    self.core = pox.core.core
    self._old_log = IOW.log
    self.log = IOW.log = _LogTap(self._old_log)
    if IOW.makePinger is not FakePinger:
      raise HarnessError("ioworker.makePinger is not the fake one")
    self.loop = IOW.RecocoIOLoop()
    self.socks, self.workers, self.closes = [], [], []
    self.connects = []
    self.on_connect = None       # set by the case runner: fn(worker index), runs inside the connect handler
    self.handler_errors = []
    for i, spec in enumerate(scripts):
      if not isinstance(spec, dict):
        spec = {"script": spec}
      s = ScriptSock("w%d" % i)
      w = self.loop.new_worker(s)
      self.closes.append(0)
      self.connects.append(0)
      w.close_handler = lambda w_, i=i: self._on_close(i)
      self.socks.append(s)
      self.workers.append(w)
      s.begin_script(spec.get("script") or [])
      if spec.get("connecting"):
        # what PersistentIOWorker / BackoffWorker (the software switch's own connection) do: the worker is
        # registered while the TCP connection is still being established
        w._connecting = True
        w.connect_handler = lambda w_, i=i: self._on_connect(i)
        if spec.get("refuse"):
          # a refused connection has no peer bytes; select reports the socket readable and writable, so it is
          # noticed by _do_recv or by _do_send, whichever the round's masks let run first
          s.connect_error = "ECONNREFUSED"
        elif spec.get("peer"):
          s.feed(b"\x01\x00\x00\x08\x00\x00\x00\x01")     # the peer's first bytes are already there
    self.dead = False
    self.rounds = 0
    self.gen = self.loop.run()
    self.sel = None
    self._advance(None)
    for w in self.workers:
      if w not in self.loop._workers:
        raise HarnessError("worker was not registered by the first loop pass")

  def _on_close(self, i):
    self.closes[i] += 1

  def _on_connect(self, i):
    # IOWorker._call_safe swallows exceptions of the handler: harness trouble is kept in a list instead
    self.connects[i] += 1
    if self.on_connect is not None:
      try:
        self.on_connect(i)
      except HarnessError as e:
        self.handler_errors.append(e)

  def _advance(self, value):
    try:
      if value is None:
        self.sel = next(self.gen)
      else:
        self.sel = self.gen.send(value)
    except StopIteration:
      self.dead = True
      self.sel = None

  def round(self, wmask, rmask=-1):
    """Answer the pending Select: pinger readable iff pinged; a worker is readable when the peer's bytes are
    waiting in its socket and rmask allows; of the workers the loop asked to write, those in wmask are
    writable.  Runs the loop body and the head of the next iteration."""
    if self.dead:
      return False
    rl, wl, xl = self.sel._args[0], self.sel._args[1], self.sel._args[2]
    r = [x for x in rl if x is self.loop.pinger and x.v_readable()]
    r += [x for x in rl if x is not self.loop.pinger and x in self.workers
          and (rmask >> self.workers.index(x)) & 1 and self._sock_readable(self.socks[self.workers.index(x)])]
    w = [x for x in wl if (wmask >> self.workers.index(x)) & 1]
    self.rounds += 1
    self._advance((r, w, []))
    return True

  @staticmethod
  def _sock_readable(s):
    """What select reports as readable: peer bytes waiting, end of stream, a pending socket error (a reset
    connection, a failed asynchronous connect -- such a socket is reported readable AND writable)."""
    return bool(s.inbox) or s.eof or s.recv_error is not None or s.connect_error is not None

  def asked_to_write(self, i):
    return (not self.dead) and self.workers[i] in self.sel._args[1]

  def idle(self):
    if self.dead:
      return True
    return (self.loop.pinger.count == 0 and not self.sel._args[1]
            and not self.loop._pending_commands
            and not any(w._ready_to_send for w in self.loop._workers))

  def teardown(self):
    try:
      if not self.dead:
        self.gen.close()
    finally:
      self.IOW.log = self._old_log
      self.world.close()
