"""A data plane on top of pvf.sim.world: switches, directed cables between switch ports, edge ports.

NetWorld          -- a World whose settle() also moves frames over the cables until nothing is in flight
Net.add_switch    -- world.add_switch + attach + emission hook
Net.cable         -- directed cable (dpid, port) -> (dpid, port); each direction is its own cable
Net.inject        -- put a frame in flight towards a switch port (as if a host had sent it)
Net.hops          -- one record per frame that entered a switch:
                     {"sw", "in_port", "data", "packet_in", "outs": [(port, bytes)], "t"}
                     packet_in: the switch wrote to its control channel while it received the frame
Net.host_rx       -- frames that left on a port without a (live) cable: (dpid, port, bytes)
Net.stray         -- emissions that cannot be attributed to a frame that entered that switch

Delivery is never re-entrant: an emission is queued and handed to the peer switch from settle().
In mode "seq" one frame is delivered at a time and the control plane settles before the next one, so
every emission of that switch until then belongs to that hop.  In mode "wave" everything in flight
is delivered before the control plane runs (back-to-back frames, outstanding packet-ins); emissions are
attributed by (switch, frame bytes), so frames of one wave must be pairwise distinct.

Nothing here shares code with the reference models.
"""
import collections

from ..runner import HarnessError
from .world import World


class Net(object):
  def __init__(self, world):
    self.world = world
    self.cables = {}          # (dpid, port) -> [peer dpid, peer port, up]
    self.dead = set()         # dpids whose data plane is dead (frames to and from them vanish)
    self.pending = collections.deque()
    self.mode = "seq"
    self.record = True
    self.hops = []
    self.host_rx = []
    self.stray = []
    self._current = []
    self.budget = 2000        # deliveries allowed until reset_budget(); exceeded -> overflow
    self.overflow = False
    self.delivered = 0
    self.pad_to = 0           # cables pad shorter frames with zeros to this many bytes (60 = Ethernet minimum without FCS)
    self.wave_no = 0          # counts step() calls: hops with the same "wave" entered their switches before the control plane ran
    self.on_deliver = None    # optional callback(dpid, port, data) before a frame enters a switch

  # ------------------------------------------------------------------ construction
  def add_switch(self, dpid, ports=4, expire=True, connect=True, **kw):
    sw = self.world.add_switch(dpid, ports=ports, expire=expire, **kw)
    sw.on_emit = self._on_emit
    sw.link = None
    if connect:
      self.connect(dpid)
    else:
      self.dead.add(dpid)
    return sw

  def connect(self, dpid, revive=True):
    """(Re)connect a switch: a fresh control channel for the same datapath (its flow table and port
    configuration survive, as on a real switch); whatever it wrote while disconnected is lost."""
    from . import world as W
    import pox.datapaths.switch as SW
    sw = self.world.switches[dpid]
    if sw.link is not None and sw.link.alive:
      return sw.link
    sw.sock = W.FakeSock("sw%x" % dpid)
    sw.worker = W._make_worker(sw.sock)
    sw.conn = SW.OFConnection(sw.worker)
    sw.sw.set_connection(sw.conn)
    link = self.world.attach(sw)
    sw.link = link
    if revive:
      self.dead.discard(dpid)        # (revive=False: the control channel comes up, the data plane stays dead)
    if not link.handshake():
      raise HarnessError("switch %x did not come up" % dpid)
    return link

  def disconnect(self, dpid, kill_dataplane=True):
    """The control connection closes (the controller's read loop sees EOF and closes its side)."""
    sw = self.world.switches[dpid]
    link = sw.link
    if link is None or not link.alive:
      return False
    link.alive = False
    if link in self.world.links:
      self.world.links.remove(link)
    sw.link = None
    if kill_dataplane:
      self.dead.add(dpid)
    link.con.close()
    self.world.settle()
    return True

  def cable(self, a, ap, b, bp, both=True):
    self.cables[(a, ap)] = [b, bp, True]
    if both:
      self.cables[(b, bp)] = [a, ap, True]

  def set_cable(self, a, ap, up):
    self.cables[(a, ap)][2] = bool(up)

  def add_port(self, dpid, port_no):
    """Hot-plug a port: the switch announces it with PortStatus ADD (if it has a control channel)."""
    sw = self.world.switches[dpid].sw
    if port_no not in sw.ports:
      sw.add_port(sw.generate_port(port_no))

  def del_port(self, dpid, port_no):
    sw = self.world.switches[dpid].sw
    if port_no in sw.ports:
      sw.delete_port(port_no)

  def flap_port(self, dpid, port_no):
    """The link state of a port changes; the switch reports it with PortStatus MODIFY."""
    import pox.openflow.libopenflow_01 as of
    sw = self.world.switches[dpid].sw
    p = sw.ports.get(port_no)
    if p is not None:
      p.state ^= of.OFPPS_LINK_DOWN
      sw.send_port_status(p, of.OFPPR_MODIFY)

  def reset_budget(self, n=2000):
    self.budget = n
    self.delivered = 0
    self.overflow = False

  # ------------------------------------------------------------------ frames
  def inject(self, dpid, port, data):
    self.pending.append((dpid, port, bytes(data)))

  def _on_emit(self, swend, port, data):
    dpid = swend.sw.dpid
    hop = None
    if self.mode == "seq":
      if self._current and self._current[0]["sw"] == dpid:
        hop = self._current[0]
    else:
      for h in self._current:
        if h["sw"] == dpid and h["data"] == data:
          hop = h
    if hop is not None:
      hop["outs"].append((port, data))
    elif self.record:
      self.stray.append((dpid, port, data))
    if dpid in self.dead:
      return
    c = self.cables.get((dpid, port))
    if c is None:
      if self.record:
        self.host_rx.append((dpid, port, data))
      return
    if c[2] and c[0] not in self.dead:
      if len(data) < self.pad_to:
        data = data + bytes(self.pad_to - len(data))
      self.pending.append((c[0], c[1], data))

  def _deliver(self, dpid, port, data):
    sw = self.world.switches.get(dpid)
    if sw is None or dpid in self.dead:
      return
    if self.on_deliver is not None:
      self.on_deliver(dpid, port, data)
    hop = {"sw": dpid, "in_port": port, "data": data, "packet_in": False, "outs": [],
           "t": self.world.clock.now, "wave": self.wave_no}
    self._current.append(hop)
    if self.record:
      self.hops.append(hop)
    before = len(sw.worker.send_buf)
    sw.rx_frame(data, port)
    hop["packet_in"] = len(sw.worker.send_buf) > before

  def step(self):
    """Deliver the next frame (seq) or everything in flight (wave).  False when nothing was in flight."""
    self._current = []
    if not self.pending:
      return False
    self.wave_no += 1
    n = 1 if self.mode == "seq" else len(self.pending)
    for _ in range(n):
      if self.delivered >= self.budget:
        self.overflow = True
        self.pending.clear()
        return False
      self.delivered += 1
      self._deliver(*self.pending.popleft())
    return True

  def take(self):
    h, r, s = self.hops, self.host_rx, self.stray
    self.hops, self.host_rx, self.stray = [], [], []
    return h, r, s


class NetWorld(World):
  def __init__(self, **kw):
    super(NetWorld, self).__init__(**kw)
    self.net = Net(self)
    self._settling = False

  def settle(self, max_rounds=10000):
    if self._settling:            # a timer fired from inside a delivery: the outer loop picks it up
      return World.settle(self, max_rounds)
    self._settling = True
    try:
      while True:
        World.settle(self, max_rounds)
        if not self.net.step():
          self.net._current = []
          return
    finally:
      self._settling = False
