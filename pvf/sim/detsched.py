"""detsched -- a deterministic scheduler for real Python threads (systematic concurrency testing).

The code under test keeps using `threading.Thread`, `Lock`, `Event`, `time.sleep`, `select.select`
and pinger pipes, but *as seen by the module under test* these names are replaced by shims of one
`DetSched` instance.  Then

* exactly ONE managed thread runs at any moment (baton passing with one real binary semaphore per
  managed thread; there is no controller thread -- the thread that gives up the baton picks its successor);
* a thread can lose the baton only at a *switch point*:
    - a LINE event (sys.monitoring, Python 3.12) in one of the functions given as `trace=`
      (optionally only at the listed line numbers of that function; for functions also listed in
      `opcode=` every bytecode INSTRUCTION instead), or an explicit `ds.switch_point(site)`, or
    - a shimmed primitive that would block (Lock.acquire on a held lock, Event.wait on a clear event,
      Condition.wait, Thread.join, time.sleep, select on fake fds, pinger.pongAll on an empty pinger), or
    - the end of the thread;
* at a switch point with at least two enabled threads the *chooser* picks who runs: this is decision
  number k of the run.  The candidates are ordered `[current (if it can continue), then the others in
  round-robin order of thread index after the current one]` (`base=1`: descending order).  The chooser
  returns an int v and candidate `v % n` runs; 0 therefore means "stay / the default successor";
* time is virtual.  When no thread is enabled the clock jumps to the earliest deadline of a blocked
  thread (recorded in `time_advances`); a thread blocked in `wait_quiescent()` is woken *instead* of
  advancing the clock, which is how a test observes "everything that could happen at this instant has
  happened".  No enabled thread, no deadline: deadlock -- recorded with every thread's blocking site,
  then all threads are unwound with `DetSchedAbort` raised from the primitive they block in;
* a real-time watchdog turns a hang of the harness into `HarnessError`, never into a verdict.

Everything is a pure function of (code, chooser): re-running with the same chooser re-executes the same
interleaving, `decisions` lists every decision taken (index, candidates, choice, thread, site).

Typical use

    ds = DetSched(chooser=SparseChooser({17: 1}), trace={func_or_code: None | set_of_lines, ...})
    with ds.patched(mod, threading=ds.threading, Thread=ds.Thread, time=ds.time, select=ds.select), \
         ds.patched(pox.lib.util, makePinger=ds.make_pinger, make_pinger=ds.make_pinger):
      res = ds.run(main)          # main() runs on the first managed thread and starts the others
    res.deadlock / res.stalled / res.time_advances / res.decisions / res.preemptions / res.thread_errors

Rules for users: create every thread inside run() (through `ds.Thread` or through patched code); end the
case with all managed threads finished (e.g. scheduler.quit(), wake it, join it) -- run() raises HarnessError
if a thread is left over; never raise from `observer`; exceptions escaping a managed thread other than main
are collected in `res.thread_errors`, main's exception is re-raised by run().  After a deadlock / stall the
threads are unwound with DetSchedAbort (a BaseException) and run() returns normally with the Result filled
in, so keep observations in closures rather than in main's return value.

Choosers: `ListChooser([0,0,2,...])` (dense: decision k uses list[k], past the end 0 -- the form a
Hypothesis `lists(integers())` strategy draws and shrinks well), `SparseChooser({k: v})`,
`GapChooser([[gap, v], ...])` (skip `gap` decisions, then pick v; compact form for long runs).
`enumerate_deviations(probe, bound)` walks all schedules that differ from the default one in at most
`bound` decisions (a deviation at a line switch point is a pre-emption).

Fake file objects for the virtual select: anything with `v_readable()` (and optionally `v_writable()`),
or an int / an object with `fileno()` naming a virtual pipe end created by `ds.os.pipe()`.
`ds.make_pinger()` returns a fake pinger whose `pongAll()` on an empty pinger blocks like the real pipe.
`ds.os` stands in for the `os` attribute of a module (e.g. pox.lib.util) so that its REAL pipe code runs
over virtual pipes: `pipe()` returns two virtual fds (>= 1000000, never real ones), `write(fd, b)` appends
(blocking while the 64 KiB pipe buffer is full), `read(fd, n)` returns up to n bytes and blocks -- a blocking
primitive without deadline, site "os.read(fd=..)" -- while the pipe is empty and its write end is open,
`close(fd)`; everything else is delegated to the real `os`.  `ds.blocked()` lists the blocked threads.

Limits: switch points exist only at line boundaries of the traced functions and at shimmed primitives;
everything else (C code, untraced Python) is atomic.  Objects of the real `queue`/`threading` modules that
the code under test imported *by name before patching* keep working as long as they never block.
"""
import collections
import contextlib
import inspect
import sys
import threading as _rt
import _thread
import time as _real_time
import select as _real_select
import os as _real_os

from ..runner import HarnessError

_TOOL = 4
_tool_claimed = False
_active = None            # the DetSched whose run() is in progress (one per process at a time)
_mon = sys.monitoring


class DetSchedAbort(BaseException):
  """Raised inside managed threads to unwind them after a deadlock / budget stop."""


# --------------------------------------------------------------------------- choosers

class Chooser(object):
  def choose(self, k, n, info):
    return 0


class ListChooser(Chooser):
  def __init__(self, lst):
    self.lst = list(lst)

  def choose(self, k, n, info):
    return self.lst[k] if k < len(self.lst) else 0


class SparseChooser(Chooser):
  def __init__(self, picks):
    self.picks = {int(k): int(v) for k, v in dict(picks).items()}

  def choose(self, k, n, info):
    return self.picks.get(k, 0)


class GapChooser(Chooser):
  """[[gap, v], ...]: let `gap` decisions take the default, then answer v, and so on."""
  def __init__(self, pairs):
    self.picks = {}
    k = -1
    for gap, v in pairs:
      k += int(gap) + 1
      self.picks[k] = int(v)

  def choose(self, k, n, info):
    return self.picks.get(k, 0)


def enumerate_deviations(probe, bound, want=None, max_decisions=None):
  """Yield every deviation dict {k: v} with at most `bound` entries, depth first.

  probe(devs) must run the scenario under SparseChooser(devs) and return the list of decisions taken
  (dicts with "k", "n" and whatever `want` inspects).  A decision is a deviation candidate when
  want(decision) is true (default: all).  Deviations are added only after the last one already present,
  so each schedule is produced once.  The empty dict (default schedule) is yielded first.
  """
  def rec(devs, last, left):
    yield dict(devs)
    if left == 0:
      return
    decs = probe(devs)
    for d in decs:
      k = d["k"]
      if k <= last or (max_decisions is not None and k >= max_decisions):
        continue
      if d.get("frozen") or (want is not None and not want(d)):
        continue
      for v in range(1, d["n"]):
        nd = dict(devs)
        nd[k] = v
        for x in rec(nd, k, left - 1):
          yield x
  return rec({}, -1, bound)


# --------------------------------------------------------------------------- helpers for trace configs

def code_of(f):
  if inspect.iscode(f):
    return f
  f = getattr(f, "__func__", f)
  f = getattr(f, "__wrapped__", f)
  return f.__code__


def lines_matching(func, patterns):
  """Line numbers inside `func` whose stripped source starts with one of `patterns`.
  Raises HarnessError if a pattern matches nothing (the source drifted)."""
  src, first = inspect.getsourcelines(func)
  out = set()
  for p in patterns:
    hit = False
    for i, l in enumerate(src):
      if l.strip().startswith(p):
        out.add(first + i)
        hit = True
    if not hit:
      raise HarnessError("detsched.lines_matching: no line starting with %r in %s" % (p, getattr(func, "__qualname__", func)))
  return out


# --------------------------------------------------------------------------- thread record

class _Rec(object):
  __slots__ = ("idx", "name", "sem", "state", "pred", "deadline", "site", "thread", "exc", "idle_wait", "woken_idle")

  def __init__(self, idx, name):
    self.idx, self.name = idx, name
    self.sem = _thread.allocate_lock()   # binary semaphore: held = "no baton"; release() passes the baton
    self.sem.acquire()
    self.state = "new"          # new -> run <-> blocked -> done
    self.pred = None
    self.deadline = None
    self.site = None
    self.thread = None
    self.exc = None
    self.idle_wait = False
    self.woken_idle = False


class Result(object):
  """What happened in one DetSched.run()."""
  def __init__(self):
    self.decisions = []        # {"k","n","v","thread","kind","site","window","to","frozen"}
    self.preemptions = []      # decisions of kind "line" with v % n != 0
    self.time_advances = []    # (from, to, [names of threads whose deadline it was])
    self.deadlock = None       # None | [(thread name, blocking site)]
    self.stalled = None        # None | [(thread name, blocking site)] -- see max_vtime_span
    self.budget_exceeded = False
    self.thread_errors = []    # (thread name, exception) for exceptions escaping a managed thread (not main)
    self.switches = 0
    self.line_events = 0
    self.trace = collections.deque(maxlen=400)   # (thread, kind, site, vtime)
    self.value = None


# --------------------------------------------------------------------------- the scheduler

class DetSched(object):
  def __init__(self, chooser=None, trace=None, windows=None, base=0, t0=1000.0,
               watchdog_s=60.0, max_switch_points=400000, on_abort=None, decide_on="all",
               observer=None, max_vtime_span=120.0, opcode=()):
    """trace: {function|code: None (every line) | iterable of line numbers}.
    windows: {function|code: iterable of line numbers} -- lines flagged `window=True` in decisions.
    decide_on: "all" -> every traced line is a decision point; "windows" -> only window lines
    (blocking primitives and thread exits always are).
    observer(thread_name, site): called on the running thread at every traced line event (before the
    decision), for invariants that must hold at every switch point; it must not block.
    max_vtime_span: if virtual time would pass t0 + span the run is stopped and `Result.stalled` lists the
    threads blocked without a deadline (some thread waits for ever while only pollers keep waking up).
    opcode: functions (a subset of `trace`) whose switch points are every bytecode INSTRUCTION instead of
    every line (site "qualname:line+offset"; an instruction is a window when its line is).
    on_abort(): called once when unwinding starts (deadlock / stall / budget), e.g. to set a quit flag."""
    self.chooser = chooser or Chooser()
    self.base = base
    self.now = float(t0)
    self.watchdog_s = watchdog_s
    self.max_switch_points = max_switch_points
    self.on_abort = on_abort
    self.decide_on = decide_on
    self.observer = observer
    self.t_limit = float(t0) + max_vtime_span
    self._trace = {}
    for f, lines in (trace or {}).items():
      self._trace[code_of(f)] = None if lines is None else frozenset(lines)
    self._windows = {}
    for f, lines in (windows or {}).items():
      c = code_of(f)
      self._windows[c] = frozenset(lines)
      if c not in self._trace:
        self._trace[c] = frozenset(lines)
      elif self._trace[c] is not None:
        self._trace[c] = self._trace[c] | frozenset(lines)
    self._opcode = {}
    for f in opcode:
      c = code_of(f)
      self._trace.setdefault(c, None)
      self._opcode[c] = {}
      for start, end, ln in c.co_lines():
        for off in range(start, end, 2):
          self._opcode[c][off] = ln
    self._recs = []
    self._by_ident = {}
    self.current = None
    self.aborting = None
    self.frozen = False
    self._k = 0
    self._done = _rt.Event()
    self._progress = 0
    self.res = Result()
    self._abort_lines = 0
    # shims
    self.threading = _ThreadingShim(self)
    self.Thread = self.threading.Thread
    self.time = _TimeShim(self)
    self.select = _SelectShim(self)
    self.os = _OsShim(self)
    self._pipes = {}          # virtual fd -> (_VPipe, "r" | "w")
    self._nonblocking_fds = set()   # virtual fds switched to O_NONBLOCK with os.set_blocking(fd, False)

  # ---- public helpers ------------------------------------------------------------------------
  def make_pinger(self):
    return FakePinger(self)

  @contextlib.contextmanager
  def patched(self, module, **names):
    old = {}
    for n, v in names.items():
      old[n] = getattr(module, n)
      setattr(module, n, v)
    try:
      yield
    finally:
      for n, v in old.items():
        setattr(module, n, v)

  def freeze(self):
    """From now on every decision takes the default (used for the uninteresting tail of a case)."""
    self.frozen = True

  def vtime(self):
    return self.now

  def wait_quiescent(self, site="wait_quiescent"):
    """Block until no other managed thread can run without virtual time passing."""
    me = self._me()
    me.idle_wait = True
    me.woken_idle = False
    try:
      self.block(lambda: me.woken_idle, None, site)
    finally:
      me.idle_wait = False
      me.woken_idle = False

  def blocked(self):
    """[(thread name, blocking site, virtual deadline or None)] of the threads blocked right now."""
    return [(r.name, r.site, r.deadline) for r in self._recs if r.state == "blocked"]

  def me_name(self):
    r = self._by_ident.get(_rt.get_ident())
    return r.name if r else None

  # ---- running ---------------------------------------------------------------------------------
  def run(self, main, name="main"):
    """Run main() on a managed thread, drive everything to completion, return the Result."""
    global _active, _tool_claimed
    if _active is not None:
      raise HarnessError("detsched: nested DetSched.run")
    if _rt.get_ident() in self._by_ident:
      raise HarnessError("detsched: run() called from a managed thread")
    baseline = _rt.active_count()
    if not _tool_claimed:
      try:
        _mon.use_tool_id(_TOOL, "detsched")
      except ValueError as e:
        raise HarnessError("detsched: sys.monitoring tool id %d is taken: %s" % (_TOOL, e))
      _tool_claimed = True
    _mon.register_callback(_TOOL, _mon.events.LINE, self._on_line)
    if self._opcode:
      _mon.register_callback(_TOOL, _mon.events.INSTRUCTION, self._on_instr)
    for c in self._trace:
      _mon.set_local_events(_TOOL, c, _mon.events.INSTRUCTION if c in self._opcode else _mon.events.LINE)
    _active = self
    holder = {}

    def body():
      holder["v"] = main()
    t = self.Thread(target=body, name=name)
    main_rec = None
    try:
      t._ds_register()
      main_rec = t._ds_rec
      self.current = main_rec
      t._ds_really_start()
      main_rec.sem.release()
      last = -1
      waited = 0.0
      while not self._done.wait(0.25):
        if self._progress != last:
          last, waited = self._progress, 0.0
        else:
          waited += 0.25
          if waited >= self.watchdog_s:
            self._hung = True
            raise HarnessError("detsched watchdog: no scheduling progress for %.0f s real time; threads: %s" % (
                self.watchdog_s, self._sites()))
      for r in self._recs:
        r.thread.join(10.0)
        if r.thread.is_alive():
          raise HarnessError("detsched: managed thread %s did not end" % r.name)
    finally:
      for c in self._trace:
        _mon.set_local_events(_TOOL, c, 0)
      _mon.register_callback(_TOOL, _mon.events.LINE, None)
      if self._opcode:
        _mon.register_callback(_TOOL, _mon.events.INSTRUCTION, None)
      _active = None
    if _rt.active_count() > baseline:
      raise HarnessError("detsched: %d thread(s) leaked" % (_rt.active_count() - baseline))
    self.res.value = holder.get("v")
    if main_rec.exc is not None:
      raise main_rec.exc
    return self.res

  # ---- internals --------------------------------------------------------------------------------
  def _me(self):
    r = self._by_ident.get(_rt.get_ident())
    if r is None:
      raise HarnessError("detsched: blocking primitive used from an unmanaged thread")
    return r

  def _sites(self):
    return [(r.name, r.state, r.site) for r in self._recs if r.state != "done"]

  def _enabled_p(self, r):
    if r.state == "run" or r.state == "new":
      return True
    if r.state == "blocked":
      if r.pred is not None and r.pred():
        return True
      if r.deadline is not None and r.deadline <= self.now:
        return True
    return False

  def _others(self, me):
    """Enabled threads other than `me`, round robin after me."""
    n = len(self._recs)
    out = []
    rng = range(1, n) if self.base == 0 else range(n - 1, 0, -1)
    for d in rng:
      r = self._recs[(me.idx + d) % n]
      if r.state != "done" and self._enabled_p(r):
        out.append(r)
    return out

  def _decide(self, me, cands, kind, site, window):
    """cands: list of records, default first.  Returns the chosen record."""
    n = len(cands)
    if n == 1:
      return cands[0]
    k = self._k
    self._k += 1
    if self.frozen or self.aborting:
      v = 0
    else:
      v = self.chooser.choose(k, n, {"kind": kind, "site": site, "window": window, "thread": me.name})
      if not isinstance(v, int):
        raise HarnessError("chooser returned %r" % (v,))
    pick = cands[v % n]
    d = {"k": k, "n": n, "v": v % n, "thread": me.name, "kind": kind, "site": site, "window": bool(window),
         "to": pick.name, "frozen": bool(self.frozen or self.aborting)}
    self.res.decisions.append(d)
    if kind == "line" and v % n != 0:
      self.res.preemptions.append(d)
    return pick

  def _handoff(self, me, nxt, wait=True):
    self._progress += 1
    if nxt is me:
      return
    self.res.switches += 1
    self.current = nxt
    nxt.sem.release()
    if wait:
      self._await_turn(me)

  def _await_turn(self, me):
    if not me.sem.acquire(True, self.watchdog_s * 3 + 30):
      raise DetSchedAbort("detsched: thread %s never got the baton back" % me.name)

  def _on_line(self, code, line):
    lines = self._trace.get(code)
    if lines is not None and line not in lines:
      return
    me = self._by_ident.get(_rt.get_ident())
    if me is None or self.current is not me:
      return
    w = self._windows.get(code)
    self._line_point(me, code.co_qualname, line, w is not None and line in w)

  def _on_instr(self, code, offset):
    o2l = self._opcode.get(code)
    if o2l is None:
      return
    me = self._by_ident.get(_rt.get_ident())
    if me is None or self.current is not me:
      return
    line = o2l.get(offset)
    if line is None:
      return
    lines = self._trace.get(code)
    if lines is not None and line not in lines:
      return
    w = self._windows.get(code)
    self._line_point(me, code.co_qualname, line, w is not None and line in w, offset)

  def switch_point(self, site, window=False):
    """A voluntary switch point in harness code (behaves like a traced line event)."""
    me = self._by_ident.get(_rt.get_ident())
    if me is None or self.current is not me:
      raise HarnessError("detsched.switch_point from a thread that does not hold the baton")
    self._line_point(me, site, 0, window)

  def _line_point(self, me, where, line, window, offset=None):
    self.res.line_events += 1
    if self.aborting:
      self._abort_lines += 1
      if self._abort_lines > 200000:
        raise DetSchedAbort("unwinding: thread %s keeps running" % me.name)
      return
    site = "%s:%d" % (where, line) if line else where
    if offset is not None:
      site += "+%d" % offset
    if self.observer is not None:
      self.observer(me.name, site)
    if self.decide_on == "windows" and not window:
      return
    if self.res.line_events > self.max_switch_points:
      self.res.budget_exceeded = True
      self._start_abort("budget")
      return
    self.res.trace.append((me.name, "line", site, self.now))
    others = self._others(me)
    if not others:
      return
    pick = self._decide(me, [me] + others, "line", site, window)
    if pick is not me:
      me.site = site
      self._handoff(me, pick)

  def block(self, pred, timeout=None, site=None):
    """Block the calling managed thread until pred() holds or `timeout` virtual seconds passed.
    Returns pred() at wake-up.  No switch point if pred() already holds."""
    me = self._me()
    if self.aborting:
      raise DetSchedAbort(self.aborting)
    if pred():
      return True
    if timeout is not None and timeout <= 0:
      return False
    me.state = "blocked"
    me.pred = pred
    me.deadline = None if timeout is None else self.now + timeout
    me.site = site
    self.res.trace.append((me.name, "block", site, self.now))
    try:
      nxt = self._pick_next(me, "block", site)
      self._handoff(me, nxt)
      if self.aborting:
        raise DetSchedAbort(self.aborting)
      return bool(pred())
    finally:
      me.state = "run"
      me.pred = None
      me.deadline = None

  def _pick_next(self, me, kind, site):
    """me cannot continue (blocked or done).  Find who runs; advance time if needed."""
    while True:
      cands = self._others(me)
      if me.state == "blocked" and self._enabled_p(me):
        cands = [me] + cands
      if cands:
        return self._decide(me, cands, kind, site, False)
      live = [r for r in self._recs if r.state == "blocked"]
      idle = [r for r in live if r.idle_wait and not r.woken_idle]
      if idle:
        idle[0].woken_idle = True
        continue
      dls = [r.deadline for r in live if r.deadline is not None]
      if not dls:
        self.res.deadlock = [(r.name, r.site) for r in live]
        self._start_abort("deadlock")
        # unwinding: the baton goes to any live thread (me first if alive)
        if me.state == "blocked":
          return me
        return live[0] if live else me
      t = min(dls)
      if t > self.t_limit:
        self.res.stalled = [(r.name, r.site) for r in live if r.deadline is None]
        self._start_abort("stalled")
        if me.state == "blocked":
          return me
        return live[0]
      self.res.time_advances.append((self.now, t, [r.name for r in live if r.deadline == t]))
      self.res.trace.append(("*", "time-advance", "%r -> %r" % (self.now, t), self.now))
      self.now = t

  def _start_abort(self, why):
    if self.aborting:
      return
    self.aborting = why
    if self.on_abort is not None:
      try:
        self.on_abort()
      except Exception:
        pass

  def _thread_exit(self, me):
    me.state = "done"
    me.site = None
    self._progress += 1
    live = [r for r in self._recs if r.state != "done"]
    if not live:
      self._done.set()
      return
    if self.aborting:
      # hand the baton to the next thread to unwind; everything blocked is released by the abort flag
      self.current = live[0]
      live[0].sem.release()
      return
    nxt = self._pick_next(me, "exit", "thread-exit")
    self.current = nxt
    self.res.switches += 1
    nxt.sem.release()


# --------------------------------------------------------------------------- shims

class FakePinger(object):
  """Stands in for pox.lib.util's pipe pinger.  ping() never blocks; pong()/pongAll() on an empty
  pinger block (as a read on the real pipe would) until somebody pings."""
  _n = 0

  def __init__(self, ds):
    self._ds = ds
    self.count = 0
    self.pings = 0
    self.empty_pongs = 0
    FakePinger._n += 1
    self._id = FakePinger._n

  def ping(self):
    self.count += 1
    self.pings += 1

  def _wait(self):
    if self.count == 0:
      self.empty_pongs += 1
      self._ds.block(lambda: self.count > 0, None, "pinger%d.pong(empty)" % self._id)

  def pong(self):
    self._wait()
    self.count -= 1

  def pongAll(self):
    self._wait()
    self.count = 0
  pong_all = pongAll

  def fileno(self):
    return 100000 + self._id

  def v_readable(self):
    return self.count > 0

  def __repr__(self):
    return "<detsched.FakePinger %d n=%d>" % (self._id, self.count)


class _TimeShim(object):
  def __init__(self, ds):
    self._ds = ds

  def time(self):
    return self._ds.now

  def monotonic(self):
    return self._ds.now

  def sleep(self, dt):
    if dt > 0:
      self._ds.block(lambda: False, dt, "time.sleep(%r)" % (dt,))

  def __getattr__(self, n):
    return getattr(_real_time, n)


class _SelectShim(object):
  error = _real_select.error

  def __init__(self, ds):
    self._ds = ds

  def _vpipe(self, o):
    fd = o if isinstance(o, int) else getattr(o, "fileno", lambda: None)()
    return self._ds._pipes.get(fd) if isinstance(fd, int) else None

  def _r(self, o):
    f = getattr(o, "v_readable", None)
    if f is not None:
      return f()
    vp = self._vpipe(o)
    if vp is None:
      raise HarnessError("virtual select: %r is neither a fake file object (v_readable) nor a virtual pipe end" % (o,))
    return vp[1] == "r" and vp[0].readable()

  def _w(self, o):
    f = getattr(o, "v_writable", None)
    if f is not None:
      return f()
    vp = self._vpipe(o)
    if vp is not None:
      return vp[1] == "w" and vp[0].writable()
    return True

  def select(self, rl, wl, xl, timeout=None):
    rl, wl = list(rl), list(wl)

    def ready():
      return any(self._r(o) for o in rl) or any(self._w(o) for o in wl)
    self._ds.block(ready, timeout, "select(%d r, %d w, timeout=%r)" % (len(rl), len(wl), timeout))
    return [o for o in rl if self._r(o)], [o for o in wl if self._w(o)], []

  def __getattr__(self, n):
    return getattr(_real_select, n)


_next_vfd = [1000000]


class _VPipe(object):
  CAPACITY = 65536

  def __init__(self):
    self.buf = bytearray()
    self.r_open = True
    self.w_open = True
    self.written = 0
    self.empty_reads = 0

  def readable(self):
    return bool(self.buf) or not self.w_open

  def writable(self):
    return len(self.buf) < self.CAPACITY or not self.r_open


class _OsShim(object):
  """Stands in for the `os` module attribute of a module: pipes are virtual, the rest is the real os."""
  name = "posix"

  def __init__(self, ds):
    self._ds = ds

  def pipe(self):
    p = _VPipe()
    r, w = _next_vfd[0], _next_vfd[0] + 1
    _next_vfd[0] += 2
    self._ds._pipes[r] = (p, "r")
    self._ds._pipes[w] = (p, "w")
    return r, w

  def _end(self, fd, kind):
    e = self._ds._pipes.get(fd)
    if e is None or e[1] != kind or not (e[0].r_open if kind == "r" else e[0].w_open):
      raise OSError(9, "Bad file descriptor (virtual fd %r)" % (fd,))
    return e[0]

  def read(self, fd, n):
    if fd not in self._ds._pipes and fd < 1000000:
      return _real_os.read(fd, n)
    p = self._end(fd, "r")
    if not p.readable():
      if fd in self._ds._nonblocking_fds:
        raise BlockingIOError(11, "Resource temporarily unavailable (virtual fd %r)" % (fd,))
      p.empty_reads += 1
      self._ds.block(p.readable, None, "os.read(fd=%d) on an empty pipe" % fd)
    d = bytes(p.buf[:n])
    del p.buf[:n]
    return d

  def write(self, fd, data):
    if fd not in self._ds._pipes and fd < 1000000:
      return _real_os.write(fd, data)
    p = self._end(fd, "w")
    if not p.r_open:
      raise BrokenPipeError(32, "Broken pipe (virtual fd %r)" % (fd,))
    if not p.writable():
      if fd in self._ds._nonblocking_fds:
        raise BlockingIOError(11, "Resource temporarily unavailable (virtual fd %r)" % (fd,))
      self._ds.block(p.writable, None, "os.write(fd=%d) on a full pipe" % fd)
    k = min(len(data), p.CAPACITY - len(p.buf)) if p.r_open else len(data)
    p.buf += bytes(data[:k])
    p.written += k
    return k

  def set_blocking(self, fd, flag):
    if fd not in self._ds._pipes:
      return _real_os.set_blocking(fd, flag)
    (self._ds._nonblocking_fds.discard if flag else self._ds._nonblocking_fds.add)(fd)

  def get_blocking(self, fd):
    if fd not in self._ds._pipes:
      return _real_os.get_blocking(fd)
    return fd not in self._ds._nonblocking_fds

  def close(self, fd):
    e = self._ds._pipes.get(fd)
    if e is None:
      if fd >= 1000000:
        raise OSError(9, "Bad file descriptor (virtual fd %r)" % (fd,))
      return _real_os.close(fd)
    if e[1] == "r":
      e[0].r_open = False
    else:
      e[0].w_open = False
    del self._ds._pipes[fd]

  def __getattr__(self, n):
    return getattr(_real_os, n)


class _Lock(object):
  def __init__(self, ds, name="Lock"):
    self._ds = ds
    self._held = False
    self._owner = None
    self._name = name

  def acquire(self, blocking=True, timeout=-1):
    if not self._held:
      self._held = True
      self._owner = self._ds.me_name()
      return True
    if not blocking:
      return False
    ok = self._ds.block(lambda: not self._held, None if timeout is None or timeout < 0 else timeout,
                        "%s.acquire (held by %s)" % (self._name, self._owner))
    if ok:
      self._held = True
      self._owner = self._ds.me_name()
    return ok

  def release(self):
    if not self._held:
      raise RuntimeError("release unlocked lock")
    self._held = False
    self._owner = None

  def locked(self):
    return self._held

  def __enter__(self):
    self.acquire()
    return self

  def __exit__(self, *a):
    self.release()


class _RLock(object):
  def __init__(self, ds):
    self._ds = ds
    self._owner = None
    self._n = 0

  def acquire(self, blocking=True, timeout=-1):
    me = _rt.get_ident()
    if self._owner == me:
      self._n += 1
      return True
    if self._owner is not None:
      if not blocking:
        return False
      ok = self._ds.block(lambda: self._owner is None, None if timeout is None or timeout < 0 else timeout,
                          "RLock.acquire")
      if not ok:
        return False
    self._owner = me
    self._n = 1
    return True

  def release(self):
    if self._owner != _rt.get_ident():
      raise RuntimeError("cannot release un-acquired lock")
    self._n -= 1
    if self._n == 0:
      self._owner = None

  def _is_owned(self):
    return self._owner == _rt.get_ident()

  def __enter__(self):
    self.acquire()
    return self

  def __exit__(self, *a):
    self.release()


class _Event(object):
  def __init__(self, ds):
    self._ds = ds
    self._flag = False

  def is_set(self):
    return self._flag
  isSet = is_set

  def set(self):
    self._flag = True

  def clear(self):
    self._flag = False

  def wait(self, timeout=None):
    return self._ds.block(lambda: self._flag, timeout, "Event.wait(%r)" % (timeout,))


class _Condition(object):
  def __init__(self, ds, lock=None):
    self._ds = ds
    self._lock = lock if lock is not None else _RLock(ds)
    self._waiters = []
    self.acquire = self._lock.acquire
    self.release = self._lock.release

  def __enter__(self):
    self._lock.acquire()
    return self

  def __exit__(self, *a):
    self._lock.release()

  def wait(self, timeout=None):
    tok = [False]
    self._waiters.append(tok)
    # fully release (RLock depth is restored afterwards)
    depth = getattr(self._lock, "_n", 1)
    if isinstance(self._lock, _RLock):
      self._lock._n = 0
      self._lock._owner = None
    else:
      self._lock.release()
    try:
      ok = self._ds.block(lambda: tok[0], timeout, "Condition.wait(%r)" % (timeout,))
    finally:
      if tok in self._waiters:
        self._waiters.remove(tok)
      self._lock.acquire()
      if isinstance(self._lock, _RLock):
        self._lock._n = depth
    return ok

  def wait_for(self, predicate, timeout=None):
    end = None if timeout is None else self._ds.now + timeout
    r = predicate()
    while not r:
      left = None if end is None else end - self._ds.now
      if left is not None and left <= 0:
        break
      self.wait(left)
      r = predicate()
    return r

  def notify(self, n=1):
    for tok in self._waiters[:n]:
      tok[0] = True
    del self._waiters[:n]

  def notify_all(self):
    self.notify(len(self._waiters))
  notifyAll = notify_all


class _Semaphore(object):
  def __init__(self, ds, value=1):
    self._ds = ds
    self._v = value

  def acquire(self, blocking=True, timeout=None):
    if self._v == 0:
      if not blocking:
        return False
      if not self._ds.block(lambda: self._v > 0, timeout, "Semaphore.acquire"):
        return False
    self._v -= 1
    return True

  def release(self, n=1):
    self._v += n

  def __enter__(self):
    self.acquire()
    return self

  def __exit__(self, *a):
    self.release()


def _make_thread_class(ds):
  class ManagedThread(_rt.Thread):
    """threading.Thread whose start() registers with the deterministic scheduler; run() begins only
    when the thread is given the baton."""
    _ds_rec = None

    def _ds_register(self):
      rec = _Rec(len(ds._recs), self.name)
      rec.thread = self
      ds._recs.append(rec)
      self._ds_rec = rec

    def _ds_really_start(self):
      try:
        self.daemon = True
      except RuntimeError:
        pass
      _rt.Thread.start(self)

    def start(self):
      if ds.aborting:
        raise DetSchedAbort(ds.aborting)
      if _rt.get_ident() not in ds._by_ident:
        raise HarnessError("detsched: Thread.start() from an unmanaged thread (create threads inside DetSched.run)")
      self._ds_register()
      self._ds_really_start()

    def run(self):
      rec = self._ds_rec
      ds._by_ident[_rt.get_ident()] = rec
      ds._await_turn(rec)
      rec.state = "run"
      try:
        try:
          _rt.Thread.run(self)
        except DetSchedAbort:
          pass
        except BaseException as e:      # noqa -- recorded, judged by the caller
          rec.exc = e
          if rec.idx != 0:
            ds.res.thread_errors.append((rec.name, e))
      finally:
        try:
          ds._thread_exit(rec)
        except BaseException as e:      # a harness bug must not hang everybody
          ds.res.thread_errors.append((rec.name, HarnessError("detsched internal: %r" % (e,))))
          ds._done.set()

    def join(self, timeout=None):
      rec = self._ds_rec
      if rec is None:
        raise RuntimeError("cannot join thread before it is started")
      if _rt.get_ident() not in ds._by_ident:
        return _rt.Thread.join(self, timeout)
      ds.block(lambda: rec.state == "done", timeout, "join(%s)" % rec.name)

    def is_alive(self):
      rec = self._ds_rec
      if rec is None:
        return False
      if _rt.get_ident() in ds._by_ident:
        return rec.state != "done"
      return _rt.Thread.is_alive(self)
    isAlive = is_alive
  return ManagedThread


class _ThreadingShim(object):
  """Stands in for the `threading` module attribute of the module under test."""
  def __init__(self, ds):
    self._ds = ds
    self.Thread = _make_thread_class(ds)

  def Lock(self):
    return _Lock(self._ds)

  def RLock(self):
    return _RLock(self._ds)

  def Event(self):
    return _Event(self._ds)

  def Condition(self, lock=None):
    return _Condition(self._ds, lock)

  def Semaphore(self, value=1):
    return _Semaphore(self._ds, value)
  BoundedSemaphore = Semaphore

  def __getattr__(self, n):      # current_thread, local, get_ident, active_count, ...
    return getattr(_rt, n)
