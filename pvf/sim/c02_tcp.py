"""Real loopback-TCP plumbing for C02's via="tcp" path: readiness as the kernel reports it.

The two POX receive paths are the real ones end to end -- RecocoIOLoop.run() with a RecocoIOWorker on a real
non-blocking TCP socket (pvf.sim.loops.SwitchLoop drives the generator), and OpenFlow_01_Task.run() with its own
real listening socket and the of_01.Connection it accepts -- and what they are woken for is decided by the real
select.select() on the real file descriptors, called with a zero timeout.  Nothing here depends on the wall clock
for a verdict:

  * a segment is written by the harness end, then the harness waits (FIONREAD polling, bounded retry count) until
    the kernel shows all of it as pending at the receiving socket.  If that never happens the case is
    INCONCLUSIVE (NotExposed), never a violation;
  * from then on select() with timeout 0 is a pure function of kernel state: on a stream socket it reports
    "readable" iff at least SO_RCVLOWAT (default 1) bytes are pending.

Nothing here judges anything; pvf/props/c02.py does.  No thread is started; every socket is closed (with
SO_LINGER 0, so that no TIME_WAIT entries pile up over thousands of cases) by close().
"""
import array
import fcntl
import select as _select
import socket
import struct
import termios
import time as _time      # the real one: only ever used to yield the CPU while the kernel moves bytes

from ..runner import HarnessError
from . import loops as L

PIECE = 16384             # the harness never has more than this in flight: far below any loopback buffer size


class NotExposed(Exception):
  """The kernel did not show the written bytes at the receiving socket within the retry budget (or the loopback
  connection could not be set up at all): nothing was observed, the case is inconclusive."""


def pending(sock):
  """Bytes the kernel holds for this socket right now (FIONREAD); -1 when the socket is closed."""
  try:
    fd = sock.fileno()
  except Exception:
    return -1
  if fd < 0:
    return -1
  buf = array.array("i", [0])
  try:
    fcntl.ioctl(fd, termios.FIONREAD, buf, True)
  except OSError:
    return -1
  return buf[0]


def wait_pending(sock, want, spins=200, naps=400):
  """True once FIONREAD(sock) >= want.  Bounded: `spins` immediate polls, then `naps` polls with short sleeps
  (under a second in total).  The sleeps only give the kernel time; the answer is what FIONREAD says."""
  for _ in range(spins):
    p = pending(sock)
    if p < 0 or p >= want:
      return p >= want
  for i in range(naps):
    _time.sleep(0.0005 * (1 + i // 50))
    p = pending(sock)
    if p < 0 or p >= want:
      return p >= want
  return False


def real_select(rl, wl, xl, fake=()):
  """select.select(..., 0) over the objects with a real descriptor; objects in `fake` (the world's FakePinger)
  are reported readable by their own v_readable().  Objects whose descriptor is gone are left out."""
  def live(objs):
    out = []
    for o in objs or []:
      if any(o is f for f in fake):
        continue
      try:
        if o.fileno() >= 0:
          out.append(o)
      except Exception:
        pass
    return out
  r, w, x = _select.select(live(rl), live(wl), live(xl), 0)
  for f in fake:
    if any(o is f for o in (rl or [])) and f.v_readable():
      r.append(f)
  return r, w, x


def _abort(sock):
  """Close without lingering or TIME_WAIT."""
  if sock is None:
    return
  try:
    if sock.fileno() >= 0:
      sock.setsockopt(socket.SOL_SOCKET, socket.SO_LINGER, struct.pack("ii", 1, 0))
  except Exception:
    pass
  try:
    sock.close()
  except Exception:
    pass


def _listener():
  s = socket.socket(socket.AF_INET, socket.SOCK_STREAM)
  s.bind(("127.0.0.1", 0))
  s.listen(4)
  s.settimeout(5)
  return s


def _tune_writer(s):
  s.setsockopt(socket.IPPROTO_TCP, socket.TCP_NODELAY, 1)
  s.settimeout(5)


class Writer(object):
  """The harness end of a connection: writes one piece at a time and waits for the kernel to expose it."""

  def __init__(self, sock, rx_sock):
    self.sock = sock
    self.rx_sock = rx_sock
    self.arrived = 0            # bytes written AND seen pending/taken at the receiving socket

  def write(self, piece, taken):
    """Write `piece` (<= PIECE bytes) and wait until all of it is pending at the receiver.  `taken` is how much
    of the stream the receiver has read so far."""
    if len(piece) > PIECE:
      raise HarnessError("piece larger than PIECE")
    try:
      self.sock.sendall(piece)
    except (socket.timeout, OSError) as e:
      raise NotExposed("write failed: %r" % (e,))
    want = self.arrived + len(piece) - taken
    if not wait_pending(self.rx_sock, want):
      raise NotExposed("kernel shows %d of %d bytes" % (pending(self.rx_sock), want))
    self.arrived += len(piece)


class SwitchTcp(object):
  """RecocoIOLoop + RecocoIOWorker on the receiving end of a loopback TCP connection.

  connecting=False: the worker's socket is an accepted, established one (OFConnection built at once by `build`).
  connecting=True: as pox.datapaths does -- the worker's socket is a non-blocking one whose connect() has just
  been issued, the worker starts in the connecting state and `build` runs from its connect handler when the
  real select reports the socket writable."""

  def __init__(self, world, build, connecting=False):
    self.sl = L.SwitchLoop(world)
    self.loop = self.sl.loop
    self.lst = self.rx_sock = self.peer = None
    try:
      try:                              # the harness's own socket calls: failure here is "no loopback", not POX
        self.lst = _listener()
        addr = self.lst.getsockname()
        if connecting:
          self.rx_sock = socket.socket(socket.AF_INET, socket.SOCK_STREAM)
          self.rx_sock.setblocking(0)
          self.rx_sock.connect_ex(addr)
          self.peer = self.lst.accept()[0]
        else:
          self.peer = socket.create_connection(addr, timeout=5)
          self.rx_sock = self.lst.accept()[0]
          self.rx_sock.setblocking(0)
        _tune_writer(self.peer)
      except OSError as e:              # includes socket.timeout
        raise NotExposed("loopback TCP connection could not be set up: %r" % (e,))
      self.worker = self.loop.new_worker(self.rx_sock)
      if connecting:
        self.worker._connecting = True
        self.worker.connect_handler = lambda w: build(w)
      else:
        build(self.worker)
      self.sl.step([], [])              # the pending "add worker" command runs at the top of the loop
      self.writer = Writer(self.peer, self.rx_sock)
    except BaseException:
      self.close()
      raise

  @property
  def alive(self):
    return self.sl.alive

  def registered(self):
    return self.worker in self.loop._workers

  def wake(self):
    """One pass of the loop with what the real select reports right now.  Returns the (r, w, x) it was given,
    or None when select reports nothing (the loop would stay blocked)."""
    sel = self.sl.select
    if sel is None:
      return None
    a = sel._args
    r, w, x = real_select(a[0], a[1], a[2], fake=(self.loop.pinger,))
    if not (r or w or x):
      return None
    self.sl.select = self.sl._advance((r, w, x))
    return r, w, x

  def close(self):
    try:
      self.sl.close()
    finally:
      _abort(self.peer)
      _abort(self.rx_sock)
      _abort(self.lst)


class ControllerTcp(L.ControllerLoop):
  """OpenFlow_01_Task.run() with the real socket module: it binds its own listener on 127.0.0.1 (port 0),
  accepts the harness's connection when the real select reports the listener readable and builds the
  of_01.Connection on the accepted socket."""

  def __init__(self, world):
    import pox.openflow.of_01 as of_01
    self.of_01 = of_01
    self.world = world
    self.budget = None
    self._saved = (of_01.socket, of_01.Connection, of_01.log)
    self.log = L.LogTap()
    of_01.log = self.log
    self.task = of_01.OpenFlow_01_Task(port=0, address="127.0.0.1")
    self.gen = self.task.gen
    self.alive = True
    self.ended = None
    self.exceeded = False
    self.steps = 0
    self.listener = self.peer = self.con = None
    self.select = self._advance(None)
    sel = self.selected
    if not self.alive or not sel:
      self.close()
      raise HarnessError("the controller task did not start listening")
    self.listener = sel[0]

  def accept(self):
    """The harness connects; the task accepts on its next wake-up.  Returns the Connection."""
    try:
      self.peer = socket.create_connection(self.listener.getsockname(), timeout=5)
    except OSError as e:
      raise NotExposed("loopback TCP connection could not be set up: %r" % (e,))
    _tune_writer(self.peer)
    before = set(id(c) for c in self.connections())
    for _ in range(2000):
      if self.wake() is not None:
        break
      _time.sleep(0.0005)
    for c in self.connections():
      if id(c) not in before:
        self.con = c
        self.writer = Writer(self.peer, c.sock)
        return c
    return None

  def wake(self):
    sel = self.select
    if sel is None:
      return None
    a = sel._args
    r, w, x = real_select(a[0], a[1], a[2])
    if not (r or w or x):
      return None
    self.select = self._advance((r, w, x))
    return r, w, x

  def close(self):
    try:
      L.ControllerLoop.close(self)
    finally:
      _abort(self.peer)
      if self.con is not None:
        _abort(getattr(self.con, "sock", None))
      _abort(self.listener)
