"""vsched -- a virtual-time driver for ONE real recoco Scheduler (inline select hub).

The C06 harness.  A case (see pvf/props/c06.py for the format) is a set of task
programs, timers, fake fds / sockets and schedule choices.  `run_inline(case)` builds
real `recoco.Task`s whose generators interpret the programs, runs the real
`Scheduler.run()` loop on the calling thread under a virtual clock and a virtual
select (or a virtual epoll below the real `EpollSelect`), and returns the event log
that `pvf.ref.schedmodel` judges.  Nothing in here decides a verdict.

Event log (a list of tuples; the position in the list is the global sequence number):
  ("reg", who, time)                               task / timer handed to the scheduler
  ("step", tid, step, pc, time, value)             a step of generator `tid` starts; value = what the yield returned
  ("req", tid, step, pc, time, op)                 the step ends by yielding `op` (the effective op record)
  ("end", tid, step, time, how)                    the step ends the generator: exit | raise | ret | uncaught
  ("act", tid, step, time, kind, arg, effective)   in-step action: busy | wake | cancel | mktimer | starttimer | rewake
                                                   (rewake = schedule() of an already scheduled task; effective = "<state>:<path>")
  ("tnew", i, time)  ("tstart", i, time)  ("tcancel", i, time)  ("fire", i, k, time, ret)
                                                   tnew = Timer constructed, tstart = Timer.start() (the same instant unless started=False)
  ("sel", t_from, t_to, why)                       one virtual select: ready | advance | quiesce | horizon
  ("cyc", n, [[tid, priority], ...], nleft)        ready queue at the start of Scheduler.cycle number n
  ("exe", n, tid)                                  the task cycle n popped last, i.e. executed (its slice may abort without a step)
  ("srecv", sock, time, hex)  ("ssend", sock, time, marker, offered, accepted)
  ("overlap", running, entering, time)             re-entrancy flag was already set
  ("rf", tid, pc, k, time, "abort"|"exc"|"value")   call number k of the scripted ReturnFunction of op pc of tid
  ("xexc", tid, exc type, where, text)             exception out of task.execute that the program did not ask for
  ("killed", name, in_blocking_op, last line)      parsed from the scheduler's own "caused an exception" report
  ("quit", tid, time)  ("stop", time, why)  ("runexc", type, where, text)  ("final", {...})
"""
import contextlib
import io
import re
import select as _real_select
import sys
import threading
import traceback
from collections import deque

from ..runner import HarnessError, innermost_repo_frame
from .world import VClock, TimeShim

ACTIONS = ("busy", "wake", "cancel", "mktimer", "starttimer")
T0 = 1000.0


class TaskError(Exception):
  """Raised by a program's `raise` op."""


class SubError(Exception):
  """Raised by a sub-task whose `ret` is {"raise": ...}."""


class _FalsySubError(SubError):
  """The same exception in a flavour whose truth value is False (an exception class that defines __len__ / __bool__, like an
  IncompleteRead carrying zero bytes): delivery must not depend on the truth value of the exception object."""
  def __bool__(self):
    return False

  def __len__(self):
    return 0


_FalsySubError.__name__ = "SubError"        # to the model it IS the sub-task's exception


class HBase(BaseException):
  """A harness-private BaseException that is not an Exception (what sys.exit() / an application's own
  BaseException subclass looks like to the scheduler) -- raised by `raise`/sub-task ret/timer rets with "base"."""


class RfError(Exception):
  """The failure a scripted ReturnFunction reports through task.re + EXCEPTION."""


class OpError(Exception):
  """Raised by the execute() of the harness's failing blocking operation (`badop`)."""


class TimerError(Exception):
  """Raised by a timer callback whose scripted return is "raise"."""


PROGRAM_EXC = (TaskError, SubError, HBase, RfError, TimerError, OpError)


class VPinger(object):
  _n = 0

  def __init__(self):
    VPinger._n += 1
    self._id = VPinger._n
    self.count = 0
    self.underflows = 0

  def ping(self):
    self.count += 1

  def pong(self):
    if self.count == 0:
      self.underflows += 1
    else:
      self.count -= 1

  def pongAll(self):
    if self.count == 0:
      self.underflows += 1
    self.count = 0

  pong_all = pongAll

  def fileno(self):
    return 900000 + self._id

  def __repr__(self):
    return "<VPinger %d n=%d>" % (self._id, self.count)


class VFd(object):
  """A pollable fake descriptor: readable from r_at on, writable from w_at on (absolute; None = never).

  hup_at: the instant the other end goes away.  hup_kind "hup" = a hang-up (the read end of a pipe whose writer closed it:
  poll() reports POLLHUP, select() reports the descriptor readable); "err" = an error / reset (POLLERR|POLLHUP: select()
  reports it readable and writable).  The kernel reports POLLHUP / POLLERR whether or not they were asked for."""

  def __init__(self, label, fileno, r_at, w_at, hup_at=None, hup_kind="hup"):
    self.label, self._fileno, self.r_at, self.w_at = label, fileno, r_at, w_at
    self.hup_at, self.hup_kind = hup_at, hup_kind

  def fileno(self):
    return self._fileno

  def hung(self, now):
    return self.hup_at is not None and now >= self.hup_at

  def readable(self, now):
    return (self.r_at is not None and now >= self.r_at) or self.hung(now)

  def writable(self, now):
    return (self.w_at is not None and now >= self.w_at) or (self.hung(now) and self.hup_kind == "err")

  def _next(self, now, ts):
    ts = [t for t in ts if t is not None and t > now]
    return min(ts) if ts else None

  def next_readable(self, now):
    return self._next(now, [self.r_at, self.hup_at])

  def next_writable(self, now):
    return self._next(now, [self.w_at, self.hup_at if self.hup_kind == "err" else None])

  def __repr__(self):
    return "<%s>" % self.label


class VSock(VFd):
  """A scripted stream socket: bytes arrive at given instants; send() follows a script."""

  def __init__(self, rt, idx, label, fileno, arrivals, w_at, sends):
    VFd.__init__(self, label, fileno, None, w_at)
    self._rt, self.idx = rt, idx
    self.arrivals = sorted(arrivals, key=lambda a: a[0])    # [abs time, bytes]
    self.inbox = bytearray()
    self.sends = list(sends)

  def _sync(self, now):
    while self.arrivals and self.arrivals[0][0] <= now:
      self.inbox += self.arrivals.pop(0)[1]

  def readable(self, now):
    self._sync(now)
    return bool(self.inbox)

  def next_readable(self, now):
    self._sync(now)
    if self.inbox:
      return None
    return self.arrivals[0][0] if self.arrivals else None

  def recv(self, n, flags=0):
    now = self._rt.clock.now
    self._sync(now)
    if not self.inbox:
      raise BlockingIOError(11, "Resource temporarily unavailable")
    d = bytes(self.inbox[:n])
    del self.inbox[:n]
    self._rt.emit(("srecv", self.idx, now, d.hex()))
    return d

  def send(self, data, flags=0):
    now = self._rt.clock.now
    outcome = self.sends.pop(0) if self.sends else "all"
    marker = data[0] if data else None
    if not data:
      # an empty buffer offered again and again within ONE request (no step of the sending generator in between) is a spin:
      # cut the run short instead of burning the whole cycle budget
      rt = self._rt
      who = rt.tid_of(rt.sched._ready.last) if getattr(rt.sched._ready, "last", None) is not None else "?"
      rt.spin[who] = rt.spin.get(who, 0) + 1
      if rt.spin[who] > 12 and rt.stopped is None:
        rt._stop("empty-send-spin")
    if outcome == "eagain":
      self._rt.emit(("ssend", self.idx, now, marker, len(data), "eagain"))
      raise BlockingIOError(11, "Resource temporarily unavailable")
    k = len(data) if outcome == "all" else min(int(outcome), len(data))
    self._rt.emit(("ssend", self.idx, now, marker, len(data), k))
    return k


class _CountingDeque(deque):
  nleft = 0
  last = None          # what the latest popleft() returned: the task Scheduler.cycle goes on to execute

  def popleft(self):
    x = deque.popleft(self)
    self.last = x
    return x

  def appendleft(self, x):
    self.nleft += 1
    deque.appendleft(self, x)


class _FakeEpoll(object):
  """What select.epoll() returns while a case runs in hub mode "epoll"."""

  def __init__(self, rt):
    self._rt = rt
    self.reg = {}

  def register(self, fd, mask):
    if fd in self.reg:
      raise FileExistsError(17, "File exists")
    self.reg[fd] = mask

  def modify(self, fd, mask):
    if fd not in self.reg:
      raise FileNotFoundError(2, "No such file or directory")
    self.reg[fd] = mask

  def unregister(self, fd):
    if fd not in self.reg:
      raise FileNotFoundError(2, "No such file or directory")
    del self.reg[fd]

  def poll(self, timeout=None):
    rt = self._rt
    S = _real_select
    robjs, wobjs = [], []
    for fd, mask in self.reg.items():
      o = rt.by_fileno.get(fd)
      if o is None:
        raise HarnessError("epoll: unknown fd %r registered" % (fd,))
      if mask & (S.EPOLLIN | S.EPOLLPRI):
        robjs.append(o)
      if mask & S.EPOLLOUT:
        wobjs.append(o)
    if timeout is not None and timeout < 0:
      timeout = None
    ro, wo = rt.wait(robjs, wobjs, timeout)
    now = rt.clock.now
    ev = {}
    for o in ro:
      hung = getattr(o, "hung", None)
      if hung is not None and hung(now) and o.hup_kind == "hup" and not (o.r_at is not None and now >= o.r_at):
        continue                            # a bare hang-up: no data, so no EPOLLIN (EPOLLHUP is added below)
      ev[o.fileno()] = ev.get(o.fileno(), 0) | S.EPOLLIN
    for o in wo:
      ev[o.fileno()] = ev.get(o.fileno(), 0) | S.EPOLLOUT
    # what epoll reports without being asked: EPOLLHUP / EPOLLERR of a registered descriptor whose other end went away
    # (model limit: a bare hang-up is only reported to a registration that includes reading)
    for o in set(robjs) | set(wobjs):
      hung = getattr(o, "hung", None)
      if hung is None or not hung(now):
        continue
      if o.hup_kind == "err":
        ev[o.fileno()] = ev.get(o.fileno(), 0) | S.EPOLLERR | S.EPOLLHUP
      elif o in robjs:
        ev[o.fileno()] = ev.get(o.fileno(), 0) | S.EPOLLHUP
    return list(ev.items())

  def close(self):
    pass


class _SelectShim(object):
  """Stands in for the `select` module attribute of pox.lib.epoll_select."""

  def __init__(self, rt):
    self._rt = rt

  def epoll(self, *a, **kw):
    e = _FakeEpoll(self._rt)
    self._rt.epolls.append(e)
    return e

  def __getattr__(self, n):
    return getattr(_real_select, n)


_KILL_RE = re.compile(r"^Task (.*) caused an exception( during a blocking operation)?")


def _kill_name(s):
  m = re.match(r"^(?:<AgainTask )?(\S+)\(\) from", s)
  if m:
    return m.group(1)
  m = re.match(r"^<\w+ (\S+) tid:", s)
  if m:
    return m.group(1)
  return s[:60]


class Run(object):
  """One execution of one case against the real scheduler."""

  def __init__(self, case):
    self.case = case
    self.log = []
    self.clock = VClock(T0)
    self.H = T0 + float(case.get("horizon", 16))
    self.current = None          # re-entrancy flag: tid whose step is in progress
    self.cur_req = {}            # tid -> effective op of the outstanding request
    self.cur_pc = {}             # tid -> index of that op in the generator's program
    self.spin = {}               # tid -> empty buffers offered to a socket since the generator's latest step
    self.woken = {}
    self.due = {}                # tid -> absolute due of an outstanding timed request
    self.tdue = {}               # timer -> latest admissible next due
    self.unstarted = {}          # timer constructed with started=False -> construction time
    self.holder = {}
    self.tasks = []
    self.timers = {}
    self.tcancelled = set()
    self.fires = {}
    self.keep = []
    self.again_tid = {}
    self.timer_tid = {}
    self.fault = None
    self.stopped = None
    self.ncyc = self.nsel = self.nrand = 0
    self.epolls = []
    self.by_fileno = {}
    nops = 0
    for t in case.get("tasks", []):
      nops += _count_ops(t.get("prog", []))
    fires = 0
    for tm in case.get("timers", []):
      fires += 2 + int(float(case.get("horizon", 16)) / max(0.125, float(tm.get("t", 1)))) if tm.get("recurring") else 2
    self.budget = 400 + 60 * (nops + fires + len(case.get("tasks", []))) + 8 * int(case.get("horizon", 16))

  # ------------------------------------------------------------------ values
  def norm(self, v):
    if v is None or isinstance(v, (bool, int, float, str)):
      return v
    if isinstance(v, (bytes, bytearray)):
      return {"b": bytes(v).hex()}
    if isinstance(v, tuple) and len(v) == 3 and all(isinstance(x, list) for x in v):
      return {"sel": [[getattr(o, "label", "?") for o in x] for x in v]}
    if isinstance(v, (list, tuple)):
      return [self.norm(x) for x in v]
    if isinstance(v, BaseException):
      return {"exc": [type(v).__name__, str(v)]}
    return {"other": type(v).__name__}

  # ------------------------------------------------------------------ flag
  def _enter(self, tid):
    if self.current is not None:
      self.emit(("overlap", self.current, tid, self.clock.now))
    self.current = tid

  def _leave(self, tid):
    self.current = None

  ds = None

  def _begin(self, tid, step, pc, recv):
    self._enter(tid)
    if self.ds is not None and threading.current_thread() is not self.sched._thread:
      self.emit(("overlap", "thread:%s" % threading.current_thread().name, tid, self.clock.now))
    prev = self.cur_req.pop(tid, None)
    self.due.pop(tid, None)
    self.cur_pc.pop(tid, None)
    self.spin.pop(tid, None)
    if prev is not None and prev["op"] == "acquire" and recv is True:
      self.holder[prev["lock"]] = _root(tid)       # a lock taken in a sub-task belongs to the task that called it
    self.emit(("step", tid, step, pc, self.clock.now, recv))

  def _end(self, tid, step, how):
    self.emit(("end", tid, step, self.clock.now, how))

  # ------------------------------------------------------------------ the interpreter
  def body(self, tid, prog, sub=None):
    """Generator interpreting `prog`.  `sub` is the sub-task record for a sub-task."""
    recv = None
    step = 0
    pc = 0
    n = len(prog)
    thrown = None
    while True:
      self._begin(tid, step, pc, recv)
      final = False
      op = None
      if thrown is not None:
        # the program does not catch what its sub-task call raised: it leaves the generator as it came
        self._end(tid, step, "uncaught")
        self._leave(tid)
        raise thrown
      try:
        while pc < n and prog[pc]["op"] in ACTIONS:
          self._action(tid, step, prog[pc])
          pc += 1
        if pc >= n:
          ret = "end" if sub is None else sub.get("ret", "end")
          if ret == "end":
            self._end(tid, step, "exit")
            return
          if "raise" in ret:
            self._end(tid, step, "raise")
            raise (HBase if ret.get("base") else _FalsySubError if ret.get("falsy") else SubError)("sub:" + tid)
          yv = ["ret", tid] if ret.get("v") == "token" else ret.get("v")
          self._end(tid, step, "ret")
          final = True
        else:
          op = prog[pc]
          if op["op"] == "raise":
            self._end(tid, step, "raise")
            raise (HBase if op.get("base") else TaskError)(tid)
          if op["op"] == "exit":
            self._end(tid, step, "exit")
            return
          yv = self._request(tid, step, pc, op)
      except PROGRAM_EXC:
        raise
      except BaseException:
        if self.fault is None:
          self.fault = traceback.format_exc()
        raise
      finally:
        self._leave(tid)
      if final:
        yield yv
        self.emit(("step", tid, step + 1, pc, self.clock.now, {"other": "resumed-after-return"}))
        return
      try:
        got = yield yv
        recv = self.norm(got)
      except GeneratorExit:
        raise
      except BaseException as e:
        recv = self.norm(e)
        if op.get("catch", True) is False:
          thrown = e
      pc += 1
      step += 1

  def _plain_sub(self, tid, sub):
    def f():
      self._begin(tid, 0, 0, None)
      try:
        ret = sub.get("ret", "end")
        if ret == "end":
          self._end(tid, 0, "ret")
          return None
        if "raise" in ret:
          self._end(tid, 0, "raise")
          raise (HBase if ret.get("base") else _FalsySubError if ret.get("falsy") else SubError)("sub:" + tid)
        self._end(tid, 0, "ret")
        return ["ret", tid] if ret.get("v") == "token" else ret.get("v")
      finally:
        self._leave(tid)
    f.__name__ = tid
    return f

  def _fd(self, i):
    fds = self.fds
    return fds[i % len(fds)]

  def _sock(self, i):
    return self.socks[i % len(self.socks)]

  def _request(self, tid, step, pc, op):
    R = self.R
    now = self.clock.now
    k = op["op"]
    eff = dict(op)
    due = None
    if k == "y0":
      yv = 0.0 if op.get("f") else 0
    elif k == "yn":
      n = op["n"]
      yv = int(n) if (op.get("int") and float(n) == int(n)) else float(n)
      due = now + n
    elif k == "sleep":
      if op.get("abs"):
        yv = R.Sleep(now + op["n"], absoluteTime=True)
      else:
        yv = R.Sleep(op["n"])
      due = now + op["n"]
    elif k == "select":
      r = [self._fd(i) for i in op.get("r", [])] if self.fds else []
      w = [self._fd(i) for i in op.get("w", [])] if self.fds else []
      eff["r"] = [o.label for o in r]
      eff["w"] = [o.label for o in w]
      style = op.get("style", 0)
      if style == 1:
        a = [r or None, w or None, None]
      elif style == 2:
        a = [tuple(r), tuple(w), ()]
      else:
        a = [r, w, []]
      t = op.get("t")
      if t is None:
        yv = R.Select(*a)
      elif op.get("kw"):
        yv = R.Select(*a, timeout=t)
      else:
        yv = R.Select(a[0], a[1], a[2], t)
      if t is not None:
        due = now + t
    elif k == "recv" and self.socks:
      s = self._sock(op.get("sock", 0))
      eff["sock"] = s.idx
      kw = {}
      if op.get("t") is not None:
        kw["timeout"] = op["t"]
        due = now + op["t"]
      if op.get("buf"):
        kw["bufsize"] = op["buf"]
      yv = R.Recv(s, **kw)
    elif k == "send" and self.socks and self.nmark < 250:
      s = self._sock(op.get("sock", 0))
      eff["sock"] = s.idx
      self.nmark += 1
      marker = self.nmark & 0xff
      eff["marker"] = marker
      kw = {}
      if op.get("t") is not None:
        kw["timeout"] = op["t"]
      if op.get("bs"):
        kw["block_size"] = op["bs"]
      yv = R.Send(s, bytes([marker]) * int(op.get("len", 1)), **kw)
    elif k == "block":
      yv = R.Sleep() if op.get("how") == "sleepnone" else False
      self.woken[tid] = False
    elif k == "call":
      sub = op["sub"]
      stid = "%s/%d" % (tid, pc)
      if sub.get("kind") == "plain":
        fn = R.task_function(self._plain_sub(stid, sub))
      else:
        def genfunc(stid=stid, sub=sub):
          return self.body(stid, sub.get("prog", []), sub)
        if sub.get("direct"):
          g = genfunc()
          g.__name__ = stid
          fn = lambda: R.Again(g)
        else:
          def wrapped():
            g = genfunc()
            try:
              g.__name__ = stid
            except Exception:
              pass
            return g
          # task_function() only treats real generator functions as such
          def gf():
            r = yield from wrapped()
            return r
          gf.__name__ = stid
          fn = R.task_function(gf)
      yv = fn()
      self.keep.append(yv)
      self.again_tid[id(yv)] = stid
    elif k == "acquire":
      l = op.get("lock", 0) % len(self.locks)
      eff["lock"] = l
      yv = self.locks[l].acquire(bool(op.get("blocking", True)))
    elif k == "release":
      l = op.get("lock", 0) % len(self.locks)
      me = _root(tid)
      if self.holder.get(l) != me:
        # release whichever lock this task holds (locks are only released by their holder: the task, or a sub-task on its behalf)
        mine = [x for x in sorted(self.holder) if self.holder[x] == me]
        if mine:
          l = mine[0]
      if self.holder.get(l) == me:
        eff["lock"] = l
        self.holder[l] = None
        yv = self.locks[l].release()
      elif "/" in tid:
        # nothing to release; in a sub-task a bare value would be its return value, so wait for no time instead
        eff = {"op": "sleep", "n": 0, "was": "release"}
        yv = R.Sleep(0)
        due = now
      else:
        eff = {"op": "y0", "was": "release"}
        yv = 0
    elif k == "badop":
      # a blocking operation whose execute() raises: the scheduler reports and de-schedules the task.
      # how="release-unheld": recoco's own Lock.release() on a lock nobody holds (RuntimeError in _do_release)
      l = op.get("lock", 0) % len(self.locks)
      if op.get("how") == "release-unheld" and not self.locks[l]._locked:
        eff = {"op": "badop", "how": "release-unheld", "lock": l}
        yv = self.locks[l].release()
      else:
        eff = {"op": "badop", "how": "raise"}

        class Failing(R.BlockingOperation):
          def execute(op_self, task, scheduler):
            raise OpError("badop:%s/%d" % (tid, pc))
        yv = Failing()
    elif k == "imm":
      # a blocking operation that completes at once.  how="reclaim": execute() sets task.rv and returns True ("reclaim running
      # state", what recoco's own Lock operations do); how="requeue": execute() sets task.rv and re-queues the task (DummyOp)
      how = "requeue" if op.get("how") == "requeue" else "reclaim"
      v = op.get("v", "token")
      val = ["imm", tid, pc] if v == "token" else v
      eff = {"op": "imm", "how": how, "v": v}

      class Immediate(R.BlockingOperation):
        def execute(op_self, task, scheduler):
          task.rv = val
          if how == "requeue":
            scheduler.fast_schedule(task)
            return None
          return True
      yv = Immediate()
    elif k == "rfop":
      script = []
      for o in list(op.get("script") or [{"v": "token"}]):
        script.append(o)
        if o not in ("abort", "chain"):
          break                                   # the first entry that is not abort/chain completes the operation
      eff["script"] = script
      delay = op.get("delay") or 0
      yv = self._scripted_op(tid, pc, script, delay)
      if delay:
        due = now + delay
    elif k == "quit":
      yv = R.Exit()
      self.emit(("quit", tid, now))
      self.stopped = "quit-op"
    elif "/" in tid:
      eff = {"op": "sleep", "n": 0, "was": k}
      yv = R.Sleep(0)
      due = now
    else:
      # recv/send without sockets, or an unknown op: plain reschedule
      eff = {"op": "y0", "was": k}
      yv = 0
    self.cur_req[tid] = eff
    self.cur_pc[tid] = pc
    if due is not None:
      self.due[tid] = due
    self.emit(("req", tid, step, pc, now, eff))
    return yv

  def _scripted_op(self, tid, pc, script, delay):
    """A BlockingOperation of the harness that uses recoco's documented ReturnFunction protocol: execute() sets task.rf and
    arranges the next slice (at once, or through the hub after `delay`); the return function follows `script`:
    "abort" -> re-arrange a slice and return ABORT, "exc" -> task.re = RfError(...), return EXCEPTION, {"v": x} -> return x."""
    R = self.R
    rt = self

    class Scripted(R.BlockingOperation):
      def __init__(op_self):
        op_self.k = 0
        op_self.phase = 0          # which return function is the installed one ("chain" installs the next)

      def _slice(op_self, task):
        if delay:
          rt.due[tid] = rt.clock.now + delay
          op_self.sched._selectHub.registerTimer(task, delay)
        else:
          op_self.sched.fast_schedule(task)

      def execute(op_self, task, scheduler):
        op_self.sched = scheduler
        task.rf = op_self._make_rf(0)
        op_self._slice(task)

      def _make_rf(op_self, phase):
        def rf(task):
          return op_self._rf(task, phase)
        return rf

      def _rf(op_self, task, phase):
        k = op_self.k
        op_self.k = k + 1
        if phase != op_self.phase:
          # a return function that had been replaced (by "chain") was called again
          rt.emit(("rf", tid, pc, k, rt.clock.now, "stale-phase"))     # (the script goes on, so the run still ends)
        o = script[k] if k < len(script) else {"v": None}
        last = k >= len(script) - 1
        if o in ("abort", "chain") and not last:
          rt.emit(("rf", tid, pc, k, rt.clock.now, o))
          if o == "chain":
            # the documented way to chain phases: install a different ReturnFunction, then ABORT
            op_self.phase += 1
            task.rf = op_self._make_rf(op_self.phase)
          op_self._slice(task)
          return R.ABORT
        if o == "exc":
          rt.emit(("rf", tid, pc, k, rt.clock.now, "exc"))
          task.re = RfError("rf:%s/%d" % (tid, pc))
          return R.EXCEPTION
        rt.emit(("rf", tid, pc, k, rt.clock.now, "value"))
        v = o.get("v") if isinstance(o, dict) else None
        return ["rf", tid, pc] if v == "token" else v
    return Scripted()

  def _action(self, tid, step, op):
    k = op["op"]
    now = self.clock.now
    if k == "busy":
      self._busy_to(now + op["d"])
      self.emit(("act", tid, step, now, "busy", op["d"], True))
    elif k == "wake":
      tt = self.tasks[op.get("task", 0) % len(self.tasks)]
      ttid = tt.tid
      cur = self.cur_req.get(ttid)
      ok = (ttid != tid and cur is not None and cur["op"] == "block" and not self.woken.get(ttid))
      # schedule() of a task that is ALREADY scheduled (it sits in the ready queue because it yielded 0, or because it was
      # woken and has not run yet): documented as harmless -- "this method will not schedule a task to run multiple times".
      # The same-thread path checks at once.  The other path checks when its ScheduleTask runs, i.e. after one more step of
      # the target: only used when that step is known to end in another `yield 0` (the target is then in the queue again).
      state = None
      if not ok and ttid != tid and cur is not None:
        if cur["op"] == "y0":
          state = "yielded-0"
        elif cur["op"] == "block" and self.woken.get(ttid):
          state = "woken-not-yet-run"
      if state is not None:
        direct = self.R.threading.current_thread() is self.sched._thread
        if direct or self._next_yield_is_y0(ttid):
          self.emit(("act", tid, step, now, "rewake", ttid, state + (":direct" if direct else ":deferred")))
          self.sched.schedule(tt)
          return
      self.emit(("act", tid, step, now, "wake", ttid, bool(ok)))
      if ok:
        self.woken[ttid] = True
        self.sched.schedule(tt)
    elif k == "cancel":
      nt = len(self.case.get("timers", []))
      i = op.get("timer", 0) % nt if nt else None
      ok = i is not None and i in self.timers and i not in self.tcancelled
      self.emit(("act", tid, step, now, "cancel", i, bool(ok)))
      if ok:
        self._cancel(i)
    elif k == "mktimer":
      nt = len(self.case.get("timers", []))
      i = op.get("timer", 0) % nt if nt else None
      ok = i is not None and i not in self.timers and self.case["timers"][i].get("create") == "task"
      self.emit(("act", tid, step, now, "mktimer", i, bool(ok)))
      if ok:
        self._mk_timer(i)
    elif k == "starttimer":
      nt = len(self.case.get("timers", []))
      i = op.get("timer", 0) % nt if nt else None
      ok = i is not None and i in self.unstarted
      self.emit(("act", tid, step, now, "starttimer", i, bool(ok)))
      if ok:
        self._start_timer(i)

  def _next_yield_is_y0(self, ttid):
    """Does the step after the outstanding request of top-level task `ttid` end in a plain `yield 0`?"""
    prog = self.case["tasks"][int(ttid[1:])].get("prog", [])
    pc = self.cur_pc.get(ttid)
    if pc is None:
      return False
    pc += 1
    while pc < len(prog) and prog[pc]["op"] in ACTIONS:
      if prog[pc]["op"] == "busy":
        return False           # (in the threaded mode a busy step lets other threads run: keep the claim simple)
      pc += 1
    return pc < len(prog) and prog[pc]["op"] == "y0"

  # ------------------------------------------------------------------ timers
  def _cancel(self, i):
    self.tcancelled.add(i)
    self.tdue.pop(i, None)
    self.emit(("tcancel", i, self.clock.now))
    self.timers[i].cancel()

  def _mk_timer(self, i):
    R = self.R
    spec = self.case["timers"][i]
    now = self.clock.now
    t = spec["t"]
    self.fires[i] = 0
    started = bool(spec.get("started", True))
    self.emit(("tnew", i, now))
    if started:
      self.emit(("tstart", i, now))
      self.tdue[i] = now + t
    else:
      self.unstarted[i] = now
    kw = {}
    if spec.get("explicit_sched", True):
      kw["scheduler"] = self.sched
    if not started:
      kw["started"] = False
    tm = R.Timer(now + t if spec.get("abs") else t, self._fire, absoluteTime=bool(spec.get("abs")),
                 recurring=bool(spec.get("recurring")), args=(i,),
                 selfStoppable=bool(spec.get("self_stop", True)), **kw)
    self.timers[i] = tm
    self.timer_tid[id(tm)] = "T%d" % i
    tm.name = "T%d" % i            # only used when the scheduler reports that the task died

  def _start_timer(self, i):
    """Timer(started=False).start() at a later instant: a relative delay counts from now."""
    spec = self.case["timers"][i]
    now = self.clock.now
    ctime = self.unstarted.pop(i)
    self.emit(("tstart", i, now))
    if i not in self.tcancelled:
      self.tdue[i] = max(now, ctime + spec["t"]) if spec.get("abs") else now + spec["t"]
    if spec.get("explicit_sched", True):
      self.timers[i].start(self.sched)
    else:
      self.timers[i].start()

  def _fire(self, i):
    spec = self.case["timers"][i]
    k = self.fires[i]
    self.fires[i] = k + 1
    self._enter("T%d" % i)
    try:
      rets = spec.get("rets", [])
      ret = rets[k] if k < len(rets) else None
      now = self.clock.now
      self.emit(("fire", i, k, now, ret))
      cont = bool(spec.get("recurring")) and i not in self.tcancelled
      if ret is False and spec.get("self_stop", True):
        cont = False
      if spec.get("busy"):
        self._busy_to(now + spec["busy"])
      if ret == "cancel":
        if i not in self.tcancelled:
          self._cancel(i)
        cont = False
        ret = None
      if ret in ("raise", "raise-base"):
        # the callback dies: the Timer task is de-scheduled like any task that raises
        self.tdue.pop(i, None)
        raise (HBase if ret == "raise-base" else TimerError)("timer:%d" % i)
      if cont:
        self.tdue[i] = now + spec["t"]
      else:
        self.tdue.pop(i, None)
      return ret
    finally:
      self._leave("T%d" % i)

  # ------------------------------------------------------------------ virtual select
  def tid_of(self, t):
    tid = getattr(t, "tid", None)
    if tid is not None:
      return tid
    p = getattr(t, "parent", None)
    if p is not None and id(p) in self.again_tid:
      return self.again_tid[id(p)]
    if id(t) in self.timer_tid:
      return self.timer_tid[id(t)]
    return type(t).__name__

  def _stop(self, why):
    if self.stopped is None:
      self.stopped = why
    self.emit(("stop", self.clock.now, why))
    self.sched.quit()

  def _hub_pending(self):
    hub = self.hub
    try:
      if not hub._incoming.empty():
        return True
      for stuff in hub._tasks.values():
        if stuff[4] is not None:
          return True
    except (AttributeError, IndexError, TypeError) as e:
      raise HarnessError("select hub internals are not what the harness expects: %r" % (e,))
    return False

  def wait(self, robjs, wobjs, timeout):
    clock = self.clock
    now = clock.now
    self.nsel += 1
    if self.nsel > self.budget:
      self._stop("select-budget")
      return [], []
    ro = [o for o in robjs if self._r(o, now)]
    wo = [o for o in wobjs if self._w(o, now)]
    if ro or wo:
      self.emit(("sel", now, now, "ready"))
      return ro, wo
    nxt = None
    if timeout is not None and timeout >= 0:
      nxt = now + timeout
    io = None
    for o in robjs:
      f = getattr(o, "next_readable", None)
      t = f(now) if f else None
      if t is not None and (io is None or t < io):
        io = t
    for o in wobjs:
      f = getattr(o, "next_writable", None)
      t = f(now) if f else None
      if t is not None and (io is None or t < io):
        io = t
    if io is not None and (nxt is None or io < nxt):
      nxt = io
    model_due = any(d > now for d in self.due.values()) or any(d > now for d in self.tdue.values())
    if nxt is None or not (io is not None or model_due or self._hub_pending()):
      self.emit(("sel", now, now, "quiesce"))
      self._stop("quiesce")
      return [], []
    if nxt > self.H:
      self.emit(("sel", now, now, "horizon"))
      self._stop("horizon")
      return [], []
    self.emit(("sel", now, nxt, "advance"))
    clock.now = nxt
    ro = [o for o in robjs if self._r(o, nxt)]
    wo = [o for o in wobjs if self._w(o, nxt)]
    return ro, wo

  @staticmethod
  def _r(o, now):
    if isinstance(o, VPinger):
      return o.count > 0
    f = getattr(o, "v_readable", None)     # detsched's pinger
    if f is not None:
      return bool(f())
    f = getattr(o, "readable", None)
    return bool(f(now)) if f else False

  @staticmethod
  def _w(o, now):
    f = getattr(o, "writable", None)
    return bool(f(now)) if f else False

  def vselect(self, rl, wl, xl, timeout):
    ro, wo = self.wait(list(rl), list(wl), timeout)
    return ro, wo, []

  def rand(self):
    self.nrand += 1
    if self.nrand > 50 * self.budget:
      raise HarnessError("priority loop does not terminate")
    seq = self._rand
    v = seq[(self.nrand - 1) % len(seq)]
    return v

  # ------------------------------------------------------------------ build & run
  # ---- pieces shared by the hub modes
  def _setup(self, sched):
    """Instrument a fresh scheduler: ready-queue counter, _random hook, fake descriptors, select function,
    cycle wrapper, task objects."""
    R = self.R
    case = self.case
    self.sched = sched
    self.hub = hub = sched._selectHub
    if not isinstance(sched._ready, deque):
      raise HarnessError("Scheduler._ready is not a deque")
    sched._ready = _CountingDeque(sched._ready)
    self._rand = [float(x) for x in case.get("rand", [])] + [0.0]
    sched._random = self.rand
    self.fds = []
    for i, f in enumerate(case.get("fds", [])):
      r_at = None if f.get("r_at") is None else T0 + f["r_at"]
      w_at = None if f.get("w_at") is None else T0 + f["w_at"]
      hup_at = None if f.get("hup_at") is None else T0 + f["hup_at"]
      self.fds.append(VFd("f%d" % i, 700000 + i, r_at, w_at, hup_at, "err" if f.get("hup_kind") == "err" else "hup"))
    self.socks = []
    for i, s in enumerate(case.get("socks", [])):
      arr = [[T0 + a[0], bytes([0x41 + ((i * 16 + j) % 26)]) * int(a[1])] for j, a in enumerate(s.get("arrivals", []))]
      w_at = T0 + s.get("w_at", 0) if s.get("w_at", 0) is not None else None
      self.socks.append(VSock(self, i, "s%d" % i, 800000 + i, arr, w_at, s.get("sends", [])))
    self.nmark = 0
    for o in self.fds + self.socks + [hub._pinger]:
      self.by_fileno[o.fileno()] = o
    if case.get("hub") == "epoll":
      import pox.lib.epoll_select as E
      self._epoll_mod = E
      self._saved_sel = E.select
      E.select = _SelectShim(self)
      hub._select_func = E.EpollSelect().select
    else:
      hub._select_func = self.vselect
    self.locks = [R.Lock() for _ in range(max(1, int(case.get("locks", 1))))]
    orig_cycle = sched.cycle

    def cycle():
      self.ncyc += 1
      if self.ncyc > self.budget:
        self._stop("cycle-budget")
        return False
      if self.clock.now > self.H:
        # the ready queue never drained before the horizon (continuous work): stop without judging liveness
        self._stop("horizon-busy")
        return False
      rq = sched._ready
      self.emit(("cyc", self.ncyc, [[self.tid_of(t), getattr(t, "priority", 1)] for t in list(rq)], rq.nleft))
      rq.last = None
      try:
        return orig_cycle()
      finally:
        if rq.last is not None:
          self.emit(("exe", self.ncyc, self.tid_of(rq.last)))
    sched.cycle = cycle
    rt = self

    class _Mixin(object):
      def __hash__(self):
        return self._idx

      def execute(self):
        try:
          return R.Task.execute(self)
        except StopIteration:
          raise
        except BaseException as e:
          if type(e).__name__ == "DetSchedAbort":
            raise
          fr = innermost_repo_frame(e)
          rt.emit(("xexc", self.tid, type(e).__name__, ("%s:%s" % fr) if fr else "?", str(e)[:200]))
          raise

    class VTaskSub(_Mixin, R.Task):
      def __init__(self, idx, tid, prog):
        self._idx, self.tid, self._prog = idx, tid, prog
        R.Task.__init__(self, name=tid)

      def run(self):
        return rt.body(self.tid, self._prog)

    class VTaskTarget(_Mixin, R.Task):
      def __init__(self, idx, tid, prog):
        self._idx, self.tid, self._prog = idx, tid, prog
        R.Task.__init__(self, target=lambda: rt.body(tid, prog), name=tid)

    for i, t in enumerate(case.get("tasks", [])):
      cls = VTaskTarget if t.get("form") == "target" else VTaskSub
      self.tasks.append(cls(i, "t%d" % i, t.get("prog", [])))

  def _register_all(self):
    """Hand tasks and init-time timers to the scheduler in the order the case dictates."""
    case = self.case
    order = case.get("order")
    if not order:
      order = [["task", i] for i in range(len(self.tasks))] + [["timer", i] for i in range(len(case.get("timers", [])))]
    seen = set()
    for kind, i in order:
      if kind != "advance":
        if (kind, i) in seen:
          continue
        seen.add((kind, i))
      if kind == "task" and i < len(self.tasks):
        t = self.tasks[i]
        spec = case["tasks"][i]
        self.emit(("reg", t.tid, self.clock.now))
        t.start(scheduler=self.sched, priority=spec.get("prio"), fast=bool(spec.get("fast")))
      elif kind == "timer" and i < len(case.get("timers", [])):
        if case["timers"][i].get("create", "init") == "init":
          self._mk_timer(i)
      elif kind == "start" and i in self.unstarted:
        self._start_timer(i)
      elif kind == "advance":
        # virtual time passes during start-up (i is the duration)
        self._busy_to(self.clock.now + float(i))

  def emit(self, ev):
    self.log.append(ev)

  def _busy_to(self, t):
    self.clock.now = t

  def _note_runexc(self, e, who=None):
    fr = innermost_repo_frame(e)
    self.emit(("runexc", type(e).__name__, ("%s:%s" % fr) if fr else "?",
               ("thread %s: " % who if who else "") + "".join(traceback.format_exception(e))[-1200:]))

  def _run(self, buf):
    """Inline hub: the scheduler loop runs on the calling thread."""
    R = self.R
    VPinger._n = 0
    self.U.makePinger = VPinger
    R.time = TimeShim(self.clock)
    sched = R.Scheduler(isDefaultScheduler=True, startInThread=False, threaded_selecthub=False)
    self._setup(sched)
    if self.case.get("sched_thread"):
      sched._thread = threading.current_thread()
    with contextlib.redirect_stdout(buf), contextlib.redirect_stderr(buf):
      self._register_all()
      try:
        sched.run()
      except HarnessError:
        raise
      except BaseException as e:
        self._note_runexc(e)
    return {"underflows": self.hub._pinger.underflows}

  def go(self):
    import pox.lib.util as U
    import pox.lib.recoco.recoco as R
    self.R, self.U = R, U
    saved = (U.makePinger, getattr(U, "make_pinger", None), R.time, R.defaultScheduler)
    import logging
    logging.disable(logging.CRITICAL)
    R.defaultScheduler = None
    R.nextTaskID = 0
    self._saved_sel = None
    buf = io.StringIO()
    try:
      extra = self._run(buf)
      self._parse_output(buf.getvalue())
      fin = {"time": self.clock.now, "stopped": self.stopped,
             "ready": [self.tid_of(t) for t in list(self.sched._ready)],
             "cycles": self.ncyc, "selects": self.nsel}
      fin.update(extra or {})
      self.log.append(("final", fin))
    finally:
      U.makePinger = saved[0]
      if saved[1] is not None:
        U.make_pinger = saved[1]
      R.time = saved[2]
      R.defaultScheduler = None
      if self._saved_sel is not None:
        self._epoll_mod.select = self._saved_sel
      try:
        self.sched._hasQuit = True
      except AttributeError:
        pass
    if self.fault is not None:
      raise HarnessError("harness fault inside a task generator:\n" + self.fault)
    return self.log

  def _parse_output(self, text):
    lines = text.splitlines()
    i = 0
    n = len(lines)
    while i < n:
      m = _KILL_RE.match(lines[i])
      if not m:
        i += 1
        continue
      j = i + 1
      last = ""
      while j < n and not _KILL_RE.match(lines[j]):
        if lines[j].strip() and not lines[j].startswith(" "):
          last = lines[j].strip()
        j += 1
      self.emit(("killed", _kill_name(m.group(1)), bool(m.group(2)), last[:200]))
      i = j


def _root(tid):
  return tid.split("/", 1)[0]


def _count_ops(prog):
  n = 0
  for op in prog:
    n += 1
    if op.get("op") == "call":
      n += 2 + _count_ops(op.get("sub", {}).get("prog", []))
    if op.get("op") == "send":
      n += 2 * int(op.get("len", 1)) + 4
    if op.get("op") == "rfop":
      n += 2 + len(op.get("script") or [])
  return n


def run_inline(case):
  return Run(case).go()


# ---------------------------------------------------------------------------------------------- threaded hub mode

# recoco functions whose lines are switch points of the thread schedule
TRACE_FUNCS = [
  "Scheduler.schedule", "Scheduler.fast_schedule", "Scheduler.run", "Scheduler.cycle", "Scheduler.quit",
  "BaseTask.start", "ScheduleTask.run",
  "SelectHub.idle", "SelectHub.break_idle", "SelectHub._threadProc", "SelectHub._select",
  "SelectHub.registerSelect", "SelectHub.registerTimer", "SelectHub._cycle", "SelectHub._return",
  "Sleep.execute", "Select.execute", "Recv.execute", "Send.execute", "Again.execute", "AgainTask.run_again",
  "Timer.start", "Timer.run", "Lock._do_acquire", "Lock._do_release",
]


class _DsClock(object):
  """The virtual clock of a DetSched seen through the VClock interface (`.now` readable and writable)."""

  def __init__(self, ds):
    self._ds = ds

  @property
  def now(self):
    return self._ds.now

  @now.setter
  def now(self, v):
    self._ds.now = float(v)

  def time(self):
    return self._ds.now


class ThreadedRun(Run):
  """The same program sets with the scheduler loop on its own thread and the select hub on a third one,
  all three (plus this harness's main thread, which registers the tasks) under pvf.sim.detsched: one thread
  runs at a time, every traced recoco line and every blocking primitive is a switch point, and who runs next
  is case["sched"] = {"gaps": [[gap, v], ...], "base": 0|1} (default: the running thread continues, then
  round robin).  Virtual time passes only when every thread is blocked (or in a 'busy' action); every such
  jump is logged as ("sel", a, b, "advance"), which is what the oracle's slept-past-due clause judges --
  so lateness that a schedule causes without time passing is never an alarm.

  Extra log events: ("wedged", thread, site) -- a thread other than main is blocked without any deadline when
  the run is over; ("deadlock", [(thread, site)...]).
  """

  def __init__(self, case):
    Run.__init__(self, case)
    from . import detsched as D
    self.D = D
    sc = case.get("sched") or {}
    self.ds = None
    self._sc = sc
    self._last_t = T0
    self.budget = 2 * self.budget + 200

  _in_busy = 0

  def _flush_time(self):
    now = self.clock.now
    if now > self._last_t:
      # nothing was logged while the clock moved: every thread was blocked from _last_t to now -- either idle,
      # or because the scheduler thread was inside a 'busy' action (a step that takes time), which is not judged
      self.log.append(("sel", self._last_t, now, "busy" if self._in_busy else "advance"))
      self._last_t = now

  def emit(self, ev):
    self._flush_time()
    self.log.append(ev)

  def _busy_to(self, t):
    """A step that takes virtual time: the scheduler's thread is occupied (blocked in detsched) until t while
    the other threads may run."""
    self._flush_time()
    self._in_busy += 1
    try:
      d = t - self.clock.now
      if d > 0:
        self.ds.time.sleep(d)
      self._flush_time()
    finally:
      self._in_busy -= 1

  # -- the hub's select: blocks the hub thread in detsched until something is ready or the timeout passed
  def wait(self, robjs, wobjs, timeout):
    ds = self.ds
    self.nsel += 1
    if self.nsel > self.budget:
      self._stop("select-budget")
      return [], []
    start = ds.now
    deadline = None if (timeout is None or timeout < 0) else start + timeout

    def ready():
      now = ds.now
      return any(self._r(o, now) for o in robjs) or any(self._w(o, now) for o in wobjs)
    while True:
      now = ds.now
      ro = [o for o in robjs if self._r(o, now)]
      wo = [o for o in wobjs if self._w(o, now)]
      if ro or wo or (deadline is not None and now >= deadline) or self.sched._hasQuit:
        break
      nxt = deadline
      for o in robjs:
        f = getattr(o, "next_readable", None)
        t = f(now) if f else None
        if t is not None and (nxt is None or t < nxt):
          nxt = t
      for o in wobjs:
        f = getattr(o, "next_writable", None)
        t = f(now) if f else None
        if t is not None and (nxt is None or t < nxt):
          nxt = t
      ds.block(ready, None if nxt is None else nxt - now, "hub select(%d r, %d w, timeout=%r)" % (len(robjs), len(wobjs), timeout))
    self.emit(("sel", start, ds.now, "ready" if (ro or wo) else "timeout"))
    return ro, wo

  def _stop(self, why):
    if self.stopped is None:
      self.stopped = why
    self.emit(("stop", self.clock.now, why))
    self.sched.quit()

  def _run(self, buf):
    D, R, U = self.D, self.R, self.U
    sc = self._sc
    if isinstance(sc, dict) and sc.get("devs") is not None:
      chooser = D.SparseChooser({int(k): int(v) for k, v in sc["devs"]})
    elif isinstance(sc, dict) and sc.get("list") is not None:
      chooser = D.ListChooser([int(x) for x in sc["list"]])
    else:
      chooser = D.GapChooser([[int(g), int(v)] for g, v in (sc.get("gaps") or [])])
    trace = {}
    for name in TRACE_FUNCS:
      o = R
      try:
        for part in name.split("."):
          o = getattr(o, part)
      except AttributeError:
        continue
      trace[o] = None

    def on_abort():
      try:
        self.sched._hasQuit = True
      except AttributeError:
        pass
    ds = self.ds = D.DetSched(chooser=chooser, trace=trace, base=int(sc.get("base", 0)), t0=T0, on_abort=on_abort,
                              max_vtime_span=float(self.case.get("horizon", 16)) + 30.0, watchdog_s=60.0,
                              max_switch_points=400000)
    self.clock = _DsClock(ds)
    extra = {"underflows": 0}

    def main():
      sched = R.Scheduler(isDefaultScheduler=True, startInThread=False, threaded_selecthub=True)
      self._setup(sched)
      sched.runThreaded(daemon=True)
      self._register_all()
      why = None
      while True:
        ds.wait_quiescent("main: quiescence")
        now = ds.now
        if self.stopped is not None or sched._allDone:
          why = self.stopped or "scheduler-ended"
          break
        future = (any(d > now for d in self.due.values()) or any(d > now for d in self.tdue.values())
                  or self._hub_pending() or len(sched._ready) > 0 or self._in_busy > 0)
        if not future:
          for o in self.fds + self.socks:
            if o.next_readable(now) is not None or o.next_writable(now) is not None:
              future = True
              break
        if not future:
          why = "quiesce"
          break
        if now >= self.H:
          # a step that is still taking time at the horizon: stop without judging liveness (as inline does)
          why = "horizon-busy" if self._in_busy > 0 else "horizon"
          break
        dls = [dl for (name, site, dl) in ds.blocked() if dl is not None and name != "main"]
        if not dls:
          why = "stuck"
          break
        t = min(min(dls), self.H)
        ds.time.sleep(t - now)
      if self.stopped is None:
        self.stopped = why
        self.emit(("stop", ds.now, why))
      for (name, site, dl) in ds.blocked():
        if dl is None and name != "main":
          self.emit(("wedged", name, str(site)))
      extra["pinger_empty_reads"] = getattr(self.hub._pinger, "empty_pongs", 0)
      ds.freeze()
      sched.quit()
      self.hub.break_idle()
      self.hub._cycle()
      if sched._thread is not None:
        sched._thread.join()
      if self.hub._thread is not None:
        self.hub._thread.join()

    with ds.patched(R, threading=ds.threading, Thread=ds.Thread, time=ds.time, select=ds.select), \
         ds.patched(U, makePinger=ds.make_pinger, make_pinger=ds.make_pinger), \
         contextlib.redirect_stdout(buf), contextlib.redirect_stderr(buf):
      res = ds.run(main)
    if res.budget_exceeded:
      raise HarnessError("C06 threaded: switch-point budget exceeded")
    for name, e in res.thread_errors:
      if isinstance(e, HarnessError):
        raise e
      self._note_runexc(e, name)
    if res.deadlock is not None:
      self.emit(("deadlock", [[n, str(s)] for n, s in res.deadlock]))
    if res.stalled is not None:
      self.emit(("deadlock", [[n, str(s)] for n, s in res.stalled]))
    self.decisions = res.decisions
    extra["decisions"] = len(res.decisions)
    extra["deviations"] = sum(1 for d in res.decisions if d["v"] != 0)
    extra["preemptions"] = len(res.preemptions)
    extra["time_advances"] = len(res.time_advances)
    return extra


def run_threaded(case):
  return ThreadedRun(case).go()


def probe_decisions(case):
  """The decisions ({"k","n","kind","site","thread",...}) taken while running `case` in threaded mode."""
  r = ThreadedRun(case)
  r.go()
  return r.decisions
