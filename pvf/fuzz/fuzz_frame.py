"""Stand-alone atheris target for C15 (parsing untrusted frames never fails).

The registered thorough tier already runs this campaign through pvf.fuzz.driver (driver "fuzz-frames" in
pvf/props/c15.py).  This module is for longer, manual campaigns:

    cd /verif && PYTHONHASHSEED=0 PYTHONDONTWRITEBYTECODE=1 PYTHONPATH=/verif:/verif/.deps \\
        /venv/bin/python -m pvf.fuzz.fuzz_frame [work-corpus-dir] [libFuzzer flags, e.g. -runs=2000000 -max_len=1604]

Input format (see c15.case_from_bytes): byte 0 is a mode (bit0: the rest is the frame as is / else: byte 1 picks a
reference-corpus frame and the rest are (offset16, value8) edits; bit1: repair all checksums afterwards; bit2:
truncate).  The oracle is c15.run_case; violations that match an open known finding are counted and skipped so
that the campaign continues behind them; the first unknown violation is written as a normal replay file under
out/replay/ (./check C15 --replay FILE) and ends the campaign.
"""
import hashlib
import json
import os
import sys


def main(argv):
  import atheris
  from .. import runner, case as casemod
  with atheris.instrument_imports(include=["pox"]):
    from ..props import c15
    c15.setup()
  findings = runner.Findings(c15.ID)
  ctx = runner.Ctx(c15, "thorough", int(os.environ.get("VERIF_SEED", "1")), findings, 0, 1, "fuzz_frame")

  def one(data):
    c = c15.case_from_bytes(data)
    new = ctx.execute(c)
    if new:
      j = casemod.to_jsonable(c)
      d = os.path.join(runner.VERIF_DIR, "out", "replay")
      os.makedirs(d, exist_ok=True)
      p = os.path.join(d, "C15-%s.json" % hashlib.sha1(json.dumps(j, sort_keys=True).encode()).hexdigest()[:12])
      with open(p, "w") as f:
        json.dump({"property": "C15", "case": j, "key": new[0]["key"], "msg": new[0]["msg"], "driver": "fuzz_frame"}, f, indent=1, sort_keys=True)
      sys.stderr.write("VIOLATION property=C15 replay=%s\n  key=%s\n" % (p, json.dumps(new[0]["key"], sort_keys=True)))
      sys.stderr.write("known-finding hits so far: %s; executions: %d\n" % (dict(ctx.stats.known_hits), ctx.stats.evaluations))
      os._exit(1)

  args = [argv[0]] + argv[1:]
  if not any(not a.startswith("-") for a in argv[1:]):
    # no corpus directory given: work on a scratch copy of the committed seeds
    import shutil
    import tempfile
    work = tempfile.mkdtemp(prefix="pvf-fuzz-frame-")
    src = os.path.join(runner.VERIF_DIR, "corpus", "C15")
    if os.path.isdir(src):
      for fn in os.listdir(src):
        shutil.copy(os.path.join(src, fn), os.path.join(work, fn))
    args.insert(1, work)
  atheris.Setup(args, one)
  atheris.Fuzz()


if __name__ == "__main__":
  main(sys.argv)
