"""Coverage-guided byte fuzzing of both OpenFlow read loops (property C10) with atheris / libFuzzer.

The fuzzed bytes are the victim connection's corrupted item, placed between two valid messages, with one
sibling connection, inside the same real loop generators and under the same oracle as every other C10 case
(pvf.props.c10.run_case).  Coverage feedback comes from atheris' in-place instrumentation of the functions
of of_01 / datapaths.switch / libopenflow_01 / ioworker; the seeds are reference-built valid messages.

libFuzzer ends the process when it is done, so the campaign runs in a forked child that reports back over a
pipe: the number of executions, the class counters, the digests of the non-trivial cases and the first case
with a violation that is not a known finding.  The parent re-executes that case through the runner's ctx so
that it is recorded, keyed and written as a replay file like any other.

If atheris cannot be imported the driver skips cleanly and says so in the evidence notes.
"""
import json
import os
import shutil
import sys
import tempfile

from ..runner import VERIF_DIR, HarnessError
from .. import case as casemod

DEPS = os.path.join(VERIF_DIR, ".deps")


def _import_atheris():
  if DEPS not in sys.path:
    sys.path.append(DEPS)
  try:
    import atheris
    return atheris
  except Exception as e:         # ImportError, or a loader error of the native module
    return e


def make_case(side, data):
  from ..ref import of10_bytes as R
  if side == "ctl":
    a, b = {"t": R.ECHO_REQUEST, "n": 4, "f": 2, "xid": 0x21}, {"t": R.BARRIER_REPLY, "xid": 0x23}
    sib = [[{"t": R.PACKET_IN, "n": 10, "f": 1, "xid": 0x31}, {"t": R.ECHO_REPLY, "xid": 0x32}]]
  else:
    a, b = {"t": R.ECHO_REQUEST, "n": 4, "f": 2, "xid": 0x21}, {"t": R.BARRIER_REQUEST, "xid": 0x23}
    sib = [[{"t": R.FEATURES_REQUEST, "xid": 0x31}, {"t": R.ECHO_REPLY, "xid": 0x32}]]
  # first byte: where the fuzzed item sits and whether the victim is accepted first
  ctl = data[0] if data else 0
  raw = {"raw": bytes(data[1:])}
  place = ctl % 3
  victim = [raw, {"m": a}, {"m": b}] if place == 0 else [{"m": a}, raw, {"m": b}] if place == 1 else [{"m": a}, {"m": b}, raw]
  c = {"side": side, "label": "atheris", "victim": victim, "sib": sib, "vpos": (ctl >> 2) & 1}
  if (ctl >> 3) & 1:
    c["eof"] = True
  return c


def _seeds(side, corpus):
  from ..ref import of10_bytes as R
  from ..props import c10
  n = 0
  for tier_specs in (c10.targets(side, "thorough"),):
    for spec in tier_specs:
      d = R.build(spec).data
      for ctl in (0, 1, 2):
        with open(os.path.join(corpus, "s%03d" % n), "wb") as f:
          f.write(bytes([ctl]) + d)
        n += 1
      with open(os.path.join(corpus, "s%03d" % n), "wb") as f:     # two messages back to back
        f.write(bytes([1]) + d + d)
      n += 1
  return n


def _child(wfd, side, runs, seed, findings, session):
  """Runs in the forked child; never returns."""
  out = os.fdopen(wfd, "w")
  result = {"runs": 0, "labels": {}, "nontrivial": [], "found": None, "error": None, "cov": None}

  def finish():
    try:
      out.write(json.dumps(result))
      out.flush()
    finally:
      os._exit(0)

  try:
    atheris = _import_atheris()
    from ..props import c10
    from ..sim import loops as L
    c10.setup()
    B = L.LineBudget.get()
    done = 0
    for f in B.functions():
      try:
        atheris.instrument_func(f)
        done += 1
      except Exception:
        pass
    B.rescan()
    result["instrumented"] = done
    devnull = os.open(os.devnull, os.O_WRONLY)
    os.dup2(devnull, 2)
    os.dup2(devnull, 1)
    corpus = tempfile.mkdtemp(prefix="c10-%s-" % side, dir=os.path.join(VERIF_DIR, "out", "fuzz"))
    _seeds(side, corpus)
    labels = result["labels"]
    nontrivial = set()

    def known(key):
      for e in findings:
        if all(key.get(k) == v for k, v in e.items()):
          return True
      for p in session:
        if all(key.get(k) == v for k, v in p.items()):
          return True
      return False

    def one(data):
      case = make_case(side, data)
      try:
        o = c10.run_case(case)
      except HarnessError as e:
        result["error"] = "harness error in fuzz target: %s" % (e,)
        shutil.rmtree(corpus, ignore_errors=True)
        finish()
      result["runs"] += 1
      for l in o.labels:
        labels[l] = labels.get(l, 0) + 1
      if o.nontrivial:
        nontrivial.add(casemod.digest(case))
      bad = [v for v in o.violations if not known(v["key"])]
      if o.violations and not bad:
        labels["known-finding-hit"] = labels.get("known-finding-hit", 0) + 1
      if bad or result["runs"] >= runs:
        if bad:
          result["found"] = casemod.to_jsonable(case)
        result["nontrivial"] = sorted(nontrivial)
        shutil.rmtree(corpus, ignore_errors=True)
        finish()

    atheris.Setup([sys.argv[0], "-runs=%d" % (runs * 4 + 1000), "-seed=%d" % (seed & 0x7fffffff), "-max_len=512", "-len_control=0",
                   "-timeout=60", "-verbosity=0", "-print_final_stats=0", corpus], one)
    atheris.Fuzz()
    result["nontrivial"] = sorted(nontrivial)
    shutil.rmtree(corpus, ignore_errors=True)
  except BaseException as e:
    import traceback
    result["error"] = "".join(traceback.format_exception(e))[-1500:]
  finish()


def driver(runs_per_shard):
  """-> fn(ctx) for runner.Custom.  Even shards fuzz the controller loop, odd shards the switch loop."""
  def fn(ctx):
    a = _import_atheris()
    if isinstance(a, BaseException):
      ctx.stats.notes.append("atheris cannot be imported (%s: %s): the coverage-guided driver was skipped" % (type(a).__name__, a))
      return
    os.makedirs(os.path.join(VERIF_DIR, "out", "fuzz"), exist_ok=True)
    side = "ctl" if ctx.shard % 2 == 0 else "sw"
    r, w = os.pipe()
    sys.stdout.flush()
    sys.stderr.flush()
    pid = os.fork()
    if pid == 0:
      os.close(r)
      _child(w, side, runs_per_shard, ctx.subseed("atheris"), [e["key"] for e in ctx.findings.open], list(ctx.findings.session))
      os._exit(0)
    os.close(w)
    with os.fdopen(r) as f:
      data = f.read()
    os.waitpid(pid, 0)
    if not data:
      raise HarnessError("the atheris child (%s) ended without a report" % side)
    res = json.loads(data)
    if res.get("error"):
      raise HarnessError("atheris child (%s): %s" % (side, res["error"]))
    st = ctx.stats
    st.evaluations += res["runs"]
    st.per_driver[ctx.driver] += res["runs"]
    for k, v in res["labels"].items():
      st.labels[k] += v
    st.labels["atheris:%s:executions" % side] += res["runs"]
    st.nontrivial |= set(res["nontrivial"])
    st.notes.append("atheris %s shard %d: %d executions, %d functions instrumented" % (side, ctx.shard, res["runs"], res.get("instrumented", 0)))
    if res.get("found") is not None:
      case = casemod.from_jsonable(res["found"])
      new = ctx.execute(case)
      if not new:
        st.notes.append("atheris %s: a violation seen in the fuzzing child did not reproduce in the parent" % side)
      for v in new:
        st.add_violation(case, v, ctx.driver)
  return fn
