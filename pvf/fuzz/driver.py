"""Coverage-guided byte fuzzing (atheris / libFuzzer) as a pvf driver.

A property module that wants a fuzz campaign provides

    def case_from_bytes(data: bytes) -> case      # decode fuzzer bytes into one of its JSON-able cases

and adds to its plan()

    from ..fuzz.driver import atheris_driver
    atheris_driver("fuzz-frames", "pvf.props.c15", runs=200000, corpus="corpus/C15", max_len=1600)

The campaign runs in a child process (`python -m pvf.fuzz.driver ...`): libFuzzer owns that process,
instruments `pox.*` at import for coverage feedback, and every input goes through exactly the same
`Ctx.execute()` as generated cases do, so the semantic oracle of run_case() is inside the target and
known findings are counted and skipped (the campaign continues behind them).  The child writes its
statistics and the first unknown violation to a JSON file which the parent merges.  If atheris cannot be
imported the driver records a note and contributes nothing (it never fails the check).

Reproducibility: `-seed=<derived from VERIF_SEED> -runs=N` with a fresh copy of the seed corpus pins a campaign
only approximately; the saved failing case (a normal replay file) is the reproducible unit.
"""
import json
import os
import shutil
import subprocess
import sys
import tempfile

from ..runner import Custom, VERIF_DIR, REPO_ROOT, Stats


def atheris_driver(name, modname, runs, corpus=None, max_len=4096, timeout_s=900, empty_corpus_too=True, shards=1):
  def fn(ctx):
    deps = os.path.join(VERIF_DIR, ".deps")
    env = dict(os.environ)
    env["PYTHONPATH"] = os.pathsep.join([VERIF_DIR, deps, env.get("PYTHONPATH", "")])
    env["VERIF_REPO_ROOT"] = REPO_ROOT
    probe = subprocess.run([sys.executable, "-c", "import atheris"], env=env, stdout=subprocess.DEVNULL, stderr=subprocess.DEVNULL)
    if probe.returncode != 0:
      ctx.stats.notes.append("%s: atheris is not importable (run setup.sh); fuzz campaign skipped" % name)
      return
    campaigns = [("seeded", corpus)] if corpus else []
    if empty_corpus_too or not corpus:
      campaigns.append(("empty", None))
    for label, corp in campaigns:
      work = tempfile.mkdtemp(prefix="pvf-fuzz-")
      try:
        cdir = os.path.join(work, "corpus")
        os.makedirs(cdir)
        if corp:
          src = os.path.join(VERIF_DIR, corp)
          if os.path.isdir(src):
            for f in sorted(os.listdir(src)):
              p = os.path.join(src, f)
              if os.path.isfile(p):
                shutil.copy(p, os.path.join(cdir, f))
        res = os.path.join(work, "result.json")
        n = max(1, runs // len(campaigns))
        cmd = [sys.executable, "-m", "pvf.fuzz.driver", modname, res, str(ctx.seed), ctx.tier, name + "/" + label,
               cdir, "-runs=%d" % n, "-seed=%d" % (ctx.subseed(label) % (2 ** 31 - 1) + 1), "-max_len=%d" % max_len,
               "-timeout=20", "-rss_limit_mb=4096", "-artifact_prefix=%s/" % work, "-print_final_stats=1"]
        try:
          p = subprocess.run(cmd, env=env, cwd=VERIF_DIR, stdout=subprocess.PIPE, stderr=subprocess.STDOUT, timeout=timeout_s)
          out = p.stdout.decode(errors="replace")
        except subprocess.TimeoutExpired as e:
          out = (e.stdout or b"").decode(errors="replace")
          ctx.stats.budget_hit.append("%s/%s: wall-clock budget of %d s hit (inconclusive for the rest)" % (name, label, timeout_s))
        if os.path.exists(res):
          with open(res) as f:
            r = json.load(f)
          s = ctx.stats
          s.evaluations += r["evaluations"]
          s.nontrivial |= set(r["nontrivial"])
          s.labels.update(r["labels"])
          s.per_driver[name + "/" + label] += r["evaluations"]
          s.known_hits.update(r["known_hits"])
          for smp in r["first_samples"]:
            if len(s.first_samples) < 3:
              s.first_samples.append(smp)
          for v in r["violations"]:
            s.violations.append(v)
          cov = [l for l in out.splitlines() if "cov:" in l]
          s.notes.append("%s/%s: %d execs; last libFuzzer status: %s" % (name, label, r["evaluations"], cov[-1].strip()[:160] if cov else "n/a"))
          if r.get("harness_error"):
            s.harness_errors.append("%s/%s: %s" % (name, label, r["harness_error"]))
        else:
          ctx.stats.harness_errors.append("%s/%s: fuzz child produced no result file; tail of its output:\n%s" % (name, label, out[-1500:]))
      finally:
        shutil.rmtree(work, ignore_errors=True)
  return Custom(name, fn, shards=shards)


def _child(argv):
  modname, resfile, seed, tier, drvname = argv[1], argv[2], int(argv[3]), argv[4], argv[5]
  rest = argv[6:]
  import atheris
  import importlib
  from .. import runner, case as casemod
  with atheris.instrument_imports(include=["pox"]):
    mod = importlib.import_module(modname)
    if hasattr(mod, "setup"):
      mod.setup()
  findings = runner.Findings(mod.ID)
  ctx = runner.Ctx(mod, tier, seed, findings, 0, 1, drvname)
  state = {"herr": None, "calls": 0}
  target = 1 << 62
  for a in rest:
    if a.startswith("-runs="):
      target = int(a[6:])

  def dump():
    s = ctx.stats
    with open(resfile + ".tmp", "w") as f:
      json.dump({"evaluations": s.evaluations, "nontrivial": sorted(s.nontrivial), "labels": dict(s.labels),
                 "known_hits": dict(s.known_hits), "first_samples": s.first_samples, "violations": s.violations,
                 "harness_error": state["herr"]}, f)
    os.replace(resfile + ".tmp", resfile)

  def one(data):
    state["calls"] += 1
    try:
      c = mod.case_from_bytes(data)
      if c is None:
        if state["calls"] >= target - 1:
          dump()
        return
      new = ctx.execute(c)
    except runner.HarnessError as e:
      state["herr"] = str(e)[:2000]
      dump()
      os._exit(0)
    if new:
      ctx.stats.add_violation(c, new[0], drvname)
      dump()
      os._exit(0)           # first unknown violation ends the campaign; the parent reports it
    if state["calls"] % 5000 == 0 or state["calls"] >= target - 1:
      dump()

  import atexit
  atexit.register(dump)
  atheris.Setup([argv[0]] + rest, one)
  try:
    atheris.Fuzz()
  finally:
    dump()


if __name__ == "__main__":
  _child(sys.argv)
