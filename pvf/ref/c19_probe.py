"""Independent decoder / builder for the discovery probe (C19 layer a).

Written from OpenFlow 1.0 (ofp_packet_out, ofp_action_output) and IEEE 802.1AB (LLDPDU TLV format:
7-bit type, 9-bit length; mandatory Chassis ID, Port ID, TTL first, End of LLDPDU last).  Imports nothing from pox.
"""
import struct

NDP_MULTICAST = bytes.fromhex("012320000001")    # Nicira discovery multicast address
LLDP_TYPE = 0x88cc
OFPT_PACKET_OUT = 13
OFPAT_OUTPUT = 0
NO_BUFFER = 0xffffffff
OFPP_NONE = 0xffff

TLV_END, TLV_CHASSIS, TLV_PORT, TLV_TTL, TLV_SYSDESC = 0, 1, 2, 3, 6
CHASSIS_MAC, CHASSIS_LOCAL = 4, 7
PORT_COMPONENT = 2


class Bad(Exception):
  pass


def decode_packet_out(raw):
  if len(raw) < 16:
    raise Bad("packet_out shorter than 16 bytes")
  ver, typ, length, xid = struct.unpack("!BBHL", raw[:8])
  if ver != 1 or typ != OFPT_PACKET_OUT:
    raise Bad("not an OpenFlow 1.0 packet_out: version %d type %d" % (ver, typ))
  if length != len(raw):
    raise Bad("header length %d, message has %d bytes" % (length, len(raw)))
  buffer_id, in_port, alen = struct.unpack("!LHH", raw[8:16])
  if 16 + alen > len(raw):
    raise Bad("actions_len %d runs past the message" % alen)
  acts = []
  o = 16
  while o < 16 + alen:
    at, al = struct.unpack("!HH", raw[o:o + 4])
    if al < 8 or al % 8 or o + al > 16 + alen:
      raise Bad("bad action length %d" % al)
    acts.append((at, raw[o + 4:o + al]))
    o += al
  return {"xid": xid, "buffer_id": buffer_id, "in_port": in_port, "actions": acts, "data": raw[16 + alen:]}


def decode_tlvs(body):
  tlvs = []
  o = 0
  while True:
    if o + 2 > len(body):
      raise Bad("LLDPDU ends without an End TLV")
    (tl,) = struct.unpack("!H", body[o:o + 2])
    t, l = tl >> 9, tl & 0x1ff
    if o + 2 + l > len(body):
      raise Bad("TLV type %d length %d runs past the frame" % (t, l))
    tlvs.append((t, body[o + 2:o + 2 + l]))
    o += 2 + l
    if t == TLV_END:
      return tlvs, body[o:]


def decode_frame(frame):
  if len(frame) < 14:
    raise Bad("frame shorter than an Ethernet header")
  dst, src = frame[0:6], frame[6:12]
  (et,) = struct.unpack("!H", frame[12:14])
  tlvs, rest = decode_tlvs(frame[14:]) if et == LLDP_TYPE else ([], frame[14:])
  return {"dst": dst, "src": src, "ethertype": et, "tlvs": tlvs, "rest": rest}


def check_probe(frame, dpid, port, src_mac, ttl=120):
  """Problems (list of (clause, message)) with a POX discovery probe for (dpid, port)."""
  v = []
  try:
    f = decode_frame(frame)
  except Bad as e:
    return [("probe-malformed", str(e))]
  if f["ethertype"] != LLDP_TYPE:
    v.append(("probe-ethertype", "ethertype 0x%04x" % f["ethertype"]))
    return v
  if f["dst"] != NDP_MULTICAST:
    v.append(("probe-dst", "destination %s" % f["dst"].hex()))
  if src_mac is not None and f["src"] != src_mac:
    v.append(("probe-src", "source %s, port address %s" % (f["src"].hex(), src_mac.hex())))
  t = f["tlvs"]
  kinds = [x[0] for x in t]
  if kinds[:3] != [TLV_CHASSIS, TLV_PORT, TLV_TTL] or kinds[-1] != TLV_END or TLV_END in kinds[:-1]:
    v.append(("probe-tlv-order", "TLV types %r" % kinds))
    return v
  if f["rest"].strip(b"\0"):
    v.append(("probe-trailing", "bytes after the End TLV: %s" % f["rest"][:16].hex()))
  ch, po, tt = t[0][1], t[1][1], t[2][1]
  want = ("dpid:%x" % dpid).encode()
  if len(ch) < 2 or ch[0] != CHASSIS_LOCAL or ch[1:] != want:
    v.append(("probe-chassis", "chassis id TLV %r, expected locally assigned %r" % (ch, want)))
  if len(po) < 2 or po[0] != PORT_COMPONENT or po[1:] != str(port).encode():
    v.append(("probe-port", "port id TLV %r, expected port component %r" % (po, str(port))))
  if tt != struct.pack("!H", ttl):
    v.append(("probe-ttl", "TTL TLV %r" % (tt,)))
  sd = [x[1] for x in t if x[0] == TLV_SYSDESC]
  if len(sd) != 1 or want not in sd[0].split(b"\n"):
    v.append(("probe-sysdesc", "system description TLVs %r, expected a line %r" % (sd, want)))
  return v


def _tlv(t, val):
  return struct.pack("!H", (t << 9) | len(val)) + val


def build_probe(style, dpid, port, src_mac):
  """Probes in the other encodings the receiver documents that it understands."""
  ttl = _tlv(TLV_TTL, struct.pack("!H", 120))
  if style == "nox":            # dpid only in a locally-assigned chassis id, decimal port
    body = _tlv(TLV_CHASSIS, bytes([CHASSIS_LOCAL]) + ("dpid:%x" % dpid).encode())
    body += _tlv(TLV_PORT, bytes([PORT_COMPONENT]) + str(port).encode()) + ttl
  elif style == "port2":        # 16-bit binary port id
    body = _tlv(TLV_CHASSIS, bytes([CHASSIS_LOCAL]) + ("dpid:%x" % dpid).encode())
    body += _tlv(TLV_PORT, bytes([PORT_COMPONENT]) + struct.pack("!H", port)) + ttl
  elif style == "mac":          # dpid (<= 48 bits) as a MAC chassis id
    body = _tlv(TLV_CHASSIS, bytes([CHASSIS_MAC]) + struct.pack("!Q", dpid)[2:])
    body += _tlv(TLV_PORT, bytes([PORT_COMPONENT]) + str(port).encode()) + ttl
  elif style == "fv":           # FlowVisor: 8-byte binary dpid as the system description
    body = _tlv(TLV_CHASSIS, bytes([CHASSIS_MAC]) + src_mac)
    body += _tlv(TLV_PORT, bytes([PORT_COMPONENT]) + str(port).encode()) + ttl
    body += _tlv(TLV_SYSDESC, struct.pack("!Q", dpid))
  else:
    raise ValueError(style)
  body += _tlv(TLV_END, b"")
  return NDP_MULTICAST + src_mac + struct.pack("!H", LLDP_TYPE) + body
