"""Reference model for OpenFlow 1.0 action application on raw Ethernet frames (property C12).

Written from the OpenFlow Switch Specification 1.0.0 (section 3.3 "Actions", Table 5 "Field-modify
actions", section 5.2.1 port config/state bits, section 5.2.3/openflow.h ofp_port numbers) and the
RFCs for the checksums (RFC 1071, 791, 793, 768).  Imports nothing from pox.  It works on bytes only:
no packet objects, every length and checksum it touches is recomputed from scratch.

    apply(frame, actions, in_port, port_state, **opts) -> Result

* frame       bytes, a complete Ethernet frame (>= 14 bytes)
* actions     list of dicts, one per action:
                {"a": "output", "port": P, "max_len": M}       {"a": "enqueue", "port": P, "queue": Q}
                {"a": "set_vlan_vid", "v": 0..4095}            {"a": "set_vlan_pcp", "v": 0..7}
                {"a": "strip_vlan"}
                {"a": "set_dl_src" | "set_dl_dst", "v": bytes6}
                {"a": "set_nw_src" | "set_nw_dst", "v": uint32}  {"a": "set_nw_tos", "v": uint8}
                {"a": "set_tp_src" | "set_tp_dst", "v": uint16}
* in_port     the ingress port number (a physical number, or OFPP_NONE / OFPP_CONTROLLER for a packet-out)
* port_state  {port_no: (config_bits, state_bits)} for every existing physical port
* opts        udp_zero = "keep" | "fill": what a rewrite does to a UDP checksum field that is 0 ("not
                         computed", RFC 768): leave it 0, or fill in the computed checksum
              tos      = "dscp" | "byte": set_nw_tos replaces the 6 DSCP bits and keeps the 2 low bits of the
                         packet, or replaces the whole octet (both readings of "IP ToS (DSCP field, 6 bits)")
              from_flow = True when the list comes from a flow entry (OFPP_TABLE is then undefined)
              table    = None (OFPP_TABLE is not modelled) or a callable (frame, in_port) -> action list of the
                         matching entry, or None for a table miss

Result.events is the ordered list of what the datapath must do:
    ("out", port, frame)                       one frame on one physical port
    ("flood", [(port, frame), ...])            FLOOD / ALL: one frame per listed port, order unspecified
    ("ctl", frame, max_len)                    packet-in, reason OFPR_ACTION, frame as modified so far
    ("miss", frame)                            table miss of an OFPP_TABLE lookup: packet-in, reason NO_MATCH
Result.ambiguous is None, or a short string naming the first place where OpenFlow 1.0 leaves the outcome
open (NORMAL/LOCAL, OFPP_TABLE from a flow entry, nw rewrite on the first fragment of a TCP/UDP datagram or on
IPv4 behind two tags / in SNAP, tp rewrite on a first fragment, ...).  events then holds what was determined
before that point and nothing after it may be judged byte-wise.
Result.inapplicable is the list of (len(events), description) for every field-modify action that OpenFlow 1.0
declares "only applicable to IPv4 / TCP / UDP packets" and that met a frame which is not one (ARP, any other
EtherType - including 0x9100 / 0x88a8, which 1.0 does not know as VLAN tags -, ICMP for tp rewrites, a later
fragment).  The specification gives such an action no field it may touch, so the model carries on with the
frame unchanged; the only other outcome it admits is that the datapath stops executing the list at that
action.  A judge must therefore accept events complete, or cut at one of these len(events) positions.
Result.final is the frame after the last judged action, Result.table_lookups counts OFPP_TABLE lookups and
Result.first_lookup_event is len(events) when the first lookup happened.
"""
import struct

OFPP_MAX = 0xff00
OFPP_IN_PORT = 0xfff8
OFPP_TABLE = 0xfff9
OFPP_NORMAL = 0xfffa
OFPP_FLOOD = 0xfffb
OFPP_ALL = 0xfffc
OFPP_CONTROLLER = 0xfffd
OFPP_LOCAL = 0xfffe
OFPP_NONE = 0xffff

OFPPC_PORT_DOWN = 1 << 0
OFPPC_NO_STP = 1 << 1
OFPPC_NO_RECV = 1 << 2
OFPPC_NO_RECV_STP = 1 << 3
OFPPC_NO_FLOOD = 1 << 4
OFPPC_NO_FWD = 1 << 5
OFPPC_NO_PACKET_IN = 1 << 6
OFPPS_LINK_DOWN = 1 << 0

STP_MAC = bytes([0x01, 0x80, 0xc2, 0x00, 0x00, 0x00])

ACTION_TYPES = ("output", "set_vlan_vid", "set_vlan_pcp", "strip_vlan", "set_dl_src", "set_dl_dst",
                "set_nw_src", "set_nw_dst", "set_nw_tos", "set_tp_src", "set_tp_dst", "enqueue")
# OFPAT_* numbers, openflow.h 1.0
ACTION_CODE = {"output": 0, "set_vlan_vid": 1, "set_vlan_pcp": 2, "strip_vlan": 3, "set_dl_src": 4,
               "set_dl_dst": 5, "set_nw_src": 6, "set_nw_dst": 7, "set_nw_tos": 8, "set_tp_src": 9,
               "set_tp_dst": 10, "enqueue": 11}


# --------------------------------------------------------------------------- RFC 1071

def _ones_sum(data):
  s = 0
  n = len(data)
  for i in range(0, n - 1, 2):
    s += (data[i] << 8) | data[i + 1]
  if n & 1:
    s += data[n - 1] << 8          # odd byte padded on the right with zero
  while s >> 16:
    s = (s & 0xffff) + (s >> 16)   # end-around carry
  return s


def inet_checksum(data):
  return (~_ones_sum(data)) & 0xffff


# --------------------------------------------------------------------------- frame view

class View(object):
  """Offsets into an Ethernet frame, as OpenFlow 1.0 looks at it."""
  __slots__ = ("ntags", "l3", "ethertype", "ipv4", "ihl", "proto", "mf", "fragoff", "l4", "l4len", "why")

  def __init__(self, f, max_tags=1, through_snap=False):
    self.ntags = 0
    off = 12
    t = (f[12] << 8) | f[13]
    while t == 0x8100 and len(f) >= off + 6:
      self.ntags += 1
      off += 4
      t = (f[off] << 8) | f[off + 1]
    self.ethertype = t
    self.l3 = off + 2
    self.ipv4 = False
    self.why = None
    self.ihl = self.proto = self.fragoff = self.l4 = self.l4len = 0
    self.mf = False
    if t != 0x0800:
      self.why = "not-ipv4"
      o = self.l3
      if t < 0x0600 and bytes(f[o:o + 8]) == b"\xaa\xaa\x03\x00\x00\x00\x08\x00":
        self.why = "ipv4-in-snap"            # 1.0 takes dl_type from the SNAP header: open whether it is rewritten
        if through_snap:
          self.l3 = o + 8
          self.ethertype = t = 0x0800
      if t != 0x0800:
        return
    if self.ntags > max_tags:
      self.why = "ipv4-behind-two-tags"    # OF 1.0 sees dl_type 0x8100 there
      return
    l3 = self.l3
    rem = len(f) - l3
    if rem < 20:
      self.why = "ipv4-truncated"
      return
    ihl = (f[l3] & 15) * 4
    tl = (f[l3 + 2] << 8) | f[l3 + 3]
    if (f[l3] >> 4) != 4 or ihl < 20 or ihl > rem or tl < ihl or tl > rem:
      self.why = "ipv4-malformed"
      return
    self.ipv4 = True
    self.ihl = ihl
    self.proto = f[l3 + 9]
    ff = (f[l3 + 6] << 8) | f[l3 + 7]
    self.mf = bool(ff & 0x2000)
    self.fragoff = ff & 0x1fff
    self.l4 = l3 + ihl
    self.l4len = tl - ihl

  @property
  def tagged(self):
    return self.ntags > 0


def _fix_ip_checksum(b, v):
  l3 = v.l3
  b[l3 + 10] = b[l3 + 11] = 0
  c = inet_checksum(bytes(b[l3:l3 + v.ihl]))
  b[l3 + 10] = c >> 8
  b[l3 + 11] = c & 0xff


def _fix_l4_checksum(b, v, udp_zero):
  """TCP / UDP checksum over the RFC 793 / 768 pseudo header, recomputed from scratch.
  Only for complete (unfragmented) datagrams."""
  l3, l4, n = v.l3, v.l4, v.l4len
  if v.proto == 6:
    co = l4 + 16
    if n < 20:
      return
  elif v.proto == 17:
    co = l4 + 6
    if n < 8:
      return
    if b[co] == 0 and b[co + 1] == 0 and udp_zero == "keep":
      return                       # checksum not in use; stays unused
  else:
    return
  b[co] = b[co + 1] = 0
  pseudo = bytes(b[l3 + 12:l3 + 20]) + struct.pack("!BBH", 0, v.proto, n)
  c = inet_checksum(pseudo + bytes(b[l4:l4 + n]))
  if v.proto == 17 and c == 0:
    c = 0xffff
  b[co] = c >> 8
  b[co + 1] = c & 0xff


# --------------------------------------------------------------------------- field-modify actions

def _push_tag(f, tci):
  return f[:12] + struct.pack("!HH", 0x8100, tci) + f[12:]


_OPEN_WHY = ("ipv4-behind-two-tags", "ipv4-in-snap", "ipv4-truncated", "ipv4-malformed")


def rewrite(frame, act, udp_zero="keep", tos="dscp"):
  """Apply one field-modify action.  Returns (new_frame, ambiguity or None, inapplicable or None):
  `ambiguity` names an open zone (the frame returned is meaningless then); `inapplicable` says the action is
  defined only for a kind of packet this frame is not (the frame is returned unchanged)."""
  a = act["a"]
  f = frame
  tagged = len(f) >= 18 and f[12] == 0x81 and f[13] == 0x00     # 0x8100 is the only VLAN TPID OpenFlow 1.0 knows
  if a == "set_vlan_vid":
    vid = act["v"] & 0x0fff
    if tagged:
      tci = ((f[14] << 8) | f[15]) & 0xf000 | vid
      return f[:14] + struct.pack("!H", tci) + f[16:], None, None
    return _push_tag(f, vid), None, None             # new header, priority zero
  if a == "set_vlan_pcp":
    pcp = act["v"] & 7
    if tagged:
      tci = ((f[14] << 8) | f[15]) & 0x1fff | (pcp << 13)
      return f[:14] + struct.pack("!H", tci) + f[16:], None, None
    return _push_tag(f, pcp << 13), None, None       # new header, VLAN id zero
  if a == "strip_vlan":
    if tagged:
      return f[:12] + f[16:], None, None
    return f, None, None
  if a == "set_dl_src":
    return f[:6] + bytes(act["v"]) + f[12:], None, None
  if a == "set_dl_dst":
    return bytes(act["v"]) + f[6:], None, None

  v = View(f)
  if a in ("set_nw_src", "set_nw_dst", "set_nw_tos", "set_tp_src", "set_tp_dst") and not v.ipv4:
    if v.why in _OPEN_WHY:
      return f, "%s on %s" % (a, v.why), None
    return f, None, "%s on %s" % (a, v.why)
  if a in ("set_nw_src", "set_nw_dst", "set_nw_tos"):
    b = bytearray(f)
    if a == "set_nw_tos":
      old = b[v.l3 + 1]
      b[v.l3 + 1] = ((old & 0x03) | (act["v"] & 0xfc)) if tos == "dscp" else (act["v"] & 0xff)
      _fix_ip_checksum(b, v)
      return bytes(b), None, None
    if v.proto in (6, 17) and v.mf and v.fragoff == 0:
      # first fragment: the transport checksum covers data that is not in this frame
      return f, "%s on the first fragment of a TCP/UDP datagram" % a, None
    o = v.l3 + (12 if a == "set_nw_src" else 16)
    b[o:o + 4] = struct.pack("!L", act["v"] & 0xffffffff)
    _fix_ip_checksum(b, v)
    if v.fragoff == 0:
      _fix_l4_checksum(b, v, udp_zero)
    return bytes(b), None, None
  if a in ("set_tp_src", "set_tp_dst"):
    if v.proto not in (6, 17):
      return f, None, "%s on ip protocol %d" % (a, v.proto)
    if v.fragoff != 0:
      return f, None, "%s on a later fragment" % a           # no transport header in this frame
    if v.mf:
      return f, "%s on a first fragment" % a, None
    if v.l4len < (20 if v.proto == 6 else 8):
      return f, "%s on a truncated transport header" % a, None
    b = bytearray(f)
    o = v.l4 + (0 if a == "set_tp_src" else 2)
    b[o:o + 2] = struct.pack("!H", act["v"] & 0xffff)
    _fix_l4_checksum(b, v, udp_zero)
    return bytes(b), None, None
  raise ValueError("unknown action %r" % (a,))


def fill_udp_checksum(frame):
  """The frame with the checksum of a complete UDP datagram filled in if the sender left it 0."""
  v = View(frame, max_tags=99, through_snap=True)    # wherever the datagram sits: this is not an OpenFlow field rewrite
  if not v.ipv4 or v.proto != 17 or v.mf or v.fragoff != 0 or v.l4len < 8:
    return frame
  if frame[v.l4 + 6] or frame[v.l4 + 7]:
    return frame
  b = bytearray(frame)
  _fix_l4_checksum(b, v, "fill")
  return bytes(b)


def make_derived_valid(frame):
  """The frame as a datapath that re-serialises what it dissected emits it: the IPv4 total length / IPv6 payload length
  say what is there (a datagram cut short becomes a well-formed shorter one), the UDP length field says what the IP
  datagram holds, and the IPv4 header, TCP, UDP and ICMP checksums (TCP / UDP also over IPv6) are right.  Meant for
  packets that are regular but for such a derived field; anything it cannot read is left alone."""
  f = bytes(frame)
  off = 12
  while len(f) >= off + 6 and f[off] == 0x81 and f[off + 1] == 0x00:
    off += 4
  if len(f) < off + 2:
    return f
  et = (f[off] << 8) | f[off + 1]
  l3 = off + 2
  b = bytearray(f)
  rem = len(b) - l3
  if et == 0x0800 and rem >= 20 and (b[l3] >> 4) == 4:
    ihl = (b[l3] & 15) * 4
    tl = (b[l3 + 2] << 8) | b[l3 + 3]
    if ihl < 20 or ihl > rem or tl < ihl:
      return f
    if tl > rem:
      tl = rem
      b[l3 + 2:l3 + 4] = struct.pack("!H", tl)
    b[l3 + 10] = b[l3 + 11] = 0
    b[l3 + 10:l3 + 12] = struct.pack("!H", inet_checksum(bytes(b[l3:l3 + ihl])))
    ff = (b[l3 + 6] << 8) | b[l3 + 7]
    if ff & 0x3fff:
      return bytes(b)
    proto, l4, n = b[l3 + 9], l3 + ihl, tl - ihl
    pseudo = lambda: bytes(b[l3 + 12:l3 + 20]) + struct.pack("!BBH", 0, proto, n)
  elif et == 0x86dd and rem >= 40 and (b[l3] >> 4) == 6:
    n = (b[l3 + 4] << 8) | b[l3 + 5]
    if n > rem - 40:
      n = rem - 40
      b[l3 + 4:l3 + 6] = struct.pack("!H", n)
    proto, l4 = b[l3 + 6], l3 + 40
    pseudo = lambda: bytes(b[l3 + 8:l3 + 40]) + struct.pack("!LBBBB", n, 0, 0, 0, proto)
  else:
    return f
  if proto == 17 and n >= 8:
    b[l4 + 4:l4 + 6] = struct.pack("!H", n)
    if b[l4 + 6] or b[l4 + 7] or et == 0x86dd:
      b[l4 + 6] = b[l4 + 7] = 0
      c = inet_checksum(pseudo() + bytes(b[l4:l4 + n])) or 0xffff
      b[l4 + 6:l4 + 8] = struct.pack("!H", c)
  elif proto == 6 and n >= 20:
    b[l4 + 16] = b[l4 + 17] = 0
    b[l4 + 16:l4 + 18] = struct.pack("!H", inet_checksum(pseudo() + bytes(b[l4:l4 + n])))
  elif proto == 1 and et == 0x0800 and n >= 4:
    b[l4 + 2] = b[l4 + 3] = 0
    b[l4 + 2:l4 + 4] = struct.pack("!H", inet_checksum(bytes(b[l4:l4 + n])))
  return bytes(b)


# --------------------------------------------------------------------------- ports

def may_transmit(port_state, p):
  """A frame can leave through physical port p."""
  st = port_state.get(p)
  if st is None:
    return False
  config, state = st
  if config & (OFPPC_NO_FWD | OFPPC_PORT_DOWN):
    return False
  if state & OFPPS_LINK_DOWN:
    return False
  return True


def accepts(port_state, p, frame):
  """A frame arriving on physical port p is taken in (NO_RECV / NO_RECV_STP)."""
  st = port_state.get(p)
  if st is None:
    return False
  config = st[0]
  if bytes(frame[:6]) == STP_MAC:
    return not (config & OFPPC_NO_RECV_STP)
  return not (config & OFPPC_NO_RECV)


def expand_output(port, in_port, port_state):
  """-> ("ports", [p, ...]) | ("flood", [p, ...]) | ("ctl",) | ("table",) | ("ambiguous", why)"""
  if port < OFPP_MAX:
    if port == in_port:
      return ("ports", [])          # the ingress port needs OFPP_IN_PORT explicitly
    return ("ports", [port] if may_transmit(port_state, port) else [])
  if port == OFPP_IN_PORT:
    return ("ports", [in_port] if may_transmit(port_state, in_port) else [])
  if port == OFPP_FLOOD:
    return ("flood", [p for p in sorted(port_state) if p != in_port
                      and not (port_state[p][0] & OFPPC_NO_FLOOD) and may_transmit(port_state, p)])
  if port == OFPP_ALL:
    return ("flood", [p for p in sorted(port_state) if p != in_port and may_transmit(port_state, p)])
  if port == OFPP_CONTROLLER:
    return ("ctl",)
  if port == OFPP_TABLE:
    return ("table",)
  if port == OFPP_NORMAL:
    return ("ambiguous", "output to OFPP_NORMAL")
  if port == OFPP_LOCAL:
    return ("ambiguous", "output to OFPP_LOCAL")
  return ("ambiguous", "output to undefined port 0x%04x" % port)


class Result(object):
  __slots__ = ("events", "ambiguous", "final", "table_lookups", "first_lookup_event", "inapplicable")

  def __init__(self):
    self.events = []
    self.ambiguous = None
    self.final = None
    self.table_lookups = 0
    self.first_lookup_event = None      # len(events) at the moment of the first OFPP_TABLE lookup
    self.inapplicable = []              # (len(events), description) per field-modify action that did not apply

  def physical(self):
    """All (port, frame) expected on physical ports, flattened in list order."""
    out = []
    for e in self.events:
      if e[0] == "out":
        out.append((e[1], e[2]))
      elif e[0] == "flood":
        out.extend(e[1])
    return out


_NW_TP = ("set_nw_src", "set_nw_dst", "set_nw_tos", "set_tp_src", "set_tp_dst")


def apply(frame, actions, in_port, port_state, udp_zero="keep", tos="dscp", from_flow=False, table=None,
          _res=None, irregular=None):
  """`irregular`: the frame's packet is not a well-formed one of its kind (name of the irregularity).  Link-layer
  rewrites and outputs mean what they always mean; what an nw/tp rewrite does to such a packet (which lengths it trusts,
  which checksums it repairs) is not specified: an open zone from that action on."""
  res = _res if _res is not None else Result()
  f = bytes(frame)
  for idx, act in enumerate(actions):
    a = act["a"]
    if a in ("output", "enqueue"):
      if a == "enqueue" and not (act["port"] < OFPP_MAX or act["port"] == OFPP_IN_PORT):
        res.ambiguous = "enqueue to a virtual port"
        break
      x = expand_output(act["port"], in_port, port_state)
      if x[0] == "ports":
        for p in x[1]:
          res.events.append(("out", p, f))
      elif x[0] == "flood":
        res.events.append(("flood", [(p, f) for p in x[1]]))
      elif x[0] == "ctl":
        res.events.append(("ctl", f, act.get("max_len", 0xffff)))
      elif x[0] == "table":
        if from_flow:
          res.ambiguous = "OFPP_TABLE in a flow entry's action list"
          break
        if table is None:
          res.ambiguous = "OFPP_TABLE not modelled here"
          break
        if in_port not in port_state:
          res.ambiguous = "OFPP_TABLE lookup with an ingress port that does not exist"
          break
        res.table_lookups += 1
        if res.first_lookup_event is None:
          res.first_lookup_event = len(res.events)
        nested = table(f, in_port)
        if nested is None:
          res.events.append(("miss", f))
        else:
          apply(f, nested, in_port, port_state, udp_zero=udp_zero, tos=tos, from_flow=True, table=None, _res=res,
                irregular=irregular)
        if res.ambiguous is None and idx + 1 < len(actions):
          # whether later actions of the outer list see the entry's rewrites is not specified
          res.ambiguous = "actions after an OFPP_TABLE output"
        if res.ambiguous is not None:
          break
      else:
        res.ambiguous = x[1]
        break
    else:
      if irregular is not None and a in _NW_TP and View(f).ipv4:
        res.ambiguous = "%s on an irregular packet" % a
        break
      f, amb, inapp = rewrite(f, act, udp_zero=udp_zero, tos=tos)
      if amb is not None:
        res.ambiguous = amb
        break
      if inapp is not None:
        res.inapplicable.append((len(res.events), inapp))
  if _res is None or res.ambiguous is None:
    res.final = f
  return res


def port_config_after(config, mods):
  """Port config word after a sequence of (config, mask) port-mods (ofp_port_mod semantics:
  bits selected by mask take the value given in config)."""
  for c, m in mods:
    config = (config & ~m) | (c & m)
  return config
