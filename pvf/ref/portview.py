"""Reference port view for C17.  Imports nothing from pox.

OpenFlow 1.0 (section 5.4.3, ofp_port_status): the switch reports its ports in the features reply
and afterwards sends OFPPR_ADD / OFPPR_MODIFY notifications carrying the complete new description
of one port, or OFPPR_DELETE naming a port that is gone.  The controller's current picture is the
reported ports with the notifications applied in order; the reported ports themselves stay
available.

A port is a tuple (port_no, hw_addr(6 bytes), name, config, state, curr, advertised, supported, peer).
"""

OFPPR_ADD = 0
OFPPR_DELETE = 1
OFPPR_MODIFY = 2

FIELDS = ("no", "hw", "name", "config", "state", "curr", "advertised", "supported", "peer")


def as_tuple(rec):
  return (rec["no"], bytes(rec["hw"]), rec["name"], rec.get("config", 0), rec.get("state", 0), rec.get("curr", 0),
          rec.get("advertised", 0), rec.get("supported", 0), rec.get("peer", 0))


class PortView(object):
  def __init__(self):
    self.original = {}       # port_no -> tuple, as in the last features reply
    self.current = {}        # port_no -> tuple
    self.former_names = set()
    self.former_addrs = set()
    self.renamed = False
    self.readded = False
    self.hw_changed = False
    self._deleted = set()

  def features(self, recs):
    self._remember()
    self.original = {}
    for r in recs:
      t = as_tuple(r)
      self.original[t[0]] = t
    self.current = dict(self.original)
    self._deleted = set()

  def _remember(self):
    for t in list(self.current.values()) + list(self.original.values()):
      self.former_names.add(t[2])
      self.former_addrs.add(t[1])

  def status(self, reason, rec):
    t = as_tuple(rec)
    self._remember()
    if reason == OFPPR_DELETE:
      if t[0] in self.current:
        self._deleted.add(t[0])
      self.current.pop(t[0], None)
    elif reason in (OFPPR_ADD, OFPPR_MODIFY):
      old = self.current.get(t[0])
      if old is not None and old[2] != t[2]:
        self.renamed = True
      if old is not None and old[1] != t[1]:
        self.hw_changed = True
      if old is None and t[0] in self._deleted:
        self.readded = True
      self.current[t[0]] = t
    else:
      raise ValueError("unknown port-status reason %r" % (reason,))

  # ---- lookups: lists of acceptable answers (several ports may share a name or an address)
  @staticmethod
  def by_name(view, name):
    return [t for t in view.values() if t[2] == name]

  @staticmethod
  def by_addr(view, hw):
    return [t for t in view.values() if t[1] == bytes(hw)]
