"""Byte-level encoder for the switch-to-controller side of OpenFlow 1.0.

Written from the OpenFlow 1.0.0 specification (openflow.h, wire version 0x01) with
`struct` only.  Imports nothing from pox.  Used by the C09 / C17 checks to play the
part of a switch: every message the controller receives in those checks is built here,
and what the controller writes is dissected here (`split`) to learn its xids.

All integers are big-endian.  Sizes (bytes): ofp_header 8, ofp_phy_port 48,
ofp_switch_features 32 + 48*n, ofp_port_status 64, ofp_error_msg 12 + data,
ofp_packet_in 18 + data, ofp_stats_reply 12 + body, ofp_desc_stats 1056,
ofp_flow_stats 88 + actions, ofp_aggregate_stats_reply 24, ofp_table_stats 64,
ofp_port_stats 104, ofp_queue_stats 32, ofp_match 40.
"""
import struct

OFP_VERSION = 0x01

# enum ofp_type
OFPT_HELLO = 0
OFPT_ERROR = 1
OFPT_ECHO_REQUEST = 2
OFPT_ECHO_REPLY = 3
OFPT_VENDOR = 4
OFPT_FEATURES_REQUEST = 5
OFPT_FEATURES_REPLY = 6
OFPT_GET_CONFIG_REQUEST = 7
OFPT_GET_CONFIG_REPLY = 8
OFPT_SET_CONFIG = 9
OFPT_PACKET_IN = 10
OFPT_FLOW_REMOVED = 11
OFPT_PORT_STATUS = 12
OFPT_PACKET_OUT = 13
OFPT_FLOW_MOD = 14
OFPT_PORT_MOD = 15
OFPT_STATS_REQUEST = 16
OFPT_STATS_REPLY = 17
OFPT_BARRIER_REQUEST = 18
OFPT_BARRIER_REPLY = 19

# enum ofp_port_reason
OFPPR_ADD = 0
OFPPR_DELETE = 1
OFPPR_MODIFY = 2

# enum ofp_error_type / ofp_bad_request_code
OFPET_HELLO_FAILED = 0
OFPET_BAD_REQUEST = 1
OFPET_BAD_ACTION = 2
OFPET_FLOW_MOD_FAILED = 3
OFPET_PORT_MOD_FAILED = 4
OFPET_QUEUE_OP_FAILED = 5
OFPBRC_BAD_VERSION = 0
OFPBRC_BAD_TYPE = 1
OFPBRC_BAD_STAT = 2
OFPBRC_BAD_LEN = 6

# enum ofp_stats_types
OFPST_DESC = 0
OFPST_FLOW = 1
OFPST_AGGREGATE = 2
OFPST_TABLE = 3
OFPST_PORT = 4
OFPST_QUEUE = 5
OFPSF_REPLY_MORE = 1

OFPP_LOCAL = 0xfffe
OFPFW_ALL = (1 << 22) - 1


def header(typ, length, xid):
  return struct.pack("!BBHL", OFP_VERSION, typ, length, xid & 0xffffffff)


def _zs(text, n):
  b = text.encode("latin-1") if isinstance(text, str) else bytes(text)
  assert len(b) < n, "string does not fit with its terminating NUL"
  return b + b"\0" * (n - len(b))


def hello(xid=0):
  return header(OFPT_HELLO, 8, xid)


def echo_request(xid, payload=b""):
  return header(OFPT_ECHO_REQUEST, 8 + len(payload), xid) + payload


def barrier_reply(xid):
  return header(OFPT_BARRIER_REPLY, 8, xid)


def error(xid, etype, code, data=b""):
  return header(OFPT_ERROR, 12 + len(data), xid) + struct.pack("!HH", etype, code) + data


def phy_port(port_no, hw_addr, name, config=0, state=0, curr=0, advertised=0, supported=0, peer=0):
  """struct ofp_phy_port: port_no(2) hw_addr(6) name(16, NUL terminated) then six 32-bit words."""
  assert len(hw_addr) == 6
  return (struct.pack("!H", port_no) + bytes(hw_addr) + _zs(name, 16) +
          struct.pack("!LLLLLL", config, state, curr, advertised, supported, peer))


def port_from_record(p):
  """p: {"no","hw"(6 bytes),"name",["config","state","curr","advertised","supported","peer"]}"""
  return phy_port(p["no"], p["hw"], p["name"], p.get("config", 0), p.get("state", 0), p.get("curr", 0),
                  p.get("advertised", 0), p.get("supported", 0), p.get("peer", 0))


def features_reply(xid, dpid, ports, n_buffers=256, n_tables=1, capabilities=0xc7, actions=0xfff):
  """struct ofp_switch_features: header, datapath_id(8), n_buffers(4), n_tables(1), pad(3),
  capabilities(4), actions(4), then one ofp_phy_port per port.  `ports` is a list of port records."""
  body = struct.pack("!QLB3xLL", dpid, n_buffers, n_tables, capabilities, actions)
  body += b"".join(port_from_record(p) for p in ports)
  return header(OFPT_FEATURES_REPLY, 8 + len(body), xid) + body


def port_status(xid, reason, port):
  """struct ofp_port_status: header, reason(1), pad(7), ofp_phy_port."""
  return header(OFPT_PORT_STATUS, 64, xid) + struct.pack("!B7x", reason) + port_from_record(port)


def packet_in(xid, buffer_id, in_port, data, reason=0, total_len=None):
  """struct ofp_packet_in: header, buffer_id(4), total_len(2), in_port(2), reason(1), pad(1), data."""
  if total_len is None:
    total_len = len(data)
  return (header(OFPT_PACKET_IN, 18 + len(data), xid) +
          struct.pack("!LHHBx", buffer_id & 0xffffffff, total_len, in_port, reason) + data)


def ethernet_frame(dst, src, ethertype, payload):
  f = bytes(dst) + bytes(src) + struct.pack("!H", ethertype) + payload
  return f + b"\0" * max(0, 60 - len(f))


# ----------------------------------------------------------------- statistics

def match_all(in_port=None):
  """struct ofp_match (40 bytes), everything wildcarded (optionally in_port exact)."""
  w = OFPFW_ALL
  ip = 0
  if in_port is not None:
    w &= ~1
    ip = in_port
  return struct.pack("!LH6s6sHBxHBB2xLLHH", w, ip, b"\0" * 6, b"\0" * 6, 0, 0, 0, 0, 0, 0, 0, 0, 0)


def action_output(port, max_len=0):
  return struct.pack("!HHHH", 0, 8, port, max_len)


def flow_stats_entry(e):
  """struct ofp_flow_stats: length(2) table_id(1) pad(1) match(40) duration_sec(4) duration_nsec(4)
  priority(2) idle_timeout(2) hard_timeout(2) pad(6) cookie(8) packet_count(8) byte_count(8) actions."""
  acts = b"".join(action_output(p) for p in e.get("out", []))
  m = match_all(e.get("in_port"))
  return (struct.pack("!HBx", 88 + len(acts), e.get("table_id", 0)) + m +
          struct.pack("!LLHHH6xQQQ", e.get("duration_sec", 0), e.get("duration_nsec", 0), e.get("priority", 0x8000),
                      e.get("idle_timeout", 0), e.get("hard_timeout", 0), e["cookie"], e.get("packet_count", 0),
                      e.get("byte_count", 0)) + acts)


def table_stats_entry(e):
  """struct ofp_table_stats: table_id(1) pad(3) name(32) wildcards(4) max_entries(4) active_count(4)
  lookup_count(8) matched_count(8)."""
  return (struct.pack("!B3x", e["table_id"]) + _zs(e.get("name", "t"), 32) +
          struct.pack("!LLLQQ", e.get("wildcards", OFPFW_ALL), e.get("max_entries", 0), e.get("active_count", 0),
                      e.get("lookup_count", 0), e.get("matched_count", 0)))


_PORT_STATS_FIELDS = ["rx_packets", "tx_packets", "rx_bytes", "tx_bytes", "rx_dropped", "tx_dropped", "rx_errors",
                      "tx_errors", "rx_frame_err", "rx_over_err", "rx_crc_err", "collisions"]


def port_stats_entry(e):
  """struct ofp_port_stats: port_no(2) pad(6) then twelve 64-bit counters."""
  return struct.pack("!H6x", e["port_no"]) + struct.pack("!12Q", *[e.get(f, 0) for f in _PORT_STATS_FIELDS])


def queue_stats_entry(e):
  """struct ofp_queue_stats: port_no(2) pad(2) queue_id(4) tx_bytes(8) tx_packets(8) tx_errors(8)."""
  return struct.pack("!H2xLQQQ", e.get("port_no", 0), e["queue_id"], e.get("tx_bytes", 0), e.get("tx_packets", 0),
                     e.get("tx_errors", 0))


def desc_stats_body(mfr="m", hw="h", sw="s", serial="1", dp="d"):
  return _zs(mfr, 256) + _zs(hw, 256) + _zs(sw, 256) + _zs(serial, 32) + _zs(dp, 256)


def aggregate_stats_body(packet_count, byte_count, flow_count):
  return struct.pack("!QQL4x", packet_count, byte_count, flow_count)


ENTRY_ENCODERS = {
  OFPST_FLOW: flow_stats_entry, OFPST_TABLE: table_stats_entry,
  OFPST_PORT: port_stats_entry, OFPST_QUEUE: queue_stats_entry,
}


def stats_reply(xid, stype, body, more=False):
  """struct ofp_stats_reply: header, type(2), flags(2; bit 0 = OFPSF_REPLY_MORE), body."""
  flags = OFPSF_REPLY_MORE if more else 0
  return header(OFPT_STATS_REPLY, 12 + len(body), xid) + struct.pack("!HH", stype, flags) + body


def stats_reply_entries(xid, stype, entries, more=False):
  enc = ENTRY_ENCODERS[stype]
  return stats_reply(xid, stype, b"".join(enc(e) for e in entries), more)


def desc_stats_reply(xid, **kw):
  return stats_reply(xid, OFPST_DESC, desc_stats_body(**kw))


def aggregate_stats_reply(xid, packet_count=0, byte_count=0, flow_count=0):
  return stats_reply(xid, OFPST_AGGREGATE, aggregate_stats_body(packet_count, byte_count, flow_count))


# ----------------------------------------------------------------- dissecting what the controller wrote

def split(data):
  """Split a byte string of whole OpenFlow messages into (version, type, xid, bytes) tuples.
  Returns (messages, leftover)."""
  out = []
  off = 0
  n = len(data)
  while n - off >= 8:
    v, t, l, x = struct.unpack_from("!BBHL", data, off)
    if l < 8 or n - off < l:
      break
    out.append((v, t, x, bytes(data[off:off + l])))
    off += l
  return out, bytes(data[off:])


def barrier_request(xid):
  """controller-to-switch; used as the payload of sendToDPID in C09."""
  return header(OFPT_BARRIER_REQUEST, 8, xid)
