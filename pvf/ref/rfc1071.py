"""RFC 1071 Internet checksum, written from the RFC.  Imports nothing from pox.

RFC 1071 section 1: "adjacent octets to be checksummed are paired to form 16-bit integers, and the
1's complement sum of these 16-bit integers is formed"; an odd trailing octet is padded on the right
with zero; carries out of bit 15 are added back in (end-around carry); the checksum is the
complement of the sum.

  ones_sum(data, initial=0)  -> folded 16-bit one's complement sum (not complemented)
  checksum(data, initial=0)  -> complemented sum, the value to place in a zeroed checksum field
  verify(data)               -> True when data (checksum field included) sums to 0xffff
  pseudo4(src4, dst4, proto, length) -> 12-byte IPv4 pseudo header (RFC 768 / RFC 793)
  pseudo6(src16, dst16, nh, length)  -> 40-byte IPv6 pseudo header (RFC 8200 section 8.1)
  udp_value(c)               -> RFC 768: a computed checksum of zero is transmitted as all ones
"""
import struct


def ones_sum(data, initial=0):
  data = bytes(data)
  total = initial
  n = len(data) & ~1
  for i in range(0, n, 2):
    total += (data[i] << 8) | data[i + 1]
  if len(data) & 1:
    total += data[-1] << 8
  while total >> 16:
    total = (total & 0xffff) + (total >> 16)
  return total


def checksum(data, initial=0):
  return (~ones_sum(data, initial)) & 0xffff


def verify(data):
  return ones_sum(data) == 0xffff


def pseudo4(src, dst, proto, length):
  assert len(src) == 4 and len(dst) == 4
  return bytes(src) + bytes(dst) + struct.pack("!BBH", 0, proto, length)


def pseudo6(src, dst, nh, length):
  assert len(src) == 16 and len(dst) == 16
  return bytes(src) + bytes(dst) + struct.pack("!IBBBB", length, 0, 0, 0, nh)


def udp_value(c):
  return 0xffff if c == 0 else c


def l4_checksum4(src, dst, proto, segment):
  """checksum over pseudo header + segment; the checksum field inside segment must be zero"""
  return checksum(pseudo4(src, dst, proto, len(segment)) + bytes(segment))


def l4_checksum6(src, dst, nh, segment):
  return checksum(pseudo6(src, dst, nh, len(segment)) + bytes(segment))
