"""Reference monitor for publish/subscribe event delivery (property C05).

Written from the property statement, not from POX's revent implementation; imports
nothing from pox.

  Whenever an event is raised on a source, every handler subscribed at that moment is
  invoked exactly once, in descending priority and, among equal priorities, in
  subscription order, until a handler halts the event; one-shot handlers and handlers
  that ask to be removed are never invoked again, and subscriptions or removals made by
  handlers during delivery never cause a handler to be skipped or invoked twice. [...]
  a weakly subscribed handler disappears with its owner.

The monitor is driven in lock-step by the harness, which reports what it asks the
system under test to do (subscribe / unsubscribe / begin and end of a raise) and what
the system does (handler invocations and how they end).  It is a *validity predicate*
over the observed run, not a predictor of one run: where the statement is silent an
entry of a delivery is OPTIONAL (may or may not be invoked, at most once):

  * a handler subscribed to the same (source, type) while the delivery is in progress;
  * a one-shot handler that is itself executing when a nested raise begins, and a snapshot entry that
    ended its own subscription (one-shot, remove return value) in a nested delivery of the same event
    type before its turn came ("never invoked again" and "every handler subscribed at that moment"
    pull in opposite directions there);
  * a handler that returned the bare value False earlier (undocumented: POX removes it);
  * everything after a handler ended with an exception, returned bare True
    (undocumented halt) or set event.halt without returning a halting value.

Entries whose weakly-referenced owner has died are FORBIDDEN.  Everything else is
REQUIRED, in (-priority, subscription sequence) order -- in particular a handler of the
snapshot that somebody unsubscribes while the delivery is in progress: it was subscribed
"at that moment", and "removals made by handlers during delivery never cause a handler to
be skipped".  (It is forbidden in every later delivery.)

Violations are collected as (clause, discriminators, message); the monitor then follows
the implementation so that the run can continue behind an already known defect.
"""

LIVE, DEAD, MAYBE = "live", "dead", "maybe"

# return-value protocol, as documented by revent.EventReturn:
#   kind -> (halts, removes) with None meaning "undocumented, outcome not judged"
RET_KINDS = {
  "none": (False, False),
  "cont": (False, False),        # (False, False)  EventContinue
  "halt": (True, False),         # (True, False)   EventHalt
  "remove": (False, True),       # (False, True)   EventRemove
  "haltremove": (True, True),    # (True, True)    EventHaltAndRemove
  "true": (None, False),         # bare True:  undocumented
  "false": (False, None),        # bare False: undocumented
}


class Sub(object):
  __slots__ = ("id", "src", "etype", "handler", "owner", "prio", "once", "weak", "seq",
               "state", "why", "executing", "eid", "strong_ever")

  def __init__(self, id, src, etype, handler, owner, prio, once, weak, seq):
    self.id, self.src, self.etype, self.handler, self.owner = id, src, etype, handler, owner
    self.prio, self.once, self.weak, self.seq = prio, once, weak, seq
    self.state = LIVE
    self.why = None         # why it is dead / maybe
    self.executing = 0
    self.eid = None         # opaque token of the implementation (kept for the harness)

  def __repr__(self):
    return "<sub%d s%d t%d h=%s p=%d%s%s %s%s>" % (
        self.id, self.src, self.etype, self.handler, self.prio, " once" if self.once else "",
        " weak" if self.weak else "", self.state, (":" + self.why) if self.why else "")


class Delivery(object):
  __slots__ = ("id", "src", "etype", "entries", "consumed", "pos", "late", "late_consumed",
               "optional", "removed", "halted", "loose", "aborted", "did_sub", "did_sorting_sub",
               "did_unsub", "invocations", "reentrant_ops", "depth")

  def __init__(self, id, src, etype, entries, depth):
    self.id, self.src, self.etype, self.entries, self.depth = id, src, etype, entries, depth
    self.consumed = [False] * len(entries)
    self.pos = 0
    self.late = []
    self.late_consumed = set()
    self.optional = set()         # sub ids whose invocation in this delivery is not judged
    self.removed = set()          # live sub ids unsubscribed while this delivery was active: still owed
    self.halted = False           # a handler returned a documented halting value
    self.loose = False            # rest of the delivery is not judged (see module doc)
    self.aborted = False          # a handler ended with an exception
    self.did_sub = self.did_sorting_sub = self.did_unsub = False
    self.invocations = 0
    self.reentrant_ops = 0

  def during(self):
    if self.did_sorting_sub:
      return "sub-sorting"
    if self.did_sub:
      return "sub"
    if self.did_unsub:
      return "unsub"
    return "none"


class Monitor(object):
  def __init__(self, declared):
    """declared: list (per source) of sets of declared event-type ids."""
    self.declared = [set(d) for d in declared]
    self.subs = []
    self.seq = 0
    self.stack = []
    self.ndeliveries = 0
    self.violations = []      # (clause, discriminators dict, message)
    self.dead_owners = set()
    self.prioritised = set()  # (src, etype) that ever had a non-default priority
    self.stats = {}

  # ------------------------------------------------------------------ bookkeeping
  def _v(self, clause, msg, **disc):
    self.violations.append((clause, disc, msg))

  def _stat(self, k):
    self.stats[k] = self.stats.get(k, 0) + 1

  def is_declared(self, src, etype):
    return etype in self.declared[src]

  def live_subs(self, src=None):
    return [s for s in self.subs if s.state != DEAD and (src is None or s.src == src)]

  # ------------------------------------------------------------------ subscribe / unsubscribe
  def subscribe(self, src, etype, handler, owner, prio, once, weak):
    self.seq += 1
    s = Sub(len(self.subs), src, etype, handler, owner, prio, once, weak, self.seq)
    self.subs.append(s)
    sorting = prio != 0 or (src, etype) in self.prioritised
    if prio != 0:
      self.prioritised.add((src, etype))
    for d in self.stack:
      if d.src == src and d.etype == etype:
        d.late.append(s)
        d.did_sub = True
        if sorting:
          d.did_sorting_sub = True
    return s

  def select(self, src, handler=None, etype=None):
    """Subscriptions of `src` a by-handler removal refers to."""
    return [s for s in self.subs if s.src == src and s.state != DEAD
            and (handler is None or s.handler == handler) and (etype is None or s.etype == etype)]

  def unsubscribe(self, subs, why):
    for s in subs:
      if s.state == DEAD:
        continue
      was_live = s.state == LIVE
      s.state, s.why = DEAD, why
      for d in self.stack:
        if d.src == s.src and d.etype == s.etype:
          (d.removed if was_live else d.optional).add(s.id)
          d.did_unsub = True

  def owner_dead(self, owner):
    self.dead_owners.add(owner)
    for s in self.subs:
      if s.owner == owner and s.weak and s.state != DEAD:
        s.state, s.why = DEAD, "owner-dropped"

  def revive(self, s):
    """The implementation still holds a subscription the statement says is gone
    (reported by the harness); follow the implementation from here on."""
    s.state, s.why = LIVE, None

  def lose(self, s, why="lost"):
    s.state, s.why = DEAD, why

  # ------------------------------------------------------------------ delivery
  def begin_raise(self, src, etype):
    entries = [s for s in self.subs if s.src == src and s.etype == etype and s.state != DEAD]
    entries.sort(key=lambda s: (-s.prio, s.seq))
    self.ndeliveries += 1
    d = Delivery(self.ndeliveries, src, etype, entries, len(self.stack))
    self.stack.append(d)
    return d

  def top(self):
    return self.stack[-1] if self.stack else None

  def _status(self, d, s):
    """'forbidden' | 'optional' | 'required' for entry s of delivery d, now."""
    if s.weak and s.owner in self.dead_owners:
      return "forbidden"
    if d.loose or d.aborted:
      return "optional"
    if s.id in d.optional:
      return "optional"
    if s.once and s.executing > 0:
      return "optional"         # a one-shot handler that is running right now (nested raise)
    if s.id in d.removed:
      return "required"         # unsubscribed during this delivery: snapshot semantics
    if s.state != LIVE:
      return "optional"
    return "required"

  def invoke(self, d, handler):
    """Handler `handler` has just been entered for delivery d.  Returns the Sub it is
    accounted to (or None)."""
    d.invocations += 1
    if d.halted:
      self._v("invoked-after-halt", "handler %s invoked although an earlier handler of the same delivery "
              "returned a halting value" % (handler,), during=d.during())
    # 1. the snapshot, in order
    j = d.pos
    n = len(d.entries)
    while j < n:
      s = d.entries[j]
      if d.consumed[j]:
        j += 1
        continue
      st = self._status(d, s)
      if s.handler == handler and st != "forbidden":
        d.consumed[j] = True
        d.pos = j + 1
        s.executing += 1
        if st == "optional":
          self._stat("optional-snapshot-entry-invoked")
        return s
      if st == "required":
        break
      j += 1
    # 2. subscribed during this delivery
    for s in d.late:
      if s.id not in d.late_consumed and s.handler == handler and self._status(d, s) != "forbidden":
        d.late_consumed.add(s.id)
        s.executing += 1
        self._stat("late-invoked")
        return s
    # 3. it is a violation; say which
    for j2 in range(n):
      s = d.entries[j2]
      if s.handler != handler:
        continue
      if not d.consumed[j2]:
        if self._status(d, s) == "forbidden":
          self._v("invoked-dead-owner", "weak handler %s invoked after its owner died" % (handler,))
        else:
          self._v("order", "handler %s invoked out of (-priority, subscription) order: expected %s next" % (
              handler, self._expected_next(d)), during=d.during())
        d.consumed[j2] = True
        if j2 >= d.pos:
          d.pos = j2 + 1
        s.executing += 1
        return s
    for j2 in range(n):
      s = d.entries[j2]
      if s.handler == handler:
        self._v("invoked-twice", "handler %s invoked a second time in one delivery (snapshot %s)" % (
            handler, [e.handler for e in d.entries]), during=d.during())
        s.executing += 1
        return s
    for s in d.late:
      if s.handler == handler:
        self._v("invoked-twice", "handler %s, subscribed during the delivery, invoked a second time in it" % (handler,),
                during=d.during(), late=True)
        s.executing += 1
        return s
    # not subscribed at the moment of the raise, not subscribed since
    cand = [s for s in self.subs if s.src == d.src and s.etype == d.etype and s.handler == handler]
    if cand:
      s = cand[-1]
      self._v("invoked-after-removal", "handler %s invoked although its subscription ended earlier (%s)" % (handler, s.why),
              how=s.why)
      s.executing += 1
      return s
    self._v("invoked-never-subscribed", "handler %s invoked for an event of a (source, type) it never subscribed to" % (handler,))
    return None

  def _expected_next(self, d):
    for j in range(d.pos, len(d.entries)):
      if not d.consumed[j] and self._status(d, d.entries[j]) == "required":
        return d.entries[j].handler
    return None

  def returned(self, d, s, ret_kind, set_halt_attr, raised):
    """The invocation accounted to s ended: by returning a value of kind `ret_kind`
    (after possibly setting event.halt) or by raising."""
    if s is not None:
      s.executing -= 1
    if raised:
      d.aborted = True
      if s is not None and s.once and s.state != DEAD:
        s.state, s.why = DEAD, "once-exc"
      return
    halts, removes = RET_KINDS[ret_kind]
    if s is not None and s.state != DEAD:
      if s.once:
        s.state, s.why = DEAD, "once"
      elif removes is True:
        s.state, s.why = DEAD, "ret-remove"
      elif removes is None:
        s.state, s.why = MAYBE, "ret-false"
    if halts is True:
      d.halted = True
    elif halts is None or set_halt_attr:
      d.loose = True

  def end_raise(self, d):
    assert self.stack and self.stack[-1] is d
    self.stack.pop()
    if d.halted or d.loose or d.aborted:
      return
    for j, s in enumerate(d.entries):
      if not d.consumed[j] and self._status(d, s) == "required":
        self._v("skipped", "handler %s was subscribed when the event was raised, nobody halted, and it was not invoked "
                "(snapshot %s)" % (s.handler, [e.handler for e in d.entries]), during=d.during())
