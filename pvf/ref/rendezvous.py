"""Reference monitor for component rendezvous and system lifecycle (property C08).

Written from the property statement; imports nothing from pox.

  For every order in which components are registered and in which interest in named
  components is declared, a dependent's callback (or its dependency-driven listener
  wiring) runs exactly once, never before all the components it names are registered and
  immediately once they are, whether registration or declaration came first and even when
  a callback registers further components or fails.  The system raises going-up then up
  exactly once in that order, up being deferred until every outstanding deferral is
  released, and going-down then down exactly once on quit.

"Immediately" is taken as: by the time the API call that made the declaration complete
(the `register` that supplied the last missing name, or the declaring call itself when
nothing is missing) returns to its caller -- also when that call is nested inside another
dependent's callback.

The harness reports API calls (begin/end), registrations, declarations, observed firings
(with the names actually registered at that instant), deferrals and lifecycle events.
Violations are collected as (clause, discriminators, message).
"""


class Decl(object):
  __slots__ = ("id", "group", "deps", "kind", "fired", "completing", "bound", "broken", "late_reported", "attrs", "tag")

  def __init__(self, id, group, deps, kind, attrs=None):
    self.id, self.group, self.deps, self.kind, self.attrs = id, group, frozenset(deps), kind, attrs
    self.fired = 0
    self.completing = None      # id of the API call that completed it
    self.bound = None           # name -> registration token at completion time
    self.broken = False         # the declaring call failed; nothing is expected of it any more
    self.late_reported = False
    self.tag = "-"              # free discriminator the harness may set (shape of the declaring call)

  def __repr__(self):
    return "<decl%d %s deps=%s fired=%d>" % (self.id, self.group, sorted(self.deps), self.fired)


class Monitor(object):
  LIFECYCLE = ("GoingUpEvent", "UpEvent", "GoingDownEvent", "DownEvent")

  def __init__(self, preregistered=()):
    self.registry = {}
    for n in preregistered:
      self.registry[n] = ("pre", n)
    self.decls = []
    self.calls = 0
    self.open_calls = []
    self.violations = []
    # lifecycle
    self.seen = []                  # lifecycle events in order
    self.goup_begun = self.goup_done = False
    self.in_goingup_delivery = False
    self.outstanding = []           # deferral ids not yet released
    self.deferrals_taken = 0
    self.released_inside_goingup = False
    self.duplicate_releases = 0     # a deferral released again after it had been released
    self.quit_requested = 0
    self.quit_effective = False
    self.stats = {}

  def _v(self, clause, msg, **disc):
    self.violations.append((clause, disc, msg))

  def _stat(self, k):
    self.stats[k] = self.stats.get(k, 0) + 1

  # ------------------------------------------------------------------ rendezvous
  def call_begin(self):
    self.calls += 1
    self.open_calls.append(self.calls)
    return self.calls

  def register(self, call, name, token):
    """`call` (a register call that has just begun) registers `name`."""
    self.registry[name] = token
    for d in self.decls:
      if d.completing is None and not d.broken and d.deps <= set(self.registry):
        self._complete(d, call)

  def declare(self, call, group, deps, kind, attrs=None):
    d = Decl(len(self.decls), group, deps, kind, attrs)
    self.decls.append(d)
    if d.deps <= set(self.registry):
      self._complete(d, call)
    return d

  def _complete(self, d, call):
    d.completing = call
    d.bound = dict((n, self.registry[n]) for n in d.deps)
    if len(self.open_calls) > 1:
      self._stat("completed-inside-callback")

  def fired(self, group, actually_registered):
    """A callback / wiring of `group` ran; `actually_registered` are the component names the
    system has registered at this instant.  Returns the declaration it is accounted to."""
    have = set(actually_registered)
    cands = [d for d in self.decls if d.group == group and not d.broken]
    if not cands:
      self._v("fired-undeclared", "callback %r ran without ever having been declared" % (group,))
      return None
    ok = [d for d in cands if d.fired == 0 and d.deps <= have]
    if ok:
      # a declaring call tries only its own declaration: prefer the one the innermost open call made complete
      inner = self.open_calls[-1] if self.open_calls else None
      mine = [d for d in ok if d.completing == inner]
      d = (mine or ok)[0]
      d.fired = 1
      return d
    unfired = [d for d in cands if d.fired == 0]
    if unfired:
      d = unfired[0]
      d.fired = 1
      self._v("fired-early", "%r ran while %s not registered (registered: %s)" % (
          d, sorted(d.deps - have), sorted(have)), kind=d.kind)
      return d
    d = cands[-1]
    d.fired += 1
    self._v("fired-twice", "%r ran again (%d times now)" % (d, d.fired), kind=d.kind)
    return d

  def call_end(self, call, failed=False):
    """The API call returned.  Everything it completed must have fired by now."""
    assert self.open_calls and self.open_calls[-1] == call, (self.open_calls, call)
    self.open_calls.pop()
    if failed:
      return
    for d in self.decls:
      if d.completing == call and d.fired == 0 and not d.broken and not d.late_reported:
        d.late_reported = True
        self._v("not-fired-immediately", "%r: every named component is registered and the completing call has returned, "
                "but it has not run" % (d,), kind=d.kind, deps=("empty" if not d.deps else "nonempty"), cause=d.tag)

  # ------------------------------------------------------------------ lifecycle
  def goup_begin(self):
    self.goup_begun = True

  def goup_end(self):
    self.goup_done = True

  def deferral_taken(self, did):
    self.outstanding.append(did)
    self.deferrals_taken += 1

  def deferral_released(self, did):
    self.outstanding.remove(did)
    if self.in_goingup_delivery:
      self.released_inside_goingup = True

  def deferral_rereleased(self, did):
    """An already released deferral is released again.  The statement does not say whether that is refused
    or ignored; it changes nothing about what is outstanding, so Up stays owed exactly once."""
    assert did not in self.outstanding
    self.duplicate_releases += 1

  def quit_attempt(self):
    """quit's worker is about to run.  Returns True when it is expected to shut the system down."""
    self.quit_requested += 1
    if self.goup_begun and not self.quit_effective:
      self.quit_effective = True
      return True
    return False

  def lifecycle(self, ev):
    n = self.seen.count(ev)
    self.seen.append(ev)
    when = ("duplicate-release" if self.duplicate_releases else
            "release-inside-goingup" if self.released_inside_goingup else "other")
    if n >= 1:
      self._v("lifecycle-twice", "%s raised %d times (sequence %s)" % (ev, n + 1, self.seen), event=ev, when=when)
    if ev == "GoingUpEvent":
      if not self.goup_begun:
        self._v("lifecycle-unexpected", "GoingUpEvent raised without goUp", event=ev)
    elif ev == "UpEvent":
      if "GoingUpEvent" not in self.seen:
        self._v("lifecycle-order", "UpEvent before GoingUpEvent", event=ev)
      if self.outstanding:
        self._v("up-before-release", "UpEvent raised while %d deferral(s) are outstanding" % len(self.outstanding))
    elif ev == "GoingDownEvent":
      if not self.quit_effective:
        self._v("lifecycle-unexpected", "GoingDownEvent raised without an effective quit", event=ev)
    elif ev == "DownEvent":
      if "GoingDownEvent" not in self.seen[:-1]:
        self._v("lifecycle-order", "DownEvent before GoingDownEvent", event=ev)
      if not self.quit_effective:
        self._v("lifecycle-unexpected", "DownEvent raised without an effective quit", event=ev)

  def check_settled(self):
    """At a point where no API call is in progress."""
    if self.goup_done and not self.outstanding and "UpEvent" not in self.seen and "up-missing" not in self.stats:
      self._stat("up-missing")
      self._v("up-missing", "goUp has returned and no deferral is outstanding (%d taken), but UpEvent was not raised" % self.deferrals_taken)
    if self.quit_effective and "down-missing" not in self.stats:
      for ev in ("GoingDownEvent", "DownEvent"):
        if ev not in self.seen:
          self._stat("down-missing")
          self._v("down-missing", "quit has run after goUp but %s was not raised (sequence %s)" % (ev, self.seen), event=ev)
