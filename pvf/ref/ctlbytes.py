"""Byte-level OpenFlow 1.0 codec for the controller side of a switch connection.

Written with `struct` from the OpenFlow 1.0.0 specification (openflow.h, wire protocol 0x01).
Imports nothing from pox.

* encoders for every controller-to-switch message (hello, echo request/reply, vendor,
  features request, get-config request, set-config, packet-out, flow-mod, port-mod,
  stats request (desc, flow, aggregate, table, port, queue, vendor), barrier request,
  queue-get-config request) -- every field can be set to an invalid value, bodies can be raw;
* a framer (`split`) and a decoder (`decode`) for what a switch sends: hello, error,
  echo request/reply, features reply, get-config reply, packet-in, flow-removed, port-status,
  stats reply (all bodies), barrier reply, queue-get-config reply.

A decoded message is a plain dict with at least: version, type, name, length, xid, raw.
`DecodeError` is raised when the bytes are not a well-formed message of their declared type.
"""
import struct

OFP_VERSION = 0x01

# -- message types (ofp_type)
OFPT_HELLO = 0
OFPT_ERROR = 1
OFPT_ECHO_REQUEST = 2
OFPT_ECHO_REPLY = 3
OFPT_VENDOR = 4
OFPT_FEATURES_REQUEST = 5
OFPT_FEATURES_REPLY = 6
OFPT_GET_CONFIG_REQUEST = 7
OFPT_GET_CONFIG_REPLY = 8
OFPT_SET_CONFIG = 9
OFPT_PACKET_IN = 10
OFPT_FLOW_REMOVED = 11
OFPT_PORT_STATUS = 12
OFPT_PACKET_OUT = 13
OFPT_FLOW_MOD = 14
OFPT_PORT_MOD = 15
OFPT_STATS_REQUEST = 16
OFPT_STATS_REPLY = 17
OFPT_BARRIER_REQUEST = 18
OFPT_BARRIER_REPLY = 19
OFPT_QUEUE_GET_CONFIG_REQUEST = 20
OFPT_QUEUE_GET_CONFIG_REPLY = 21

TYPE_NAMES = {
  0: "hello", 1: "error", 2: "echo_request", 3: "echo_reply", 4: "vendor", 5: "features_request",
  6: "features_reply", 7: "get_config_request", 8: "get_config_reply", 9: "set_config", 10: "packet_in",
  11: "flow_removed", 12: "port_status", 13: "packet_out", 14: "flow_mod", 15: "port_mod",
  16: "stats_request", 17: "stats_reply", 18: "barrier_request", 19: "barrier_reply",
  20: "queue_get_config_request", 21: "queue_get_config_reply",
}

# -- ports
OFPP_MAX = 0xff00
OFPP_IN_PORT = 0xfff8
OFPP_TABLE = 0xfff9
OFPP_NORMAL = 0xfffa
OFPP_FLOOD = 0xfffb
OFPP_ALL = 0xfffc
OFPP_CONTROLLER = 0xfffd
OFPP_LOCAL = 0xfffe
OFPP_NONE = 0xffff

NO_BUFFER = 0xffffffff
OFPQ_ALL = 0xffffffff

# -- port config / state
OFPPC_PORT_DOWN = 1 << 0
OFPPC_NO_STP = 1 << 1
OFPPC_NO_RECV = 1 << 2
OFPPC_NO_RECV_STP = 1 << 3
OFPPC_NO_FLOOD = 1 << 4
OFPPC_NO_FWD = 1 << 5
OFPPC_NO_PACKET_IN = 1 << 6
OFPPS_LINK_DOWN = 1 << 0

# -- flow mod
OFPFC_ADD = 0
OFPFC_MODIFY = 1
OFPFC_MODIFY_STRICT = 2
OFPFC_DELETE = 3
OFPFC_DELETE_STRICT = 4
OFPFF_SEND_FLOW_REM = 1
OFPFF_CHECK_OVERLAP = 2
OFPFF_EMERG = 4

# -- wildcards
OFPFW_IN_PORT = 1 << 0
OFPFW_DL_VLAN = 1 << 1
OFPFW_DL_SRC = 1 << 2
OFPFW_DL_DST = 1 << 3
OFPFW_DL_TYPE = 1 << 4
OFPFW_NW_PROTO = 1 << 5
OFPFW_TP_SRC = 1 << 6
OFPFW_TP_DST = 1 << 7
OFPFW_NW_SRC_SHIFT = 8
OFPFW_NW_SRC_MASK = 0x3f << 8
OFPFW_NW_DST_SHIFT = 14
OFPFW_NW_DST_MASK = 0x3f << 14
OFPFW_DL_VLAN_PCP = 1 << 20
OFPFW_NW_TOS = 1 << 21
OFPFW_ALL = (1 << 22) - 1

# -- stats types
OFPST_DESC = 0
OFPST_FLOW = 1
OFPST_AGGREGATE = 2
OFPST_TABLE = 3
OFPST_PORT = 4
OFPST_QUEUE = 5
OFPST_VENDOR = 0xffff
STATS_NAMES = {0: "desc", 1: "flow", 2: "aggregate", 3: "table", 4: "port", 5: "queue", 0xffff: "vendor"}

# -- packet-in reasons
OFPR_NO_MATCH = 0
OFPR_ACTION = 1

# -- errors
OFPET_HELLO_FAILED = 0
OFPET_BAD_REQUEST = 1
OFPET_BAD_ACTION = 2
OFPET_FLOW_MOD_FAILED = 3
OFPET_PORT_MOD_FAILED = 4
OFPET_QUEUE_OP_FAILED = 5

OFPBRC_BAD_VERSION = 0
OFPBRC_BAD_TYPE = 1
OFPBRC_BAD_STAT = 2
OFPBRC_BAD_VENDOR = 3
OFPBRC_BAD_SUBTYPE = 4
OFPBRC_EPERM = 5
OFPBRC_BAD_LEN = 6
OFPBRC_BUFFER_EMPTY = 7
OFPBRC_BUFFER_UNKNOWN = 8

OFPBAC_BAD_TYPE = 0
OFPBAC_BAD_LEN = 1
OFPBAC_BAD_VENDOR = 2
OFPBAC_BAD_VENDOR_TYPE = 3
OFPBAC_BAD_OUT_PORT = 4
OFPBAC_BAD_ARGUMENT = 5
OFPBAC_EPERM = 6
OFPBAC_TOO_MANY = 7
OFPBAC_BAD_QUEUE = 8

OFPFMFC_ALL_TABLES_FULL = 0
OFPFMFC_OVERLAP = 1
OFPFMFC_EPERM = 2
OFPFMFC_BAD_EMERG_TIMEOUT = 3
OFPFMFC_BAD_COMMAND = 4
OFPFMFC_UNSUPPORTED = 5

OFPPMFC_BAD_PORT = 0
OFPPMFC_BAD_HW_ADDR = 1

OFPQOFC_BAD_PORT = 0
OFPQOFC_BAD_QUEUE = 1
OFPQOFC_EPERM = 2

# -- action types
OFPAT_OUTPUT = 0
OFPAT_SET_VLAN_VID = 1
OFPAT_SET_VLAN_PCP = 2
OFPAT_STRIP_VLAN = 3
OFPAT_SET_DL_SRC = 4
OFPAT_SET_DL_DST = 5
OFPAT_SET_NW_SRC = 6
OFPAT_SET_NW_DST = 7
OFPAT_SET_NW_TOS = 8
OFPAT_SET_TP_SRC = 9
OFPAT_SET_TP_DST = 10
OFPAT_ENQUEUE = 11
OFPAT_VENDOR = 0xffff


class DecodeError(Exception):
  pass


# ===========================================================================
# encoders

def header(mtype, length, xid, version=OFP_VERSION):
  return struct.pack("!BBHL", version & 0xff, mtype & 0xff, length & 0xffff, xid & 0xffffffff)


def message(mtype, xid, body=b"", version=OFP_VERSION, length=None):
  """A message with the given body; `length` overrides the header's length field."""
  n = 8 + len(body) if length is None else length
  return header(mtype, n, xid, version) + body


def hello(xid, body=b""):
  return message(OFPT_HELLO, xid, body)


def echo_request(xid, data=b""):
  return message(OFPT_ECHO_REQUEST, xid, data)


def echo_reply(xid, data=b""):
  return message(OFPT_ECHO_REPLY, xid, data)


def vendor(xid, vendor_id, data=b""):
  return message(OFPT_VENDOR, xid, struct.pack("!L", vendor_id & 0xffffffff) + data)


def features_request(xid):
  return message(OFPT_FEATURES_REQUEST, xid)


def get_config_request(xid):
  return message(OFPT_GET_CONFIG_REQUEST, xid)


def barrier_request(xid):
  return message(OFPT_BARRIER_REQUEST, xid)


def set_config(xid, flags, miss_send_len):
  return message(OFPT_SET_CONFIG, xid, struct.pack("!HH", flags & 0xffff, miss_send_len & 0xffff))


def match(wildcards=OFPFW_ALL, in_port=0, dl_src=b"\0" * 6, dl_dst=b"\0" * 6, dl_vlan=0, dl_vlan_pcp=0,
          dl_type=0, nw_tos=0, nw_proto=0, nw_src=0, nw_dst=0, tp_src=0, tp_dst=0):
  """struct ofp_match, 40 bytes."""
  return struct.pack("!LH6s6sHBxHBB2xLLHH", wildcards & 0xffffffff, in_port & 0xffff, bytes(dl_src), bytes(dl_dst),
                     dl_vlan & 0xffff, dl_vlan_pcp & 0xff, dl_type & 0xffff, nw_tos & 0xff, nw_proto & 0xff,
                     nw_src & 0xffffffff, nw_dst & 0xffffffff, tp_src & 0xffff, tp_dst & 0xffff)


def action_output(port, max_len=0):
  return struct.pack("!HHHH", OFPAT_OUTPUT, 8, port & 0xffff, max_len & 0xffff)


def action_enqueue(port, queue_id):
  return struct.pack("!HHH6xL", OFPAT_ENQUEUE, 16, port & 0xffff, queue_id & 0xffffffff)


def action_strip_vlan():
  return struct.pack("!HH4x", OFPAT_STRIP_VLAN, 8)


def action_set_dl(which, addr):
  return struct.pack("!HH6s6x", which, 16, bytes(addr))


def action_vendor(vendor_id, body=b""):
  return struct.pack("!HHL", OFPAT_VENDOR, 8 + len(body), vendor_id & 0xffffffff) + body


def action_raw(atype, body=b"\0\0\0\0", length=None):
  n = 4 + len(body) if length is None else length
  return struct.pack("!HH", atype & 0xffff, n & 0xffff) + body


def flow_mod(xid, match_bytes, cookie=0, command=OFPFC_ADD, idle_timeout=0, hard_timeout=0, priority=0x8000,
             buffer_id=NO_BUFFER, out_port=OFPP_NONE, flags=0, actions=b""):
  body = match_bytes + struct.pack("!QHHHHLHH", cookie & 0xffffffffffffffff, command & 0xffff, idle_timeout & 0xffff,
                                   hard_timeout & 0xffff, priority & 0xffff, buffer_id & 0xffffffff,
                                   out_port & 0xffff, flags & 0xffff) + actions
  return message(OFPT_FLOW_MOD, xid, body)


def port_mod(xid, port_no, hw_addr, config=0, mask=0, advertise=0):
  return message(OFPT_PORT_MOD, xid, struct.pack("!H6sLLL4x", port_no & 0xffff, bytes(hw_addr), config & 0xffffffff,
                                                 mask & 0xffffffff, advertise & 0xffffffff))


def packet_out(xid, buffer_id=NO_BUFFER, in_port=OFPP_NONE, actions=b"", data=b"", actions_len=None):
  n = len(actions) if actions_len is None else actions_len
  return message(OFPT_PACKET_OUT, xid, struct.pack("!LHH", buffer_id & 0xffffffff, in_port & 0xffff, n & 0xffff) + actions + data)


def stats_request(xid, stype, body=b"", flags=0):
  return message(OFPT_STATS_REQUEST, xid, struct.pack("!HH", stype & 0xffff, flags & 0xffff) + body)


def flow_stats_request_body(match_bytes, table_id=0xff, out_port=OFPP_NONE):
  """body of OFPST_FLOW and OFPST_AGGREGATE requests, 44 bytes."""
  return match_bytes + struct.pack("!BxH", table_id & 0xff, out_port & 0xffff)


def port_stats_request_body(port_no=OFPP_NONE):
  return struct.pack("!H6x", port_no & 0xffff)


def queue_stats_request_body(port_no=OFPP_ALL, queue_id=OFPQ_ALL):
  return struct.pack("!H2xL", port_no & 0xffff, queue_id & 0xffffffff)


def vendor_stats_request_body(vendor_id, data=b""):
  return struct.pack("!L", vendor_id & 0xffffffff) + data


def queue_get_config_request(xid, port):
  return message(OFPT_QUEUE_GET_CONFIG_REQUEST, xid, struct.pack("!H2x", port & 0xffff))


# ===========================================================================
# framing and decoding of what the switch sends

def split(stream):
  """Cut a byte stream into messages by the header's length field.
  Returns (list of message bytes, unconsumed remainder).  Raises DecodeError on a length < 8."""
  out = []
  off = 0
  n = len(stream)
  while n - off >= 8:
    length = struct.unpack_from("!H", stream, off + 2)[0]
    if length < 8:
      raise DecodeError("message at stream offset %d declares length %d (< 8): %s" % (off, length, bytes(stream[off:off + 16]).hex()))
    if n - off < length:
      break
    out.append(bytes(stream[off:off + length]))
    off += length
  return out, bytes(stream[off:])


def _zs(b, what):
  """A fixed-width NUL-padded ASCII string field."""
  i = b.find(b"\0")
  if i < 0:
    raise DecodeError("%s is not NUL-terminated within its %d bytes" % (what, len(b)))
  s = b[:i]
  for ch in s:
    if ch < 0x20 or ch > 0x7e:
      raise DecodeError("%s contains the non-printable byte 0x%02x" % (what, ch))
  return s.decode("ascii")


def decode_match(b):
  if len(b) != 40:
    raise DecodeError("ofp_match needs 40 bytes, got %d" % len(b))
  (wc, in_port, dl_src, dl_dst, dl_vlan, pcp, dl_type, tos, proto, nw_src, nw_dst, tp_src, tp_dst) = \
      struct.unpack("!LH6s6sHBxHBB2xLLHH", b)
  return {"wildcards": wc, "in_port": in_port, "dl_src": dl_src, "dl_dst": dl_dst, "dl_vlan": dl_vlan,
          "dl_vlan_pcp": pcp, "dl_type": dl_type, "nw_tos": tos, "nw_proto": proto, "nw_src": nw_src,
          "nw_dst": nw_dst, "tp_src": tp_src, "tp_dst": tp_dst}


def decode_phy_port(b):
  if len(b) != 48:
    raise DecodeError("ofp_phy_port needs 48 bytes, got %d" % len(b))
  port_no, hw, name, config, state, curr, adv, sup, peer = struct.unpack("!H6s16sLLLLLL", b)
  return {"port_no": port_no, "hw_addr": hw, "name": _zs(name, "port name"), "config": config, "state": state,
          "curr": curr, "advertised": adv, "supported": sup, "peer": peer}


def decode_actions(b):
  """List of (type, body bytes) ; validates the length fields."""
  out = []
  off = 0
  while off < len(b):
    if len(b) - off < 4:
      raise DecodeError("truncated action header at offset %d" % off)
    t, l = struct.unpack_from("!HH", b, off)
    if l < 8 or l % 8 or off + l > len(b):
      raise DecodeError("action type %d at offset %d has bad length %d (remaining %d)" % (t, off, l, len(b) - off))
    out.append({"type": t, "len": l, "raw": bytes(b[off:off + l])})
    off += l
  return out


def _list_of(b, size, fn, what):
  if len(b) % size:
    raise DecodeError("%s body of %d bytes is not a multiple of the %d-byte entry" % (what, len(b), size))
  return [fn(b[i:i + size]) for i in range(0, len(b), size)]


def _dec_table_stats(b):
  table_id, name, wc, max_entries, active, lookup, matched = struct.unpack("!B3x32sLLLQQ", b)
  return {"table_id": table_id, "name": _zs(name, "table name"), "wildcards": wc, "max_entries": max_entries,
          "active_count": active, "lookup_count": lookup, "matched_count": matched}


_PORT_STATS_FIELDS = ["rx_packets", "tx_packets", "rx_bytes", "tx_bytes", "rx_dropped", "tx_dropped", "rx_errors",
                      "tx_errors", "rx_frame_err", "rx_over_err", "rx_crc_err", "collisions"]


def _dec_port_stats(b):
  v = struct.unpack("!H6x12Q", b)
  d = {"port_no": v[0]}
  for k, x in zip(_PORT_STATS_FIELDS, v[1:]):
    d[k] = x
  return d


def _dec_queue_stats(b):
  port_no, queue_id, tx_bytes, tx_packets, tx_errors = struct.unpack("!H2xLQQQ", b)
  return {"port_no": port_no, "queue_id": queue_id, "tx_bytes": tx_bytes, "tx_packets": tx_packets, "tx_errors": tx_errors}


def _dec_flow_stats_list(b):
  out = []
  off = 0
  while off < len(b):
    if len(b) - off < 88:
      raise DecodeError("flow stats entry at offset %d truncated: %d bytes left, 88 needed" % (off, len(b) - off))
    length, table_id = struct.unpack_from("!HBx", b, off)
    if length < 88 or off + length > len(b):
      raise DecodeError("flow stats entry at offset %d has bad length %d (remaining %d)" % (off, length, len(b) - off))
    m = decode_match(b[off + 4:off + 44])
    (dsec, dnsec, prio, idle, hard, cookie, pkts, byts) = struct.unpack_from("!LLHHH6xQQQ", b, off + 44)
    acts = decode_actions(b[off + 88:off + length])
    out.append({"length": length, "table_id": table_id, "match": m, "match_raw": bytes(b[off + 4:off + 44]),
                "duration_sec": dsec, "duration_nsec": dnsec, "priority": prio, "idle_timeout": idle,
                "hard_timeout": hard, "cookie": cookie, "packet_count": pkts, "byte_count": byts,
                "actions": acts, "actions_raw": bytes(b[off + 88:off + length])})
    off += length
  return out


def decode_stats_body(stype, b):
  if stype == OFPST_DESC:
    if len(b) != 1056:
      raise DecodeError("desc stats body must be 1056 bytes, got %d" % len(b))
    return {"mfr_desc": _zs(b[0:256], "mfr_desc"), "hw_desc": _zs(b[256:512], "hw_desc"),
            "sw_desc": _zs(b[512:768], "sw_desc"), "serial_num": _zs(b[768:800], "serial_num"),
            "dp_desc": _zs(b[800:1056], "dp_desc")}
  if stype == OFPST_FLOW:
    return _dec_flow_stats_list(b)
  if stype == OFPST_AGGREGATE:
    if len(b) != 24:
      raise DecodeError("aggregate stats body must be 24 bytes, got %d" % len(b))
    p, by, n = struct.unpack("!QQL4x", b)
    return {"packet_count": p, "byte_count": by, "flow_count": n}
  if stype == OFPST_TABLE:
    return _list_of(b, 64, _dec_table_stats, "table stats")
  if stype == OFPST_PORT:
    return _list_of(b, 104, _dec_port_stats, "port stats")
  if stype == OFPST_QUEUE:
    return _list_of(b, 32, _dec_queue_stats, "queue stats")
  if stype == OFPST_VENDOR:
    if len(b) < 4:
      raise DecodeError("vendor stats body shorter than the vendor id")
    return {"vendor": struct.unpack("!L", b[:4])[0], "data": bytes(b[4:])}
  raise DecodeError("stats reply of unknown type %d" % stype)


def _dec_queues(b):
  out = []
  off = 0
  while off < len(b):
    if len(b) - off < 8:
      raise DecodeError("truncated ofp_packet_queue")
    qid, l = struct.unpack_from("!LH2x", b, off)
    if l < 8 or off + l > len(b):
      raise DecodeError("ofp_packet_queue with bad length %d" % l)
    props = []
    p = off + 8
    while p < off + l:
      if off + l - p < 8:
        raise DecodeError("truncated queue property")
      pt, pl = struct.unpack_from("!HH4x", b, p)
      if pl < 8 or p + pl > off + l:
        raise DecodeError("queue property with bad length %d" % pl)
      props.append({"property": pt, "len": pl, "raw": bytes(b[p:p + pl])})
      p += pl
    out.append({"queue_id": qid, "len": l, "properties": props})
    off += l
  return out


def decode(raw):
  """Decode one message sent by a switch."""
  if len(raw) < 8:
    raise DecodeError("message shorter than a header: %s" % bytes(raw).hex())
  version, mtype, length, xid = struct.unpack("!BBHL", raw[:8])
  if length != len(raw):
    raise DecodeError("header length %d but %d bytes given" % (length, len(raw)))
  d = {"version": version, "type": mtype, "name": TYPE_NAMES.get(mtype, "type%d" % mtype), "length": length,
       "xid": xid, "raw": bytes(raw)}
  body = raw[8:]
  if version != OFP_VERSION:
    raise DecodeError("message with version 0x%02x" % version)

  def need(n, exact=True):
    if (len(body) != n) if exact else (len(body) < n):
      raise DecodeError("%s with a %d-byte body, expected %s%d" % (d["name"], len(body), "" if exact else ">= ", n))

  if mtype in (OFPT_HELLO, OFPT_ECHO_REQUEST, OFPT_ECHO_REPLY):
    d["body"] = bytes(body)
  elif mtype == OFPT_ERROR:
    need(4, False)
    d["etype"], d["code"] = struct.unpack("!HH", body[:4])
    d["data"] = bytes(body[4:])
  elif mtype == OFPT_FEATURES_REPLY:
    need(24, False)
    (d["datapath_id"], d["n_buffers"], d["n_tables"], d["capabilities"], d["actions"]) = struct.unpack("!QLB3xLL", body[:24])
    d["ports"] = _list_of(body[24:], 48, decode_phy_port, "features reply port list")
  elif mtype == OFPT_GET_CONFIG_REPLY:
    need(4)
    d["flags"], d["miss_send_len"] = struct.unpack("!HH", body)
  elif mtype == OFPT_PACKET_IN:
    need(10, False)
    d["buffer_id"], d["total_len"], d["in_port"], d["reason"] = struct.unpack("!LHHBx", body[:10])
    d["data"] = bytes(body[10:])
  elif mtype == OFPT_FLOW_REMOVED:
    need(80)
    d["match"] = decode_match(body[:40])
    (d["cookie"], d["priority"], d["reason"], d["duration_sec"], d["duration_nsec"], d["idle_timeout"],
     d["packet_count"], d["byte_count"]) = struct.unpack("!QHBxLLH2xQQ", body[40:])
  elif mtype == OFPT_PORT_STATUS:
    need(56)
    d["reason"] = body[0]
    d["desc"] = decode_phy_port(body[8:])
  elif mtype == OFPT_STATS_REPLY:
    need(4, False)
    d["stype"], d["flags"] = struct.unpack("!HH", body[:4])
    d["sname"] = STATS_NAMES.get(d["stype"], "stats%d" % d["stype"])
    d["body_raw"] = bytes(body[4:])
    d["body"] = decode_stats_body(d["stype"], body[4:])
  elif mtype == OFPT_BARRIER_REPLY:
    need(0)
  elif mtype == OFPT_QUEUE_GET_CONFIG_REPLY:
    need(8, False)
    d["port"] = struct.unpack("!H6x", body[:8])[0]
    d["queues"] = _dec_queues(body[8:])
  elif mtype == OFPT_VENDOR:
    need(4, False)
    d["vendor"] = struct.unpack("!L", body[:4])[0]
    d["data"] = bytes(body[4:])
  else:
    raise DecodeError("a switch must not send message type %d (%s)" % (mtype, d["name"]))
  return d


def decode_stream(stream):
  """(list of decoded messages, remainder)."""
  raws, rest = split(stream)
  return [decode(r) for r in raws], rest
