"""Graph predicates for C19: bidirectional-link graph, forest / spanning checks, flood simulation.

Imports nothing from pox.  A directed link is a tuple (dpid1, port1, dpid2, port2): probes sent by dpid1 out of
port1 arrive at dpid2 on port2.
"""


class DSU(object):
  def __init__(self, items=()):
    self.p = {}
    for i in items:
      self.p[i] = i

  def find(self, x):
    self.p.setdefault(x, x)
    r = x
    while self.p[r] != r:
      r = self.p[r]
    while self.p[x] != r:
      self.p[x], x = r, self.p[x]
    return r

  def union(self, a, b):
    ra, rb = self.find(a), self.find(b)
    if ra == rb:
      return False
    self.p[ra] = rb
    return True

  def classes(self):
    out = {}
    for x in list(self.p):
      out.setdefault(self.find(x), set()).add(x)
    return sorted((sorted(c) for c in out.values()))


def bidirectional(links):
  """Undirected edges {((d1,p1),(d2,p2))} (ends sorted) for which both directions are in `links`."""
  s = set(tuple(l) for l in links)
  out = set()
  for (a, ap, b, bp) in s:
    if (b, bp, a, ap) in s and a != b:
      out.add(tuple(sorted(((a, ap), (b, bp)))))
  return out


def components(nodes, edges):
  """Connected components (sorted lists) of the undirected graph on `nodes` with edges ((a,ap),(b,bp))."""
  d = DSU(nodes)
  for (a, _), (b, _) in edges:
    d.union(a, b)
  return d.classes()


def link_ports(links):
  """Every (dpid, port) that is an endpoint of some directed link."""
  out = set()
  for (a, ap, b, bp) in links:
    out.add((a, ap))
    out.add((b, bp))
  return out


def check_tree(links, tree):
  """`tree`: {dpid: iterable of (neighbour dpid, local port)}.  Returns a list of (clause, message).

  Valid iff: every entry is one end of a bidirectional link whose other end is listed at the neighbour
  (symmetric, only bidirectional links), at most one link per pair, no cycle, and the tree's components are
  exactly the components of the bidirectional-link graph."""
  v = []
  s = set(tuple(l) for l in links)
  bi = bidirectional(s)
  nodes = set()
  for (a, _, b, _) in s:
    nodes.add(a)
    nodes.add(b)
  ent = {}
  for d, es in tree.items():
    for (w, p) in es:
      ent.setdefault((d, w), []).append(p)
  edges = set()
  for (d, w), ps in sorted(ent.items()):
    if len(ps) > 1:
      v.append(("tree-parallel", "switch %r reaches %r over ports %r" % (d, w, sorted(ps))))
    back = ent.get((w, d))
    if not back:
      v.append(("tree-asymmetric", "%r lists %r (port %r) but %r does not list %r" % (d, w, ps[0], w, d)))
      continue
    p, q = ps[0], back[0]
    e = tuple(sorted(((d, p), (w, q))))
    if e not in bi:
      v.append(("tree-not-bidirectional", "tree uses %r.%r <-> %r.%r which is not a link seen in both directions" % (d, p, w, q)))
      continue
    edges.add(e)
  dsu = DSU(nodes)
  for (a, _), (b, _) in sorted(edges):
    if not dsu.union(a, b):
      v.append(("tree-cycle", "tree edge %r - %r closes a cycle" % (a, b)))
  want = components(nodes, bi)
  got = dsu.classes()
  if got != want:
    v.append(("tree-not-spanning", "components of the bidirectional links %r, components of the tree %r" % (want, got)))
  return v


def flood(start, in_port, ports, no_flood, cables, limit=10000):
  """Simulate OFPP_FLOOD hop by hop.

  ports: {dpid: [port...]}, no_flood: set of (dpid, port) with flooding disabled,
  cables: {(dpid, port): (peer dpid, peer port)} live directed cables.
  A frame enters `start` on `in_port`; every switch that receives it sends it out all of its ports except the
  ingress port and those with flooding disabled.  Returns ({dpid: times received}, terminated)."""
  recv = {}
  q = [(start, in_port)]
  n = 0
  while q:
    d, ip = q.pop(0)
    recv[d] = recv.get(d, 0) + 1
    n += 1
    if n > limit:
      return recv, False
    for p in ports.get(d, ()):
      if p == ip or (d, p) in no_flood:
        continue
      peer = cables.get((d, p))
      if peer is not None:
        q.append(peer)
  return recv, True
