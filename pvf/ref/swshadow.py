"""Shadow models of an OpenFlow 1.0 switch, as far as they are needed to predict what the
switch must say to its controller.  Written from the OpenFlow 1.0.0 specification; imports
nothing from pox.

BufferPool   -- the packet-buffer contract (property C18)
SwitchShadow -- config, ports, flow table and counters behind the replies (property C13)
"""
import struct

from . import ctlbytes as cb


# ===========================================================================
# C18: packet buffers

class BufferPool(object):
  """id -> (frame bytes, in_port) of buffers handed to the controller and not yet used."""

  def __init__(self, max_buffers):
    self.max = max_buffers
    self.out = {}            # outstanding
    self.released = []       # ids used at least once, oldest first, without duplicates
    self.ever = set()        # every id ever issued
    self.reissued = 0        # how often a released id was handed out again
    self.peak = 0
    self.limbo = {}          # ids named by a message the switch refused without any visible effect: kept or consumed

  def outstanding(self):
    return sorted(self.out)

  def suspend(self, bid):
    """the message that named the id was refused and nothing was emitted: the switch may have kept the packet"""
    self.limbo[bid] = self.out.pop(bid)

  def settle(self, bid):
    """a limbo id turned out to be (or is from now on) consumed"""
    self.limbo.pop(bid, None)
    if bid in self.released:
      self.released.remove(bid)
    self.released.append(bid)

  def store(self, bid, frame, in_port):
    self.limbo.pop(bid, None)
    if bid in self.released:
      self.released.remove(bid)
      self.reissued += 1
    self.out[bid] = (bytes(frame), in_port)
    self.ever.add(bid)
    self.peak = max(self.peak, len(self.out))

  def release(self, bid):
    del self.out[bid]
    if bid in self.released:
      self.released.remove(bid)
    self.released.append(bid)

  def forget(self, bid):
    """the id may or may not have been consumed: never refer to it again"""
    self.out.pop(bid, None)
    if bid in self.released:
      self.released.remove(bid)
    self.ever.add(bid)

  def stale(self):
    """released ids that are not outstanding again"""
    return [b for b in self.released if b not in self.out]


def set_dl_dst(frame, mac):
  return bytes(mac) + frame[6:]


def set_vlan_vid(frame, vid):
  """OF 1.0 OFPAT_SET_VLAN_VID: rewrite the VLAN id of a tagged frame; an untagged frame gets a new
  802.1Q header with that id and priority 0."""
  if frame[12:14] == b"\x81\x00":
    tci = struct.unpack("!H", frame[14:16])[0]
    return frame[:14] + struct.pack("!H", (tci & 0xf000) | (vid & 0x0fff)) + frame[16:]
  return frame[:12] + b"\x81\x00" + struct.pack("!H", vid & 0x0fff) + frame[12:]


def set_vlan_pcp(frame, pcp):
  """OF 1.0 OFPAT_SET_VLAN_PCP: rewrite the priority of a tagged frame; an untagged frame gets a new
  802.1Q header with that priority and VLAN id 0."""
  if frame[12:14] == b"\x81\x00":
    tci = struct.unpack("!H", frame[14:16])[0]
    return frame[:14] + struct.pack("!H", (tci & 0x1fff) | ((pcp & 7) << 13)) + frame[16:]
  return frame[:12] + b"\x81\x00" + struct.pack("!H", (pcp & 7) << 13) + frame[12:]


def expected_outputs(actions, frame, in_port, ports):
  """What a list of output actions, possibly preceded by simple header rewrites, does with a frame that
  came in on in_port.
  actions: list of ("port", n) | ("in_port",) | ("flood",) | ("all",) | ("ctl", max_len)
           | ("set_dl_dst", mac bytes) | ("set_vlan_vid", vid) | ("set_vlan_pcp", pcp)
  Returns (sorted list of (port, frame) emissions, list of (max_len, frame as it is at that action) for
  packet-ins).  Actions apply in order, each output sees the rewrites before it (OF 1.0 section 3.3).
  A packet is not sent back out of its ingress port unless OFPP_IN_PORT is named explicitly;
  FLOOD and ALL exclude the ingress port."""
  emits = []
  ctl = []
  for a in actions:
    k = a[0]
    if k == "port":
      if a[1] in ports and a[1] != in_port:
        emits.append((a[1], frame))
    elif k == "in_port":
      if in_port in ports:
        emits.append((in_port, frame))
    elif k in ("flood", "all"):
      for p in ports:
        if p != in_port:
          emits.append((p, frame))
    elif k == "ctl":
      ctl.append((a[1], frame))
    elif k == "set_dl_dst":
      frame = set_dl_dst(frame, a[1])
    elif k == "set_vlan_vid":
      frame = set_vlan_vid(frame, a[1])
    elif k == "set_vlan_pcp":
      frame = set_vlan_pcp(frame, a[1])
    else:
      raise ValueError("unknown action kind %r" % (k,))
  return sorted(emits), ctl


def encode_actions(actions):
  out = b""
  for a in actions:
    k = a[0]
    if k == "port":
      out += cb.action_output(a[1], 0)
    elif k == "in_port":
      out += cb.action_output(cb.OFPP_IN_PORT, 0)
    elif k == "flood":
      out += cb.action_output(cb.OFPP_FLOOD, 0)
    elif k == "all":
      out += cb.action_output(cb.OFPP_ALL, 0)
    elif k == "ctl":
      out += cb.action_output(cb.OFPP_CONTROLLER, a[1])
    elif k == "set_dl_dst":
      out += cb.action_set_dl(cb.OFPAT_SET_DL_DST, a[1])
    elif k == "set_vlan_vid":
      out += struct.pack("!HHH2x", cb.OFPAT_SET_VLAN_VID, 8, a[1] & 0xffff)
    elif k == "set_vlan_pcp":
      out += struct.pack("!HHB3x", cb.OFPAT_SET_VLAN_PCP, 8, a[1] & 0xff)
    elif k == "bad":
      out += cb.action_raw(a[1])
    elif k == "vendor":
      out += cb.action_vendor(a[1], b"\0" * 8)
    else:
      raise ValueError("unknown action kind %r" % (k,))
  return out


# ===========================================================================
# C13: the state behind the replies

_SIMPLE_FIELDS = [
  ("in_port", cb.OFPFW_IN_PORT), ("dl_vlan", cb.OFPFW_DL_VLAN), ("dl_src", cb.OFPFW_DL_SRC), ("dl_dst", cb.OFPFW_DL_DST),
  ("dl_type", cb.OFPFW_DL_TYPE), ("nw_proto", cb.OFPFW_NW_PROTO), ("tp_src", cb.OFPFW_TP_SRC), ("tp_dst", cb.OFPFW_TP_DST),
  ("dl_vlan_pcp", cb.OFPFW_DL_VLAN_PCP), ("nw_tos", cb.OFPFW_NW_TOS),
]


def canon_match(m):
  """Canonical form of a decoded ofp_match: wildcarded fields become None,
  nw_src/nw_dst become (prefix value, number of wildcarded low bits 0..32)."""
  wc = m["wildcards"]
  c = {}
  for name, bit in _SIMPLE_FIELDS:
    c[name] = None if wc & bit else m[name]
  for name, shift in (("nw_src", cb.OFPFW_NW_SRC_SHIFT), ("nw_dst", cb.OFPFW_NW_DST_SHIFT)):
    n = min(32, (wc >> shift) & 0x3f)
    mask = (0xffffffff << n) & 0xffffffff
    c[name] = (m[name] & mask, n)
  return c


def canon_key(c):
  return tuple((k, c[k]) for k in sorted(c))


def subsumes(general, specific):
  """OF 1.0 non-strict matching of a flow-mod / stats-request description against a flow entry:
  every field of `general` is wildcarded or equal to the (non-wildcarded) field of `specific`."""
  for name, _ in _SIMPLE_FIELDS:
    g = general[name]
    if g is None:
      continue
    if specific[name] is None or specific[name] != g:
      return False
  for name in ("nw_src", "nw_dst"):
    gv, gn = general[name]
    sv, sn = specific[name]
    if gn < sn:
      return False
    mask = (0xffffffff << gn) & 0xffffffff
    if (sv & mask) != gv:
      return False
  return True


def frame_fields(frame, in_port):
  """Header fields of an untagged Ethernet II frame whose ethertype is neither IP nor ARP
  (the only frames the C13 histories inject): OF 1.0 section 3.4."""
  dl_type = struct.unpack("!H", frame[12:14])[0]
  if dl_type in (0x0800, 0x0806, 0x8100) or dl_type < 0x0600:
    raise ValueError("frame_fields only knows plain non-IP Ethernet II frames")
  return {"in_port": in_port, "dl_vlan": 0xffff, "dl_src": bytes(frame[6:12]), "dl_dst": bytes(frame[0:6]),
          "dl_type": dl_type, "nw_proto": 0, "tp_src": 0, "tp_dst": 0, "dl_vlan_pcp": 0, "nw_tos": 0,
          "nw_src": 0, "nw_dst": 0}


def match_covers_frame(c, f):
  for name, _ in _SIMPLE_FIELDS:
    if c[name] is not None and c[name] != f[name]:
      return False
  for name in ("nw_src", "nw_dst"):
    v, n = c[name]
    mask = (0xffffffff << n) & 0xffffffff
    if (f[name] & mask) != v:
      return False
  return True


def output_ports_of(actions):
  """ports named by OFPAT_OUTPUT actions of a decoded action list"""
  out = []
  for a in actions:
    if a["type"] == cb.OFPAT_OUTPUT and a["len"] == 8:
      out.append(struct.unpack("!H", a["raw"][4:6])[0])
  return out


class Flow(object):
  def __init__(self, match_raw, priority, cookie, idle, hard, flags, actions_raw):
    self.match_raw = bytes(match_raw)
    self.match = canon_match(cb.decode_match(match_raw))
    self.priority = priority
    self.cookie = cookie          # None = not judged (after MODIFY)
    self.idle, self.hard, self.flags = idle, hard, flags
    self.set_actions(actions_raw)
    self.packets = 0
    self.bytes = 0
    self.maybe = False            # True: the spec lets the switch reject the flow-mod that made it

  def set_actions(self, actions_raw):
    self.actions_raw = bytes(actions_raw)
    self.actions = cb.decode_actions(actions_raw)

  def key(self):
    return (canon_key(self.match), self.priority)


_JUDGED_CONFIG = (cb.OFPPC_PORT_DOWN | cb.OFPPC_NO_RECV | cb.OFPPC_NO_RECV_STP | cb.OFPPC_NO_FLOOD |
                  cb.OFPPC_NO_FWD | cb.OFPPC_NO_PACKET_IN)


class SwitchShadow(object):
  """What an OpenFlow 1.0 switch with one flow table must report, given the messages it has
  processed.  Ports are seeded from the switch's first features reply (their numbers, addresses
  and names are the implementation's business); everything after that evolves by the spec.

  dirty[...]   state-changing messages since the last barrier: a probe's content is only
               judged when the part of the state it reports is clean (OF 1.0 section 4.6 /
               barrier: without a barrier the switch may reorder).
  *_known      False once something happened whose outcome the specification leaves open."""

  JUDGED_CONFIG = _JUDGED_CONFIG

  def __init__(self, n_buffers, miss_send_len, ports):
    self.miss_send_len = miss_send_len
    self.flags = 0
    self.flags_known = True
    self.ports = {}
    for p in ports:
      self.ports[p["port_no"]] = {"hw_addr": p["hw_addr"], "name": p["name"], "config": p["config"]}
    self.ctr = dict((n, {"rx_packets": 0, "rx_bytes": 0, "tx_packets": 0, "tx_bytes": 0}) for n in self.ports)
    self.flows = []
    self.lookup = 0
    self.matched = 0
    self.dirty = {"config": False, "ports": False, "table": False}
    self.table_known = True        # which flows exist
    self.flowctr_known = True      # per-flow packet/byte counters
    self.tablectr_known = True     # lookup / matched
    self.rx_known = True
    self.tx_known = True
    self.pool = BufferPool(n_buffers)

  # ---- messages
  def barrier(self):
    for k in self.dirty:
      self.dirty[k] = False

  def set_config(self, flags, miss_send_len):
    self.miss_send_len = miss_send_len
    self.flags = flags
    self.flags_known = flags in (0, 1, 2)
    self.dirty["config"] = True

  def port_mod(self, port_no, hw_addr, config, mask):
    """Returns None when accepted, else the (type, code) the spec names."""
    p = self.ports.get(port_no)
    if p is None:
      return (cb.OFPET_PORT_MOD_FAILED, cb.OFPPMFC_BAD_PORT)
    if p["hw_addr"] != bytes(hw_addr):
      return (cb.OFPET_PORT_MOD_FAILED, cb.OFPPMFC_BAD_HW_ADDR)
    p["config"] = (p["config"] & ~mask) | (config & mask)
    if mask:
      self.dirty["ports"] = True
    return None

  def select(self, desc, out_port, strict, priority=None):
    """flows described by a flow-mod / stats request"""
    res = []
    for f in self.flows:
      if strict:
        if canon_key(f.match) != canon_key(desc) or f.priority != priority:
          continue
      elif not subsumes(desc, f.match):
        continue
      if out_port != cb.OFPP_NONE and out_port not in output_ports_of(f.actions):
        continue
      res.append(f)
    return res

  def flow_mod(self, match_raw, command, priority, cookie, idle, hard, flags, out_port, actions_raw, maybe=False):
    """Apply a well-formed flow-mod with a known command (no buffer handling here).
    maybe=True (ADD only): the switch may just as well reject it (unknown buffer, port or action)."""
    self.dirty["table"] = True
    desc = canon_match(cb.decode_match(match_raw))
    if flags & (cb.OFPFF_EMERG | cb.OFPFF_CHECK_OVERLAP):
      self.table_known = False
      return
    if maybe:
      if command != cb.OFPFC_ADD:
        raise ValueError("only an ADD can be uncertain")
      if [f for f in self.select(desc, cb.OFPP_NONE, True, priority) if not f.maybe]:
        self.table_known = False     # either the old or the new entry is there
        return
      for f in self.select(desc, cb.OFPP_NONE, True, priority):
        self.flows.remove(f)
      fl = Flow(match_raw, priority, cookie, idle, hard, flags, actions_raw)
      fl.maybe = True
      self.flows.append(fl)
      return
    if command in (cb.OFPFC_MODIFY, cb.OFPFC_MODIFY_STRICT):
      hit = self.select(desc, cb.OFPP_NONE, command == cb.OFPFC_MODIFY_STRICT, priority)
      if hit:
        for f in hit:
          f.set_actions(actions_raw)
          f.cookie = None
        if not [f for f in hit if not f.maybe]:
          # only entries that may not exist were described: if none exists the MODIFY acts as an ADD
          self.table_known = False
        return
      command = cb.OFPFC_ADD
    if command == cb.OFPFC_ADD:
      for f in self.select(desc, cb.OFPP_NONE, True, priority):
        self.flows.remove(f)
      self.flows.append(Flow(match_raw, priority, cookie, idle, hard, flags, actions_raw))
      return
    if command in (cb.OFPFC_DELETE, cb.OFPFC_DELETE_STRICT):
      for f in self.select(desc, out_port, command == cb.OFPFC_DELETE_STRICT, priority):
        self.flows.remove(f)
      if (command == cb.OFPFC_DELETE and out_port == cb.OFPP_NONE and not self.flows
          and canon_key(desc) == canon_key(canon_match(cb.decode_match(cb.match())))):
        self.table_known = True      # delete-everything: the table is certainly empty again
        self.flowctr_known = True
      return
    raise ValueError("flow_mod with unknown command %r" % (command,))

  # ---- data plane
  def _blocked(self, port_no):
    return bool(self.ports[port_no]["config"] & (cb.OFPPC_NO_FWD | cb.OFPPC_PORT_DOWN))

  def apply_actions(self, actions, frame, in_port):
    """Account for a decoded action list executed on a frame (tx counters).
    Returns the list of max_len of outputs to the controller."""
    ctl = []
    for a in actions:
      if a["type"] != cb.OFPAT_OUTPUT or a["len"] != 8:
        self.tx_known = False          # anything else is another property's business
        continue
      port, max_len = struct.unpack("!HH", a["raw"][4:8])
      if port < cb.OFPP_MAX:
        targets = [port] if (port in self.ports and port != in_port) else []
      elif port == cb.OFPP_IN_PORT:
        targets = [in_port] if in_port in self.ports else []
      elif port == cb.OFPP_FLOOD:
        targets = [p for p in self.ports if p != in_port and not self.ports[p]["config"] & cb.OFPPC_NO_FLOOD]
      elif port == cb.OFPP_ALL:
        targets = [p for p in self.ports if p != in_port]
      elif port == cb.OFPP_CONTROLLER:
        ctl.append(max_len)
        targets = []
      else:
        self.tx_known = self.rx_known = self.tablectr_known = self.flowctr_known = False
        targets = []
      for p in targets:
        if self._blocked(p):
          continue
        self.ctr[p]["tx_packets"] += 1
        self.ctr[p]["tx_bytes"] += len(frame)
    return ctl

  def receivable(self, in_port):
    p = self.ports.get(in_port)
    return p is not None and not p["config"] & (cb.OFPPC_PORT_DOWN | cb.OFPPC_NO_RECV)

  def frame(self, frame, in_port):
    """A frame arrives on a port that is up and receiving.
    Returns ("miss", None) | ("hit", flow) | ("ambiguous", None)."""
    self.ctr[in_port]["rx_packets"] += 1
    self.ctr[in_port]["rx_bytes"] += len(frame)
    self.lookup += 1
    if not self.table_known:
      self.tablectr_known = self.flowctr_known = self.tx_known = False
      return ("ambiguous", None)
    f = frame_fields(frame, in_port)
    cands = [fl for fl in self.flows if match_covers_frame(fl.match, f)]
    if not cands:
      return ("miss", None)
    top = max(fl.priority for fl in cands)
    best = [fl for fl in cands if fl.priority == top]
    if any(fl.maybe for fl in cands):
      # a flow that may or may not exist covers the frame
      self.tablectr_known = self.flowctr_known = self.tx_known = False
      return ("ambiguous", None)
    self.matched += 1
    if len(best) > 1:
      # two flows of equal priority cover the frame: OF 1.0 leaves the choice open
      self.flowctr_known = self.tx_known = False
      return ("ambiguous", None)
    fl = best[0]
    fl.packets += 1
    fl.bytes += len(frame)
    self.apply_actions(fl.actions, frame, in_port)
    return ("hit", fl)
