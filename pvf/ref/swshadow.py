"""Shadow models of an OpenFlow 1.0 switch, as far as they are needed to predict what the
switch must say to its controller.  Written from the OpenFlow 1.0.0 specification; imports
nothing from pox.

BufferPool   -- the packet-buffer contract (property C18)
SwitchShadow -- config, ports, flow table and counters behind the replies (property C13)
"""
import struct

from . import ctlbytes as cb


# ===========================================================================
# C18: packet buffers

class BufferPool(object):
  """id -> (frame bytes, in_port) of buffers handed to the controller and not yet used."""

  def __init__(self, max_buffers):
    self.max = max_buffers
    self.out = {}            # outstanding
    self.released = []       # ids used at least once, oldest first, without duplicates
    self.ever = set()        # every id ever issued
    self.reissued = 0        # how often a released id was handed out again
    self.peak = 0

  def outstanding(self):
    return sorted(self.out)

  def store(self, bid, frame, in_port):
    if bid in self.released:
      self.released.remove(bid)
      self.reissued += 1
    self.out[bid] = (bytes(frame), in_port)
    self.ever.add(bid)
    self.peak = max(self.peak, len(self.out))

  def release(self, bid):
    del self.out[bid]
    if bid in self.released:
      self.released.remove(bid)
    self.released.append(bid)

  def stale(self):
    """released ids that are not outstanding again"""
    return [b for b in self.released if b not in self.out]


def expected_outputs(actions, frame, in_port, ports):
  """What a list of plain output actions does with a frame that came in on in_port.
  actions: list of ("port", n) | ("in_port",) | ("flood",) | ("all",) | ("ctl", max_len)
  Returns (sorted list of (port, frame) emissions, list of max_len for packet-ins).
  OF 1.0 section 3.3 / 5.2.4: a packet is not sent back out of its ingress port unless
  OFPP_IN_PORT is named explicitly; FLOOD and ALL exclude the ingress port."""
  emits = []
  ctl = []
  for a in actions:
    k = a[0]
    if k == "port":
      if a[1] in ports and a[1] != in_port:
        emits.append((a[1], frame))
    elif k == "in_port":
      if in_port in ports:
        emits.append((in_port, frame))
    elif k in ("flood", "all"):
      for p in ports:
        if p != in_port:
          emits.append((p, frame))
    elif k == "ctl":
      ctl.append(a[1])
    else:
      raise ValueError("unknown action kind %r" % (k,))
  return sorted(emits), ctl


def encode_actions(actions):
  out = b""
  for a in actions:
    k = a[0]
    if k == "port":
      out += cb.action_output(a[1], 0)
    elif k == "in_port":
      out += cb.action_output(cb.OFPP_IN_PORT, 0)
    elif k == "flood":
      out += cb.action_output(cb.OFPP_FLOOD, 0)
    elif k == "all":
      out += cb.action_output(cb.OFPP_ALL, 0)
    elif k == "ctl":
      out += cb.action_output(cb.OFPP_CONTROLLER, a[1])
    else:
      raise ValueError("unknown action kind %r" % (k,))
  return out
