"""Reference model for C09: what the property statement allows the controller to announce.

Imports nothing from pox.  It is a restatement of the property text, not of POX's handshake code:

* a connection is *announced* (connection-up) when, and only when, it has received the switch's
  features reply and then the reply to the barrier request the controller sent after it (a barrier
  reply carrying that request's xid, or the error BAD_REQUEST/BAD_TYPE carrying that xid, which is
  how a switch without barrier support answers), provided the controller has not lost or dropped
  the connection before;
* port-status messages that arrive after the features reply and before the announcement must be
  delivered after it, in arrival order, once each; those that arrive before the features reply may
  be delivered or dropped (the later features reply describes the ports anyway) but never twice,
  never out of order and never before the announcement;
* connection-down is due exactly once for an announced connection that is lost;
* the registry holds, per datapath id, the most recent live announced connection (see `registry`
  for the one situation in which the statement can be read two ways).

Where the statement is silent (what the controller does with a barrier reply carrying a foreign xid)
the model is told what happened (`dropped_by_controller`) and follows.
"""

BAD_REQUEST = 1
BAD_TYPE = 1


class Conn(object):
  def __init__(self, idx, peer_dpid, seq):
    self.idx = idx
    self.peer_dpid = peer_dpid
    self.created_seq = seq
    self.dpid = None            # known once the features reply has arrived
    self.got_features = False
    self.barrier_xid = None     # xid of the barrier request the controller sent after the features reply
    self.up = False
    self.up_seq = None
    self.lost = False           # the controller has observed the loss / dropped the connection
    self.closed = False         # the controller has closed the socket
    self.down_now = False       # connection-down is due already (loss observed synchronously)
    self.ps_optional = []       # tags of port-status messages whose delivery is optional
    self.ps_mandatory = []      # tags that must be delivered, in this order
    self.ps_all = []            # every tag in arrival order
    self.async_before_up = 0
    self.wrong_barrier = False
    self.unjudged = False
    self.superseded = False


class Lifecycle(object):
  def __init__(self):
    self.conns = []
    self.seq = 0

  def _tick(self):
    self.seq += 1
    return self.seq

  def open(self, peer_dpid):
    c = Conn(len(self.conns), peer_dpid, self._tick())
    self.conns.append(c)
    return c

  # ---- what the controller wrote
  def barrier_request_seen(self, c, xid):
    c.barrier_xid = xid

  # ---- what the switch sent and the controller has read
  def features(self, c):
    if c.lost or c.up:
      return
    if c.got_features:
      # a second features reply inside the handshake (outside the statement's multiset of handshake replies):
      # like the first, it describes the ports as they are now, so port-status messages that arrived before it
      # may be delivered or dropped
      c.ps_optional.extend(c.ps_mandatory)
      c.ps_mandatory = []
    c.got_features = True
    c.dpid = c.peer_dpid

  def _announce(self, c):
    c.up = True
    c.up_seq = self._tick()
    for o in self.conns:
      if o is not c and o.up and not o.lost and o.dpid == c.dpid:
        o.superseded = True
        if o.created_seq > c.created_seq:
          c.superseded = True       # opened earlier, announced later: either may count as the newer one

  def barrier_reply(self, c, xid):
    """returns 'up', 'foreign' (reply to something that is not the outstanding barrier) or None"""
    if c.lost or c.up:
      return None
    if c.barrier_xid is None or not c.got_features:
      return None               # nothing outstanding: not a reply to the handshake barrier
    if xid == c.barrier_xid:
      self._announce(c)
      return "up"
    c.wrong_barrier = True
    return "foreign"

  def error(self, c, answers_barrier, etype, code):
    """an OFPT_ERROR arrived.  answers_barrier: the switch sent it in answer to the handshake's barrier
    request itself (the scripted switch knows which of the controller's messages it is answering; the
    controller can tell from the xid, and from the copy of the request in the error's data).  An error
    answering any other message of the handshake (features/stats request, set_config, flow_mod) says
    nothing about the barrier, whatever its type and code."""
    if c.lost or c.up:
      return None
    if c.barrier_xid is None or not c.got_features:
      return None
    if answers_barrier and etype == BAD_REQUEST and code == BAD_TYPE:
      self._announce(c)
      return "up"
    return None

  def port_status(self, c, tag):
    c.ps_all.append(tag)
    if not c.up and not c.lost:
      c.async_before_up += 1
    if c.lost or not c.got_features:
      c.ps_optional.append(tag)
    else:
      c.ps_mandatory.append(tag)

  def other(self, c):
    if not c.up and not c.lost:
      c.async_before_up += 1

  # ---- loss
  def lost(self, c, down_now):
    if not c.lost:
      c.lost = True
    if down_now:
      c.down_now = True

  def closed(self, c):
    c.lost = True
    c.closed = True
    c.down_now = True

  # ---- derived
  def live_announced(self, dpid):
    return [c for c in self.conns if c.up and not c.lost and c.dpid == dpid]

  def superseded(self, c):
    """another connection of the same datapath was announced (or opened and announced) after c while
    c was live: the statement calls c the datapath's *stale* connection from then on"""
    return c.superseded

  def registry(self):
    """dpid -> (preferred connection, set of acceptable connections, absent_ok).

    'Most recent' is read as most recently announced; when the most recently opened live
    connection is a different one, either is accepted.  When every live announced connection of a
    datapath has been superseded by a newer one that is gone by now, the statement can be read
    both ways (the survivor is 'live', or it is the 'stale connection' of a datapath that has
    reconnected): the registry may then hold the survivor or nothing."""
    out = {}
    for c in self.conns:
      if c.up and not c.lost:
        out.setdefault(c.dpid, []).append(c)
    res = {}
    for d, cs in out.items():
      by_up = max(cs, key=lambda c: c.up_seq)
      by_open = max(cs, key=lambda c: c.created_seq)
      res[d] = (by_up, {by_up.idx, by_open.idx}, by_up.superseded and by_open.superseded)
    return res


def check_port_status_order(c, delivered):
  """delivered: tags of PortStatus events seen for connection c, in order.  Returns an error string or None."""
  if len(set(delivered)) != len(delivered):
    return "duplicate"
  known = {t: i for i, t in enumerate(c.ps_all)}
  for t in delivered:
    if t not in known:
      return "unknown"
  pos = [known[t] for t in delivered]
  if pos != sorted(pos):
    return "order"
  return None


def missing_mandatory(c, delivered):
  d = set(delivered)
  return [t for t in c.ps_mandatory if t not in d]
