"""Independent packet builder and dissector for the packet-library checks (C14, C15).

Written from the standards (IEEE 802.3/802.1Q/802.2, RFC 826, 791, 792, 768, 793, 7323, 2018, 8684,
8200, 4443, 4861, 2131/2132, 1035, 2453, 3376, 1701/2784/2890, 7348, 3032, 3748, IEEE 802.1AB/802.1X);
imports nothing from pox.

A *spec* is a JSON-able list of layer records, outermost first (see `catalog()` for one minimal
instance per protocol).  Demultiplexing keys (ethertype, IP protocol / next header, UDP ports, GRE
protocol type, MPLS bottom-of-stack) and self-referential length / checksum fields are derived from
the structure unless a record overrides them.

  build(spec) -> bytes                 the frame the standards prescribe for the spec
  payload_bytes(rec) -> bytes          the bytes of a {"t":"raw"} record
  dissect(frame) -> Dissection         never raises; .layers (proto, off, end, fields{name:(off,size)}),
                                       .checks (every emitted length / checksum with the value the
                                       standards demand), .payload (off,end) of the innermost opaque bytes,
                                       .error (None or where the structural walk failed)
  fix_checksums(frame) -> bytes        recompute every checksum the dissector can locate
  catalog() -> [(name, spec)]          minimal specs covering every protocol POX parses
  corpus() -> [(name, frame)]          build() of the catalog, odd and even payloads
"""
import struct

from . import rfc1071 as R


# --------------------------------------------------------------------------- payload patterns

def pattern(n, k):
  """n deterministic bytes of pattern k: 0 zeros, 1 ones, 2 counter, >=3 LCG seeded by k."""
  if k == 0:
    return b"\0" * n
  if k == 1:
    return b"\xff" * n
  if k == 2:
    return bytes(i & 0xff for i in range(n))
  out = bytearray(n)
  x = (k * 2654435761) & 0xffffffff
  for i in range(n):
    x = (x * 1103515245 + 12345) & 0x7fffffff
    out[i] = (x >> 16) & 0xff
  return bytes(out)


def payload_bytes(rec):
  if "data" in rec:
    return bytes(rec["data"])
  return pattern(rec["len"], rec.get("pat", 2))


# --------------------------------------------------------------------------- demultiplexing keys

ETHERTYPE = {"vlan": 0x8100, "arp": 0x0806, "ipv4": 0x0800, "ipv6": 0x86dd, "lldp": 0x88cc,
             "eapol": 0x888e, "mpls": 0x8847}
POX_ETHERTYPES = (0x8100, 0x0806, 0x8035, 0x0800, 0x86dd, 0x88cc, 0x888e, 0x8847, 0x8848)
IPPROTO = {"udp": 17, "tcp": 6, "icmp": 1, "igmp": 2, "igmp3": 2, "gre": 47, "icmp6": 58}
POX_IPPROTOS4 = (1, 2, 6, 17, 47)
POX_NH6 = (0, 6, 17, 43, 44, 58, 59, 60)
UDP_APP_PORTS = (53, 67, 68, 520, 4789, 5353)
EXT_HEADERS = (0, 43, 44, 60)


def _ethertype_for(nxt, payload_len):
  t = nxt["t"]
  if t == "arp":
    return 0x8035 if nxt.get("rarp") else 0x0806
  if t == "mpls":
    return 0x8848 if nxt.get("mc") else 0x8847
  if t == "llc":
    return payload_len                 # IEEE 802.3 length field
  if t in ETHERTYPE:
    return ETHERTYPE[t]
  raise ValueError("no ethertype for layer %r: give 'type' explicitly" % t)


def _ipproto_for(nxt):
  t = nxt["t"]
  if t in IPPROTO:
    return IPPROTO[t]
  if t == "ipv4":
    return 4
  raise ValueError("no IP protocol for layer %r: give 'proto' explicitly" % t)


def udp_ports(rec, nxt):
  """(sport, dport) for a udp record given the record that follows it."""
  sp, dp = rec.get("sport"), rec.get("dport")
  t = nxt["t"] if nxt else "raw"
  if t == "dhcp":
    d = (68, 67)
  elif t == "dns":
    d = (0xc001, 5353 if rec.get("mdns") else 53)
  elif t == "rip":
    d = (520, 520)
  elif t == "vxlan":
    d = (0xc002, 4789)
  else:
    d = (0xc003, 0xc004)
  return (d[0] if sp is None else sp, d[1] if dp is None else dp)


# --------------------------------------------------------------------------- reference builders

def _tcp_options(opts):
  out = b""
  for o in opts:
    k = o["k"]
    if k == "eol":
      out += b"\0"
    elif k == "nop":
      out += b"\x01"
    elif k == "mss":
      out += struct.pack("!BBH", 2, 4, o["v"])
    elif k == "ws":
      out += struct.pack("!BBB", 3, 3, o["v"])
    elif k == "sackperm":
      out += struct.pack("!BB", 4, 2)
    elif k == "sack":
      out += struct.pack("!BB", 5, 2 + 8 * len(o["v"]))
      for l, r in o["v"]:
        out += struct.pack("!II", l, r)
    elif k == "ts":
      out += struct.pack("!BBII", 8, 10, o["v"][0], o["v"][1])
    elif k == "unk":
      out += struct.pack("!BB", o["type"], 2 + len(o["data"])) + bytes(o["data"])
    elif k == "mpcap":            # RFC 6824 MP_CAPABLE
      body = struct.pack("!BB", (0 << 4) | o.get("ver", 0), o.get("flags", 0)) + bytes(o["skey"])
      if o.get("rkey"):
        body += bytes(o["rkey"])
      out += struct.pack("!BB", 30, 2 + len(body)) + body
    elif k == "mpjoin":
      ph = o["phase"]
      body = struct.pack("!BB", (1 << 4) | o.get("flags", 0), o.get("addr_id", 0))
      if ph == 1:
        body += bytes(o["rtoken"]) + bytes(o["srand"])
      elif ph == 2:
        body += bytes(o["shmac"])[:8] + bytes(o["srand"])
      else:
        body += bytes(o["shmac"])
      out += struct.pack("!BB", 30, 2 + len(body)) + body
    elif k == "mpdss":
      fl = o["flags"]
      body = struct.pack("!BB", 2 << 4, fl)
      if fl & 1:
        body += struct.pack("!Q" if fl & 2 else "!I", o["ack"])
      if fl & 4:
        body += struct.pack("!Q" if fl & 8 else "!I", o["dsn"])
        body += struct.pack("!IHH", o["seq"], o["length"], o["csum"])
      out += struct.pack("!BB", 30, 2 + len(body)) + body
    else:
      raise ValueError("tcp option %r" % k)
  while len(out) % 4:
    out += b"\0"
  return out


def _nd_options(opts):
  out = b""
  for o in opts:
    k = o["k"]
    if k == "sll":
      out += struct.pack("!BB", 1, 1) + bytes(o["addr"])
    elif k == "tll":
      out += struct.pack("!BB", 2, 1) + bytes(o["addr"])
    elif k == "prefix":
      fl = (0x80 if o.get("on_link") else 0) | (0x40 if o.get("auto") else 0)
      out += struct.pack("!BBBBIII", 3, 4, o["plen"], fl, o["valid"], o["pref"], 0) + bytes(o["prefix"])
    elif k == "mtu":
      out += struct.pack("!BBHI", 5, 1, 0, o["mtu"])
    elif k == "gen":
      d = bytes(o["data"])
      assert (len(d) + 2) % 8 == 0
      out += struct.pack("!BB", o["type"], (len(d) + 2) // 8) + d
    else:
      raise ValueError("nd option %r" % k)
  return out


def dns_name(name):
  out = b""
  if name:
    if isinstance(name, (bytes, bytearray)):       # labels given as raw octets (e.g. UTF-8 text of mDNS / DNS-SD names)
      labels = bytes(name).split(b".")
    else:
      labels = [l.encode("latin-1") for l in name.split(".")]
    for lb in labels:
      assert 0 < len(lb) < 64
      out += bytes([len(lb)]) + lb
  return out + b"\0"


def _dns(rec):
  b0 = (0x80 if rec.get("qr") else 0) | ((rec.get("opcode", 0) & 0xf) << 3) | (4 if rec.get("aa") else 0) \
       | (2 if rec.get("tc") else 0) | (1 if rec.get("rd") else 0)
  b1 = (0x80 if rec.get("ra") else 0) | (0x40 if rec.get("z") else 0) | (0x20 if rec.get("ad") else 0) \
       | (0x10 if rec.get("cd") else 0) | (rec.get("rcode", 0) & 0xf)
  q, an, ns, ar = rec.get("q", []), rec.get("an", []), rec.get("ns", []), rec.get("ar", [])
  out = struct.pack("!HBBHHHH", rec.get("id", 0), b0, b1, len(q), len(an), len(ns), len(ar))
  for x in q:
    out += dns_name(x["name"]) + struct.pack("!HH", x["qtype"], x["qclass"])
  for r in an + ns + ar:
    rd = r["rd"]
    if "a" in rd:
      d = bytes(rd["a"])
    elif "aaaa" in rd:
      d = bytes(rd["aaaa"])
    elif "name" in rd:
      d = dns_name(rd["name"])
      if r["qtype"] == 15:
        d = struct.pack("!H", rd.get("pref", 0)) + d
    else:
      d = bytes(rd["raw"])
    out += dns_name(r["name"]) + struct.pack("!HHIH", r["qtype"], r["qclass"], r["ttl"], len(d)) + d
  return out


def dhcp_option_bytes(o):
  """value bytes of one DHCP option record"""
  k = o["k"]
  if k in ("ip",):
    return bytes(o["v"])
  if k == "ips":
    return b"".join(bytes(a) for a in o["v"])
  if k == "secs":
    return struct.pack("!I", o["v"])
  if k in ("msgtype", "overload"):
    return bytes([o["v"]])
  if k == "params":
    return bytes(o["v"])
  if k == "raw":
    return bytes(o["v"])
  raise ValueError("dhcp option %r" % k)


def _dhcp(rec):
  chaddr = bytes(rec.get("chaddr", b"\0" * 16))
  if rec.get("hlen", 6) == 6:
    chaddr = chaddr[:6]                  # an Ethernet address; the rest of the field is padding
  chaddr = chaddr + b"\0" * (16 - len(chaddr))
  sname = bytes(rec.get("sname", b""))
  sname += b"\0" * (64 - len(sname))
  file_ = bytes(rec.get("file", b""))
  file_ += b"\0" * (128 - len(file_))
  out = struct.pack("!BBBBIHH", rec.get("op", 1), rec.get("htype", 1), rec.get("hlen", 6), rec.get("hops", 0),
                    rec.get("xid", 0), rec.get("secs", 0), rec.get("flags", 0))
  for a in ("ci", "yi", "si", "gi"):
    out += bytes(rec.get(a, b"\0\0\0\0"))
  out += chaddr + sname + file_ + b"\x63\x82\x53\x63"
  for o in rec.get("opts", []):
    v = dhcp_option_bytes(o)
    if len(v) <= 255:
      out += bytes([o["code"], len(v)]) + v
    else:                                 # RFC 3396: a long option is split into consecutive instances of the same code
      for i in range(0, len(v), 255):
        out += bytes([o["code"], len(v[i:i + 255])]) + v[i:i + 255]
  out += b"\xff"
  return out


def _lldp(rec):
  out = b""
  for t in rec["tlvs"]:
    k = t["k"]
    if k == "chassis":
      ty, d = 1, bytes([t["sub"]]) + bytes(t["id"])
    elif k == "port":
      ty, d = 2, bytes([t["sub"]]) + bytes(t["id"])
    elif k == "ttl":
      ty, d = 3, struct.pack("!H", t["v"])
    elif k == "portdesc":
      ty, d = 4, bytes(t["v"])
    elif k == "sysname":
      ty, d = 5, bytes(t["v"])
    elif k == "sysdesc":
      ty, d = 6, bytes(t["v"])
    elif k == "syscap":
      ty, d = 7, struct.pack("!HH", t["cap"], t["en"])
    elif k == "mgmt":
      a, oid = bytes(t["addr"]), bytes(t.get("oid", b""))
      ty = 8
      d = bytes([len(a) + 1, t["asub"]]) + a + struct.pack("!BIB", t["isub"], t["ifnum"], len(oid)) + oid
    elif k == "org":
      ty, d = 127, bytes(t["oui"]) + bytes([t["sub"]]) + bytes(t["data"])
    elif k == "unk":
      ty, d = t["type"], bytes(t["data"])
    elif k == "end":
      ty, d = 0, b""
    else:
      raise ValueError("lldp tlv %r" % k)
    assert len(d) < 512
    out += struct.pack("!H", (ty << 9) | len(d)) + d
  return out


def _igmp3_records(recs):
  out = b""
  for g in recs:
    aux = bytes(g.get("aux", b""))
    assert len(aux) % 4 == 0
    out += struct.pack("!BBH", g["type"], len(aux) // 4, len(g["srcs"])) + bytes(g["addr"])
    for s in g["srcs"]:
      out += bytes(s)
    out += aux
  return out


def _gre_header(rec, ptype, payload):
  csum, routing = rec.get("csum"), rec.get("routing")
  key, seq = rec.get("key"), rec.get("seq")
  flags = 0
  if csum is not None:
    flags |= 0x8000
  if routing is not None:
    flags |= 0x4000
  if key is not None:
    flags |= 0x2000
  if seq is not None:
    flags |= 0x1000
  if rec.get("ssr"):
    flags |= 0x0800
  flags |= (rec.get("rec", 0) & 7) << 8
  flags |= rec.get("ver", 0) & 7
  h = struct.pack("!HH", flags, ptype)
  if csum is not None or routing is not None:
    h += struct.pack("!HH", 0, rec.get("route_offset", 0))
  if key is not None:
    h += struct.pack("!I", key)
  if seq is not None:
    h += struct.pack("!I", seq)
  if routing is not None:
    for af, off, data in routing:
      h += struct.pack("!HBB", af, off, len(data)) + bytes(data)
    h += struct.pack("!HBB", 0, 0, 0)
  if csum is not None:
    c = R.checksum(h + payload)
    h = h[:4] + struct.pack("!H", c) + h[6:]
  return h


def _build(spec, i, ctx):
  """bytes of spec[i:]; ctx carries the enclosing IP layer for pseudo headers."""
  if i >= len(spec):
    return b""
  rec = spec[i]
  t = rec["t"]
  nxt = spec[i + 1] if i + 1 < len(spec) else None

  if t == "raw":
    return payload_bytes(rec)

  if t == "eth":
    inner = _build(spec, i + 1, ctx)
    ty = rec.get("type")
    if ty is None:
      ty = _ethertype_for(nxt, len(inner))
    return bytes(rec["dst"]) + bytes(rec["src"]) + struct.pack("!H", ty) + inner

  if t == "vlan":
    inner = _build(spec, i + 1, ctx)
    ty = rec.get("type")
    if ty is None:
      ty = _ethertype_for(nxt, len(inner))
    tci = (rec.get("pcp", 0) << 13) | (rec.get("cfi", 0) << 12) | rec.get("id", 0)
    return struct.pack("!HH", tci, ty) + inner

  if t == "llc":
    inner = _build(spec, i + 1, ctx)
    ctrl = rec.get("ctrl", 3)
    h = bytes([rec["dsap"], rec["ssap"]])
    if (ctrl & 3) == 3:                  # U format: one octet
      h += bytes([ctrl & 0xff])
    else:                                # I / S format: two octets, first octet carries the format bits
      h += bytes([ctrl & 0xff, (ctrl >> 8) & 0xff])
    snap = rec.get("snap")
    if snap is not None:
      ty = snap.get("type")
      if ty is None:
        ty = _ethertype_for(nxt, len(inner))
      h += bytes(snap["oui"]) + struct.pack("!H", ty)
    return h + inner

  if t == "arp":
    inner = _build(spec, i + 1, ctx)
    # RFC 826: hardware address length is a field of its own ("hwlen": sha / tha are then that many octets, e.g. 8 for
    # EUI-64 or 20 for InfiniBand); protocol addresses stay 4 octets (the only width POX's builder can emit)
    hl = rec.get("hwlen", 6)
    return struct.pack("!HHBBH", rec.get("hwtype", 1), rec.get("prototype", 0x0800), hl, 4, rec["op"]) \
        + bytes(rec["sha"]) + bytes(rec["spa"]) + bytes(rec["tha"]) + bytes(rec["tpa"]) + inner

  if t == "ipv4":
    proto = rec.get("proto")
    if proto is None:
      proto = _ipproto_for(nxt)
    c2 = dict(ctx, ip=4, src=bytes(rec["src"]), dst=bytes(rec["dst"]), proto=proto)
    inner = _build(spec, i + 1, c2)
    opts = bytes(rec.get("opts", b""))
    assert len(opts) % 4 == 0 and len(opts) <= 40
    ihl = 5 + len(opts) // 4
    tot = rec.get("totlen")
    if tot is None:
      tot = ihl * 4 + len(inner)
    h = struct.pack("!BBHHHBBH", 0x40 | ihl, rec.get("tos", 0), tot, rec.get("id", 0),
                    (rec.get("flags", 0) << 13) | rec.get("frag", 0), rec.get("ttl", 64), proto, 0)
    h += bytes(rec["src"]) + bytes(rec["dst"]) + opts
    c = R.checksum(h)
    return h[:10] + struct.pack("!H", c) + h[12:] + inner

  if t == "ipv6":
    ext = rec.get("ext", [])
    upper = rec.get("nh")
    if upper is None:
      upper = 59 if nxt is None else _ipproto_for(nxt)
    c2 = dict(ctx, ip=6, src=bytes(rec["src"]), dst=bytes(rec["dst"]), proto=upper)
    inner = _build(spec, i + 1, c2)
    chain = [e["k"] for e in ext] + [upper]
    eh = b""
    for j, e in enumerate(ext):
      body = bytes(e["body"])
      if e["k"] == 44:
        assert len(body) == 7
        eh += bytes([chain[j + 1]]) + body
      else:
        assert (len(body) + 2) % 8 == 0
        eh += bytes([chain[j + 1], (len(body) + 2) // 8 - 1]) + body
    vtf = (6 << 28) | (rec.get("tc", 0) << 20) | rec.get("flow", 0)
    return struct.pack("!IHBB", vtf, len(eh) + len(inner), chain[0], rec.get("hlim", 64)) \
        + bytes(rec["src"]) + bytes(rec["dst"]) + eh + inner

  if t == "udp":
    inner = _build(spec, i + 1, ctx)
    sp, dp = udp_ports(rec, nxt)
    seg = struct.pack("!HHHH", sp, dp, 8 + len(inner), 0) + inner
    if ctx.get("ip") == 4:
      c = R.udp_value(R.l4_checksum4(ctx["src"], ctx["dst"], 17, seg))
    elif ctx.get("ip") == 6:
      c = R.udp_value(R.l4_checksum6(ctx["src"], ctx["dst"], 17, seg))
    else:
      c = 0
    return seg[:6] + struct.pack("!H", c) + seg[8:]

  if t == "tcp":
    inner = _build(spec, i + 1, ctx)
    opts = _tcp_options(rec.get("opts", []))
    off = 5 + len(opts) // 4
    assert off <= 15
    seg = struct.pack("!HHIIBBHHH", rec.get("sport", 0xc005), rec.get("dport", 0xc006), rec.get("seq", 0),
                      rec.get("ack", 0), (off << 4) | rec.get("res", 0), rec.get("flags", 2),
                      rec.get("win", 0), 0, rec.get("urg", 0)) + opts + inner
    if ctx.get("ip") == 4:
      c = R.l4_checksum4(ctx["src"], ctx["dst"], 6, seg)
    elif ctx.get("ip") == 6:
      c = R.l4_checksum6(ctx["src"], ctx["dst"], 6, seg)
    else:
      c = 0
    return seg[:16] + struct.pack("!H", c) + seg[18:]

  if t == "icmp":
    inner = _build(spec, i + 1, dict(ctx, embedded=True))
    m = struct.pack("!BBH", rec["type"], rec.get("code", 0), 0) + inner
    return m[:2] + struct.pack("!H", R.checksum(m)) + m[4:]

  if t in ("echo", "echo6"):
    return struct.pack("!HH", rec.get("id", 0), rec.get("seq", 0)) + _build(spec, i + 1, ctx)
  if t == "unreach":
    return struct.pack("!HH", rec.get("unused", 0), rec.get("mtu", 0)) + _build(spec, i + 1, ctx)
  if t in ("timex", "unreach6"):
    return struct.pack("!I", rec.get("unused", 0)) + _build(spec, i + 1, ctx)
  if t == "timex6":
    return struct.pack("!I", 0) + _build(spec, i + 1, ctx)
  if t == "toobig":
    return struct.pack("!I", rec.get("mtu", 0)) + _build(spec, i + 1, ctx)

  if t == "icmp6":
    inner = _build(spec, i + 1, dict(ctx, embedded=True))
    m = struct.pack("!BBH", rec["type"], rec.get("code", 0), 0) + inner
    c = R.l4_checksum6(ctx["src"], ctx["dst"], 58, m)
    return m[:2] + struct.pack("!H", c) + m[4:]
  if t == "nd_rs":
    return struct.pack("!I", 0) + _nd_options(rec.get("opts", []))
  if t == "nd_ra":
    fl = (0x80 if rec.get("managed") else 0) | (0x40 if rec.get("other") else 0)
    return struct.pack("!BBHII", rec.get("hlim", 0), fl, rec.get("lifetime", 0), rec.get("reachable", 0),
                       rec.get("retrans", 0)) + _nd_options(rec.get("opts", []))
  if t == "nd_ns":
    return struct.pack("!I", 0) + bytes(rec["target"]) + _nd_options(rec.get("opts", []))
  if t == "nd_na":
    fl = (0x80 if rec.get("r") else 0) | (0x40 if rec.get("s") else 0) | (0x20 if rec.get("o") else 0)
    return struct.pack("!I", fl << 24) + bytes(rec["target"]) + _nd_options(rec.get("opts", []))

  if t == "dhcp":
    return _dhcp(rec) + _build(spec, i + 1, ctx)
  if t == "dns":
    return _dns(rec) + _build(spec, i + 1, ctx)
  if t == "lldp":
    return _lldp(rec) + _build(spec, i + 1, ctx)
  if t == "rip":
    out = struct.pack("!BBH", rec.get("cmd", 2), rec.get("ver", 2), 0)
    for e in rec.get("entries", []):
      out += struct.pack("!HH", e.get("af", 2), e.get("tag", 0)) + bytes(e["ip"]) + bytes(e["mask"]) \
          + bytes(e["nh"]) + struct.pack("!I", e["metric"])
    return out

  if t == "mpls":
    inner = _build(spec, i + 1, ctx)
    s = rec.get("s")
    if s is None:
      s = 0 if (nxt is not None and nxt["t"] == "mpls") else 1
    w = (rec.get("label", 0) << 12) | (rec.get("tc", 0) << 9) | (s << 8) | rec.get("ttl", 0)
    return struct.pack("!I", w) + inner

  if t == "gre":
    inner = _build(spec, i + 1, dict(ctx, ip=None))
    ty = rec.get("type")
    if ty is None:
      ty = {"ipv4": 0x0800, "eth": 0x6558}[nxt["t"]]
    return _gre_header(rec, ty, inner) + inner

  if t == "vxlan":
    inner = _build(spec, i + 1, dict(ctx, ip=None))
    vni = rec.get("vni")
    return struct.pack("!II", (0x08 << 24) if vni is not None else 0, (vni or 0) << 8) + inner

  if t == "igmp":
    m = struct.pack("!BBH", rec["vt"], rec.get("mrt", 0), 0) + bytes(rec["addr"]) + bytes(rec.get("extra", b""))
    return m[:2] + struct.pack("!H", R.checksum(m)) + m[4:]
  if t == "igmp3":
    m = struct.pack("!BBHHH", 0x22, 0, 0, 0, len(rec["records"])) + _igmp3_records(rec["records"]) \
        + bytes(rec.get("extra", b""))
    return m[:2] + struct.pack("!H", R.checksum(m)) + m[4:]

  if t == "eapol":
    inner = _build(spec, i + 1, ctx)
    bl = rec.get("bodylen")
    if bl is None:
      bl = len(inner)
    return struct.pack("!BBH", rec.get("ver", 1), rec.get("type", 0), bl) + inner
  if t == "eap":
    inner = _build(spec, i + 1, ctx)
    ty = rec.get("type")
    body = (bytes([ty]) if ty is not None else b"") + inner
    ln = rec.get("length")
    if ln is None:
      ln = 4 + len(body)
    return struct.pack("!BBH", rec["code"], rec.get("id", 0), ln) + body

  raise ValueError("unknown layer type %r" % t)


def build(spec):
  return _build(spec, 0, {})


# --------------------------------------------------------------------------- dissector

class _Short(Exception):
  pass


class Dissection(object):
  def __init__(self, frame):
    self.frame = frame
    self.layers = []       # {"p": proto, "off": int, "end": int, "f": {name: (off, size)}}
    self.checks = []       # {"name", "off", "size", "got", "want"}
    self.slots = []        # (container, off, size): option / TLV / record slots inside variable-length areas
    self.payload = None    # (off, end) of innermost opaque bytes
    self.error = None

  # helpers
  def layer(self, p, off, end):
    l = {"p": p, "off": off, "end": end, "f": {}}
    self.layers.append(l)
    return l

  def check(self, name, off, size, want):
    got = int.from_bytes(self.frame[off:off + size], "big")
    self.checks.append({"name": name, "off": off, "size": size, "got": got, "want": want})

  def protos(self):
    return [l["p"] for l in self.layers]

  def fields(self):
    """flat list of (layer index, proto, name, off, size)"""
    out = []
    for i, l in enumerate(self.layers):
      for n, (o, s) in sorted(l["f"].items(), key=lambda kv: (kv[1][0], kv[0])):
        out.append((i, l["p"], n, o, s))
    return out

  def bad_checks(self):
    return [c for c in self.checks if c["got"] != c["want"]]


def _need(b, off, n, end, what):
  if off + n > end or off + n > len(b):
    raise _Short(what)


def _u8(b, o):
  return b[o]


def _u16(b, o):
  return (b[o] << 8) | b[o + 1]


def _u32(b, o):
  return int.from_bytes(b[o:o + 4], "big")


def _flds(l, base, *items):
  o = base
  for name, size in items:
    if name:
      l["f"][name] = (o, size)
    o += size
  return o


def _d_ethertype(d, ty, off, end, ctx):
  b = d.frame
  if ty == 0x8100:
    _need(b, off, 4, end, "vlan")
    l = d.layer("vlan", off, off + 4)
    _flds(l, off, ("tci", 2), ("type", 2))
    return _d_ethertype(d, _u16(b, off + 2), off + 4, end, ctx)
  if ty < 1536:
    return _d_llc(d, off, end, ctx, ty)
  if ty in (0x0806, 0x8035):
    return _d_arp(d, off, end, ctx)
  if ty == 0x0800:
    return _d_ipv4(d, off, end, ctx)
  if ty == 0x86dd:
    return _d_ipv6(d, off, end, ctx)
  if ty == 0x88cc:
    return _d_lldp(d, off, end, ctx)
  if ty == 0x888e:
    return _d_eapol(d, off, end, ctx)
  if ty in (0x8847, 0x8848):
    return _d_mpls(d, off, end, ctx)
  d.payload = (off, end)


def _d_eth(d, off, end, ctx):
  b = d.frame
  _need(b, off, 14, end, "eth")
  l = d.layer("eth", off, off + 14)
  _flds(l, off, ("dst", 6), ("src", 6), ("type", 2))
  return _d_ethertype(d, _u16(b, off + 12), off + 14, end, ctx)


def _d_llc(d, off, end, ctx, length):
  b = d.frame
  _need(b, off, 3, end, "llc")
  if not ctx.get("embedded"):
    # IEEE 802.3 length field counts the LLC PDU; padding may follow
    d.checks.append({"name": "802.3.length", "off": off - 2, "size": 2, "got": length,
                     "want": length if length <= end - off and ctx.get("padded") else end - off})
  l = d.layer("llc", off, off + 3)
  o = _flds(l, off, ("dsap", 1), ("ssap", 1), ("ctrl", 1))
  if (b[off + 2] & 3) != 3:
    _need(b, o, 1, end, "llc control")
    l["f"]["ctrl"] = (off + 2, 2)
    o += 1
  if (b[off] & 0xfe) == 0xaa and (b[off + 1] & 0xfe) == 0xaa:
    _need(b, o, 5, end, "snap")
    _flds(l, o, ("oui", 3), ("snap_type", 2))
    l["end"] = o + 5
    if b[o:o + 3] == b"\0\0\0":
      ty = _u16(b, o + 3)
      if ty >= 1536:
        return _d_ethertype(d, ty, o + 5, end, ctx)
    d.payload = (o + 5, end)
    return
  l["end"] = o
  d.payload = (o, end)


def _d_arp(d, off, end, ctx):
  b = d.frame
  _need(b, off, 8, end, "arp")
  hl, pl = b[off + 4], b[off + 5]
  _need(b, off, 8 + 2 * hl + 2 * pl, end, "arp addresses")
  l = d.layer("arp", off, off + 8 + 2 * hl + 2 * pl)
  o = _flds(l, off, ("hwtype", 2), ("prototype", 2), ("hwlen", 1), ("protolen", 1), ("op", 2),
            ("sha", hl), ("spa", pl), ("tha", hl), ("tpa", pl))
  d.payload = (o, end)


def _d_ipv4(d, off, end, ctx):
  b = d.frame
  _need(b, off, 20, end, "ipv4")
  ihl = b[off] & 0xf
  l = d.layer("ipv4", off, off + 20)
  _flds(l, off, ("vhl", 1), ("tos", 1), ("totlen", 2), ("id", 2), ("fragword", 2), ("ttl", 1), ("proto", 1),
        ("csum", 2), ("src", 4), ("dst", 4))
  if (b[off] >> 4) != 4 or ihl < 5:
    d.error = "ipv4 version/ihl"
    return
  _need(b, off, ihl * 4, end, "ipv4 options")
  l["end"] = off + ihl * 4
  if ihl > 5:
    l["f"]["opts"] = (off + 20, ihl * 4 - 20)
    oo, oe = off + 20, off + ihl * 4
    while oo < oe:
      if b[oo] in (0, 1):
        d.slots.append(("ip4opt", oo, 1))
        oo += 1
        continue
      if oo + 2 > oe or b[oo + 1] < 2 or oo + b[oo + 1] > oe:
        d.slots.append(("ip4opt", oo, oe - oo))
        break
      d.slots.append(("ip4opt", oo, b[oo + 1]))
      oo += b[oo + 1]
  tot = _u16(b, off + 2)
  if not ctx.get("embedded"):
    d.check("ipv4.totlen", off + 2, 2, end - off)
  hdr = bytearray(b[off:off + ihl * 4])
  hdr[10:12] = b"\0\0"
  d.check("ipv4.csum", off + 10, 2, R.checksum(hdr))
  pend = end
  if ihl * 4 <= tot <= end - off:
    pend = off + tot
  proto = b[off + 9]
  fragword = _u16(b, off + 6)
  c2 = dict(ctx, ip=4, src=b[off + 12:off + 16], dst=b[off + 16:off + 20], proto=proto)
  o = off + ihl * 4
  if fragword & 0x1fff:
    d.payload = (o, pend)
    return
  return _d_ipproto(d, proto, o, pend, c2)


def _d_ipproto(d, proto, off, end, ctx):
  if proto == 17:
    return _d_udp(d, off, end, ctx)
  if proto == 6:
    return _d_tcp(d, off, end, ctx)
  if proto == 1 and ctx.get("ip") == 4:
    return _d_icmp(d, off, end, ctx)
  if proto == 2 and ctx.get("ip") == 4:
    return _d_igmp(d, off, end, ctx)
  if proto == 47 and ctx.get("ip") == 4:
    return _d_gre(d, off, end, ctx)
  if proto == 58 and ctx.get("ip") == 6:
    return _d_icmp6(d, off, end, ctx)
  d.payload = (off, end)


def _d_ipv6(d, off, end, ctx):
  b = d.frame
  _need(b, off, 40, end, "ipv6")
  l = d.layer("ipv6", off, off + 40)
  _flds(l, off, ("vtf", 4), ("plen", 2), ("nh", 1), ("hlim", 1), ("src", 16), ("dst", 16))
  if (b[off] >> 4) != 6:
    d.error = "ipv6 version"
    return
  plen = _u16(b, off + 4)
  if not ctx.get("embedded"):
    d.check("ipv6.plen", off + 4, 2, end - off - 40)
  pend = end
  if plen <= end - off - 40 and not ctx.get("embedded"):
    pend = off + 40 + plen
  nh = b[off + 6]
  o = off + 40
  n = 0
  frag = False
  while nh in EXT_HEADERS:
    if nh == 44:
      _need(b, o, 8, pend, "ipv6 fragment header")
      e = d.layer("ipv6.frag", o, o + 8)
      d.slots.append(("ext6", o, 8))
      _flds(e, o, ("nh", 1), ("res", 1), ("fragword", 2), ("ident", 4))
      if _u16(b, o + 2) & 0xfff8:
        frag = True
      nh, o = b[o], o + 8
    else:
      _need(b, o, 2, pend, "ipv6 extension header")
      ln = (b[o + 1] + 1) * 8
      _need(b, o, ln, pend, "ipv6 extension header body")
      e = d.layer("ipv6.ext%d" % nh, o, o + ln)
      d.slots.append(("ext6", o, ln))
      _flds(e, o, ("nh", 1), ("len", 1), ("body", ln - 2))
      nh, o = b[o], o + ln
    n += 1
    if n > 64:
      d.error = "too many extension headers"
      return
  c2 = dict(ctx, ip=6, src=b[off + 8:off + 24], dst=b[off + 24:off + 40], proto=nh)
  if nh == 59 or frag:
    d.payload = (o, pend)
    return
  return _d_ipproto(d, nh, o, pend, c2)


def _l4sum(ctx, proto, seg):
  if ctx.get("ip") == 4:
    return R.l4_checksum4(ctx["src"], ctx["dst"], proto, seg)
  if ctx.get("ip") == 6:
    return R.l4_checksum6(ctx["src"], ctx["dst"], proto, seg)
  return None


def _d_udp(d, off, end, ctx):
  b = d.frame
  _need(b, off, 8, end, "udp")
  l = d.layer("udp", off, off + 8)
  _flds(l, off, ("sport", 2), ("dport", 2), ("len", 2), ("csum", 2))
  ulen = _u16(b, off + 4)
  if not ctx.get("embedded"):
    d.check("udp.len", off + 4, 2, end - off)
    seg = bytearray(b[off:end])
    seg[6:8] = b"\0\0"
    c = _l4sum(ctx, 17, seg)
    if c is not None:
      d.check("udp.csum", off + 6, 2, R.udp_value(c))
  sp, dp = _u16(b, off), _u16(b, off + 2)
  o = off + 8
  if ctx.get("embedded"):
    d.payload = (o, end)
    return
  if dp in (67, 68):
    return _d_dhcp(d, o, end, ctx)
  if 53 in (sp, dp) or 5353 in (sp, dp):
    return _d_dns(d, o, end, ctx)
  if 520 in (sp, dp):
    return _d_rip(d, o, end, ctx)
  if 4789 in (sp, dp):
    return _d_vxlan(d, o, end, ctx)
  d.payload = (o, end)


def _d_tcp(d, off, end, ctx):
  b = d.frame
  _need(b, off, 20, end, "tcp")
  l = d.layer("tcp", off, off + 20)
  _flds(l, off, ("sport", 2), ("dport", 2), ("seq", 4), ("ack", 4), ("offres", 1), ("flags", 1), ("win", 2),
        ("csum", 2), ("urg", 2))
  if ctx.get("embedded"):
    doff = b[off + 12] >> 4
    if doff >= 5 and off + doff * 4 <= end:
      l["end"] = off + doff * 4
      d.payload = (off + doff * 4, end)
    else:
      d.payload = (off + 20, end)
    return
  doff = b[off + 12] >> 4
  if doff < 5 or off + doff * 4 > end:
    d.error = "tcp data offset"
    d.checks.append({"name": "tcp.off", "off": off + 12, "size": 1, "got": doff, "want": "5..%d" % ((end - off) // 4)})
    return
  l["end"] = off + doff * 4
  if doff > 5:
    l["f"]["opts"] = (off + 20, doff * 4 - 20)
  # walk the options: every option must lie inside the header
  o, oe = off + 20, off + doff * 4
  k = 0
  while o < oe:
    kind = b[o]
    if kind == 0:
      d.slots.append(("tcpopt", o, oe - o))
      if any(b[o:oe]):
        d.checks.append({"name": "tcp.opt-padding", "off": o, "size": oe - o, "got": b[o:oe].hex(), "want": "zeros after EOL"})
      break
    if kind == 1:
      d.slots.append(("tcpopt", o, 1))
      o += 1
      continue
    if o + 2 > oe or b[o + 1] < 2 or o + b[o + 1] > oe:
      d.checks.append({"name": "tcp.opt-len", "off": o, "size": 2, "got": b[o:o + 2].hex(), "want": "option inside the %d option bytes" % (oe - off - 20)})
      d.error = "tcp option length"
      break
    want = {2: 4, 3: 3, 4: 2, 8: 10}.get(kind)
    if want is not None:
      d.check("tcp.opt%d-len" % kind, o + 1, 1, want)
    elif kind == 5:
      d.check("tcp.opt5-len", o + 1, 1, 2 + 8 * ((b[o + 1] - 2) // 8))
    l["f"]["opt%d_%d" % (k, kind)] = (o, b[o + 1])
    d.slots.append(("tcpopt", o, b[o + 1]))
    o += b[o + 1]
    k += 1
  seg = bytearray(b[off:end])
  seg[16:18] = b"\0\0"
  c = _l4sum(ctx, 6, seg)
  if c is not None:
    d.check("tcp.csum", off + 16, 2, c)
  d.payload = (off + doff * 4, end)


def _d_icmp(d, off, end, ctx):
  b = d.frame
  _need(b, off, 4, end, "icmp")
  l = d.layer("icmp", off, off + 4)
  _flds(l, off, ("type", 1), ("code", 1), ("csum", 2))
  if not ctx.get("embedded"):
    m = bytearray(b[off:end])
    m[2:4] = b"\0\0"
    d.check("icmp.csum", off + 2, 2, R.checksum(m))
  ty = b[off]
  o = off + 4
  if ctx.get("embedded"):
    d.payload = (o, end)
    return
  if ty in (0, 8):
    _need(b, o, 4, end, "icmp echo")
    e = d.layer("icmp.echo", o, o + 4)
    _flds(e, o, ("id", 2), ("seq", 2))
    d.payload = (o + 4, end)
    return
  if ty in (3, 11):
    _need(b, o, 4, end, "icmp error")
    e = d.layer("icmp.unreach" if ty == 3 else "icmp.timex", o, o + 4)
    if ty == 3:
      _flds(e, o, ("unused", 2), ("mtu", 2))
    else:
      _flds(e, o, ("unused", 4))
    if end - (o + 4) >= 20 and (b[o + 4] >> 4) == 4 and (b[o + 4] & 0xf) >= 5:
      return _d_ipv4(d, o + 4, end, dict(ctx, embedded=True))
    d.payload = (o + 4, end)
    return
  d.payload = (o, end)


def _d_nd_options(d, o, end):
  b = d.frame
  k = 0
  while o < end:
    _need(b, o, 2, end, "nd option")
    ln = b[o + 1] * 8
    if ln == 0 or o + ln > end:
      d.checks.append({"name": "nd.opt-len", "off": o + 1, "size": 1, "got": b[o + 1], "want": "1..%d" % ((end - o) // 8)})
      d.error = "nd option length"
      return
    want = {1: 1, 2: 1, 3: 4, 5: 1}.get(b[o])
    if want is not None:
      d.check("nd.opt%d-len" % b[o], o + 1, 1, want)
    d.layers[-1]["f"]["opt%d_%d" % (k, b[o])] = (o, ln)
    d.slots.append(("ndopt", o, ln))
    o += ln
    k += 1
  d.layers[-1]["end"] = o


def _d_icmp6(d, off, end, ctx):
  b = d.frame
  _need(b, off, 4, end, "icmp6")
  l = d.layer("icmp6", off, off + 4)
  _flds(l, off, ("type", 1), ("code", 1), ("csum", 2))
  if not ctx.get("embedded"):
    m = bytearray(b[off:end])
    m[2:4] = b"\0\0"
    d.check("icmp6.csum", off + 2, 2, R.l4_checksum6(ctx["src"], ctx["dst"], 58, m))
  ty = b[off]
  o = off + 4
  if ctx.get("embedded"):
    d.payload = (o, end)
    return
  if ty in (128, 129):
    _need(b, o, 4, end, "icmp6 echo")
    e = d.layer("icmp6.echo", o, o + 4)
    _flds(e, o, ("id", 2), ("seq", 2))
    d.payload = (o + 4, end)
    return
  if ty in (1, 2, 3):
    _need(b, o, 4, end, "icmp6 error")
    e = d.layer("icmp6.err%d" % ty, o, o + 4)
    _flds(e, o, ("word", 4))
    if ty == 1 and end - (o + 4) >= 40 and (b[o + 4] >> 4) == 6:
      return _d_ipv6(d, o + 4, end, dict(ctx, embedded=True))
    d.payload = (o + 4, end)
    return
  if ty == 133:
    _need(b, o, 4, end, "nd rs")
    e = d.layer("nd.rs", o, o + 4)
    _flds(e, o, ("res", 4))
    return _d_nd_options(d, o + 4, end)
  if ty == 134:
    _need(b, o, 12, end, "nd ra")
    e = d.layer("nd.ra", o, o + 12)
    _flds(e, o, ("hlim", 1), ("flags", 1), ("lifetime", 2), ("reachable", 4), ("retrans", 4))
    return _d_nd_options(d, o + 12, end)
  if ty in (135, 136):
    _need(b, o, 20, end, "nd ns/na")
    e = d.layer("nd.ns" if ty == 135 else "nd.na", o, o + 20)
    _flds(e, o, ("flags", 4), ("target", 16))
    return _d_nd_options(d, o + 20, end)
  d.payload = (o, end)


def _d_dhcp(d, off, end, ctx):
  b = d.frame
  _need(b, off, 240, end, "dhcp")
  l = d.layer("dhcp", off, end)
  _flds(l, off, ("op", 1), ("htype", 1), ("hlen", 1), ("hops", 1), ("xid", 4), ("secs", 2), ("flags", 2),
        ("ciaddr", 4), ("yiaddr", 4), ("siaddr", 4), ("giaddr", 4), ("chaddr", 16), ("sname", 64), ("file", 128),
        ("magic", 4))
  if b[off + 236:off + 240] != b"\x63\x82\x53\x63":
    d.payload = (off + 240, end)
    return
  o = off + 240
  k = 0
  seen_end = False
  while o < end:
    code = b[o]
    if code == 255:
      seen_end = True
      o += 1
      break
    if code == 0:
      o += 1
      continue
    if o + 2 > end or o + 2 + b[o + 1] > end:
      d.checks.append({"name": "dhcp.opt-len", "off": o + 1, "size": 1, "got": b[o + 1] if o + 1 < end else None, "want": "option inside the datagram"})
      d.error = "dhcp option length"
      return
    l["f"]["opt%d_%d" % (k, code)] = (o, 2 + b[o + 1])
    d.slots.append(("dhcpopt", o, 2 + b[o + 1]))
    o += 2 + b[o + 1]
    k += 1
  l["end"] = o


def _dns_skip_name(b, o, end, base, what):
  hops = 0
  while True:
    _need(b, o, 1, end, what)
    c = b[o]
    if c == 0:
      return o + 1
    if (c & 0xc0) == 0xc0:
      _need(b, o, 2, end, what)
      ptr = ((c & 0x3f) << 8) | b[o + 1]
      if base + ptr >= o:
        raise _Short(what + ": forward pointer")
      return o + 2
    if c & 0xc0:
      raise _Short(what + ": label type")
    _need(b, o, 1 + c, end, what)
    o += 1 + c
    hops += 1
    if hops > 128:
      raise _Short(what + ": too many labels")


def _d_dns(d, off, end, ctx):
  b = d.frame
  _need(b, off, 12, end, "dns")
  l = d.layer("dns", off, end)
  o = _flds(l, off, ("id", 2), ("bits0", 1), ("bits1", 1), ("qdcount", 2), ("ancount", 2), ("nscount", 2),
            ("arcount", 2))
  nq = _u16(b, off + 4)
  nrr = _u16(b, off + 6) + _u16(b, off + 8) + _u16(b, off + 10)
  for i in range(nq):
    o2 = _dns_skip_name(b, o, end, off, "dns question name")
    _need(b, o2, 4, end, "dns question")
    l["f"]["q%d" % i] = (o, o2 + 4 - o)
    o = o2 + 4
  for i in range(nrr):
    o2 = _dns_skip_name(b, o, end, off, "dns rr name")
    _need(b, o2, 10, end, "dns rr")
    rdl = _u16(b, o2 + 8)
    _need(b, o2 + 10, rdl, end, "dns rdata")
    ty = _u16(b, o2)
    # rdlength must cover exactly the rdata of the types with a fixed or self-delimiting format
    if ty == 1:
      d.check("dns.rdlength", o2 + 8, 2, 4)
    elif ty == 28:
      d.check("dns.rdlength", o2 + 8, 2, 16)
    elif ty in (2, 5, 12, 15):
      s = o2 + 10 + (2 if ty == 15 else 0)
      e = _dns_skip_name(b, s, o2 + 10 + rdl, off, "dns rdata name")
      d.check("dns.rdlength", o2 + 8, 2, e - (o2 + 10))
    l["f"]["rr%d" % i] = (o, o2 + 10 + rdl - o)
    l["f"]["rr%d_rdlen" % i] = (o2 + 8, 2)
    o = o2 + 10 + rdl
  if o != end:
    d.checks.append({"name": "dns.counts", "off": off + 4, "size": 8, "got": b[off + 4:off + 12].hex(),
                     "want": "sections ending at the end of the message (%d bytes left)" % (end - o)})


def _d_lldp(d, off, end, ctx):
  b = d.frame
  l = d.layer("lldp", off, end)
  o = off
  k = 0
  while True:
    _need(b, o, 2, end, "lldp tlv header")
    tl = _u16(b, o)
    ty, ln = tl >> 9, tl & 0x1ff
    _need(b, o + 2, ln, end, "lldp tlv value")
    l["f"]["tlv%d_%d" % (k, ty)] = (o, 2 + ln)
    d.slots.append(("lldptlv", o, 2 + ln))
    want = {0: 0, 3: 2, 7: 4}.get(ty)
    if want is not None:
      d.checks.append({"name": "lldp.tlv%d-len" % ty, "off": o, "size": 2, "got": ln, "want": want})
    if ty == 8 and ln >= 2:
      asl = b[o + 2]
      if 2 + 1 + asl + 5 < ln + 2:
        oidl = b[o + 2 + 1 + asl + 5]
        d.checks.append({"name": "lldp.mgmt-len", "off": o, "size": 2, "got": ln, "want": 1 + asl + 5 + 1 + oidl})
    o += 2 + ln
    k += 1
    if ty == 0:
      break
  l["end"] = o
  d.payload = (o, end)


def _d_eapol(d, off, end, ctx):
  b = d.frame
  _need(b, off, 4, end, "eapol")
  l = d.layer("eapol", off, off + 4)
  _flds(l, off, ("ver", 1), ("type", 1), ("bodylen", 2))
  o = off + 4
  if b[off + 1] == 0:
    _need(b, o, 4, end, "eap")
    e = d.layer("eap", o, o + 4)
    _flds(e, o, ("code", 1), ("id", 1), ("length", 2))
    if b[o] in (1, 2) and o + 5 <= end:
      e["f"]["type"] = (o + 4, 1)
      e["end"] = o + 5
      d.payload = (o + 5, end)
    else:
      d.payload = (o + 4, end)
    return
  d.payload = (o, end)


def _d_mpls(d, off, end, ctx):
  b = d.frame
  n = 0
  while True:
    _need(b, off, 4, end, "mpls")
    l = d.layer("mpls", off, off + 4)
    _flds(l, off, ("word", 4))
    s = b[off + 2] & 1
    off += 4
    n += 1
    if s or end - off < 4:
      break
  d.payload = (off, end)


def _d_gre(d, off, end, ctx):
  b = d.frame
  _need(b, off, 4, end, "gre")
  l = d.layer("gre", off, off + 4)
  o = _flds(l, off, ("flags", 2), ("ptype", 2))
  fl = _u16(b, off)
  if fl & 0xc000:
    _need(b, o, 4, end, "gre checksum/offset")
    o = _flds(l, o, ("csum", 2), ("route_offset", 2))
    if fl & 0x8000:
      m = bytearray(b[off:end])
      m[4:6] = b"\0\0"
      d.check("gre.csum", off + 4, 2, R.checksum(m))
  if fl & 0x2000:
    _need(b, o, 4, end, "gre key")
    o = _flds(l, o, ("key", 4))
  if fl & 0x1000:
    _need(b, o, 4, end, "gre seq")
    o = _flds(l, o, ("seq", 4))
  if fl & 0x4000:
    k = 0
    while True:
      _need(b, o, 4, end, "gre sre")
      sl = b[o + 3]
      _need(b, o + 4, sl, end, "gre sre data")
      l["f"]["sre%d" % k] = (o, 4 + sl)
      d.slots.append(("gresre", o, 4 + sl))
      o += 4 + sl
      k += 1
      if sl == 0:
        break
  l["end"] = o
  pt = _u16(b, off + 2)
  c2 = dict(ctx, ip=None)
  if pt == 0x0800:
    return _d_ipv4(d, o, end, c2)
  if pt == 0x6558:
    return _d_eth(d, o, end, c2)
  d.payload = (o, end)


def _d_vxlan(d, off, end, ctx):
  b = d.frame
  _need(b, off, 8, end, "vxlan")
  l = d.layer("vxlan", off, off + 8)
  _flds(l, off, ("flags", 1), ("res1", 3), ("vni", 3), ("res2", 1))
  return _d_eth(d, off + 8, end, dict(ctx, ip=None))


def _d_igmp(d, off, end, ctx):
  b = d.frame
  _need(b, off, 8, end, "igmp")
  l = d.layer("igmp", off, end)
  m = bytearray(b[off:end])
  m[2:4] = b"\0\0"
  d.check("igmp.csum", off + 2, 2, R.checksum(m))
  if b[off] == 0x22:
    o = _flds(l, off, ("type", 1), ("res1", 1), ("csum", 2), ("res2", 2), ("nrec", 2))
    n = _u16(b, off + 6)
    for i in range(n):
      _need(b, o, 8, end, "igmp group record")
      auxl, ns = b[o + 1] * 4, _u16(b, o + 2)
      _need(b, o, 8 + 4 * ns + auxl, end, "igmp group record body")
      l["f"]["rec%d" % i] = (o, 8 + 4 * ns + auxl)
      d.slots.append(("igmprec", o, 8 + 4 * ns + auxl))
      l["f"]["rec%d_nsrc" % i] = (o + 2, 2)
      l["f"]["rec%d_auxlen" % i] = (o + 1, 1)
      o += 8 + 4 * ns + auxl
    d.payload = (o, end)
  else:
    o = _flds(l, off, ("type", 1), ("mrt", 1), ("csum", 2), ("group", 4))
    d.payload = (o, end)


def _d_rip(d, off, end, ctx):
  b = d.frame
  _need(b, off, 4, end, "rip")
  l = d.layer("rip", off, end)
  o = _flds(l, off, ("cmd", 1), ("ver", 1), ("zero", 2))
  k = 0
  while o + 20 <= end:
    l["f"]["entry%d" % k] = (o, 20)
    o += 20
    k += 1
  if o != end:
    d.checks.append({"name": "rip.entries", "off": o, "size": end - o, "got": end - o, "want": 0})


_PROTO_NAME = {"echo": "icmp.echo", "unreach": "icmp.unreach", "timex": "icmp.timex", "echo6": "icmp6.echo",
               "toobig": "icmp6.err2", "timex6": "icmp6.err3", "unreach6": "icmp6.err1", "nd_rs": "nd.rs",
               "nd_ra": "nd.ra", "nd_ns": "nd.ns", "nd_na": "nd.na", "igmp3": "igmp"}


def expected_protos(spec):
  """the dissector's layer names for a well-formed frame built from spec"""
  out = []
  for rec in spec:
    t = rec["t"]
    if t == "raw":
      continue
    out.append(_PROTO_NAME.get(t, t))
    if t == "ipv6":
      for e in rec.get("ext", []):
        out.append("ipv6.frag" if e["k"] == 44 else "ipv6.ext%d" % e["k"])
  return out


def dissect(frame, padded=False):
  frame = bytes(frame)
  d = Dissection(frame)
  try:
    _d_eth(d, 0, len(frame), {"padded": padded})
  except _Short as e:
    d.error = "short: %s" % (e,)
  except (IndexError, struct.error) as e:     # defensive: the dissector must never raise
    d.error = "dissector: %r" % (e,)
  return d


def reaches_parser(frame):
  """True when the link-layer header selects a POX parser below Ethernet."""
  if len(frame) < 14:
    return False
  ty = (frame[12] << 8) | frame[13]
  return ty in POX_ETHERTYPES or ty < 1536


def fix_checksums(frame):
  """Recompute every checksum the dissector locates (innermost first, so that outer sums cover
  corrected inner ones).  Length fields are left as they are."""
  frame = bytearray(frame)
  for _ in range(6):
    d = dissect(bytes(frame))
    bad = [c for c in d.checks if c["name"].endswith(".csum") and c["got"] != c["want"]]
    if not bad:
      break
    c = max(bad, key=lambda c: c["off"])
    frame[c["off"]:c["off"] + 2] = struct.pack("!H", c["want"])
  return bytes(frame)


# --------------------------------------------------------------------------- catalog

M1 = bytes.fromhex("020000000001")
M2 = bytes.fromhex("020000000002")
A1 = bytes([10, 0, 0, 1])
A2 = bytes([10, 0, 0, 2])
S1 = bytes.fromhex("20010db8000000000000000000000001")
S2 = bytes.fromhex("20010db8000000000000000000000002")


def _eth(**kw):
  r = {"t": "eth", "dst": M2, "src": M1}
  r.update(kw)
  return r


def _ip4(**kw):
  r = {"t": "ipv4", "src": A1, "dst": A2, "id": 1, "ttl": 64}
  r.update(kw)
  return r


def _ip6(**kw):
  r = {"t": "ipv6", "src": S1, "dst": S2, "hlim": 64}
  r.update(kw)
  return r


def _raw(n):
  return {"t": "raw", "len": n, "pat": 2}


NOPAY = {"t": "raw", "len": 0, "pat": 0, "fixed": True}     # the message kind admits no payload


def catalog(n=6):
  """[(name, spec)]: one minimal instance per protocol / message kind.  n is the payload length used
  where a free payload exists."""
  P = _raw(n)
  inner4 = [_ip4(id=7), {"t": "udp", "sport": 1000, "dport": 2000}]     # embedded datagram head: 20 + 8 bytes
  tcp_all = [{"k": "mss", "v": 1460}, {"k": "nop"}, {"k": "ws", "v": 7}, {"k": "sackperm"}, {"k": "ts", "v": [1, 2]}]
  lldp_min = [{"k": "chassis", "sub": 4, "id": M1}, {"k": "port", "sub": 2, "id": b"1"}, {"k": "ttl", "v": 120}]
  out = [
    ("eth-raw", [_eth(type=0x88b5), P]),
    ("arp", [_eth(), {"t": "arp", "op": 1, "sha": M1, "spa": A1, "tha": b"\0" * 6, "tpa": A2}, NOPAY]),
    ("rarp", [_eth(), {"t": "arp", "rarp": True, "op": 3, "sha": M1, "spa": A1, "tha": M1, "tpa": A2}, NOPAY]),
    ("vlan-arp", [_eth(), {"t": "vlan", "pcp": 3, "cfi": 0, "id": 100},
                  {"t": "arp", "op": 2, "sha": M1, "spa": A1, "tha": M2, "tpa": A2}, NOPAY]),
    ("vlan-cfi-raw", [_eth(), {"t": "vlan", "pcp": 0, "cfi": 1, "id": 1, "type": 0x88b5}, P]),
    ("qinq-ipv4-udp", [_eth(), {"t": "vlan", "pcp": 1, "id": 10}, {"t": "vlan", "pcp": 2, "id": 20}, _ip4(), {"t": "udp"}, P]),
    ("llc-raw", [_eth(), {"t": "llc", "dsap": 0x42, "ssap": 0x42, "ctrl": 3}, P]),
    ("llc-i-raw", [_eth(), {"t": "llc", "dsap": 0x42, "ssap": 0x42, "ctrl": 0x0204}, P]),
    ("snap-ipv4-udp", [_eth(), {"t": "llc", "dsap": 0xaa, "ssap": 0xaa, "ctrl": 3, "snap": {"oui": b"\0\0\0"}}, _ip4(), {"t": "udp"}, P]),
    ("snap-oui-raw", [_eth(), {"t": "llc", "dsap": 0xaa, "ssap": 0xaa, "ctrl": 3, "snap": {"oui": b"\x00\x00\x0c", "type": 0x2000}}, P]),
    # SNAP SAPs with a two-octet (I- / S-format) control field, plain and VLAN-tagged, OUI zero and non-zero
    ("snap-i-ipv4-udp", [_eth(), {"t": "llc", "dsap": 0xaa, "ssap": 0xaa, "ctrl": 0x0204, "snap": {"oui": b"\0\0\0"}}, _ip4(), {"t": "udp"}, P]),
    ("snap-s-arp", [_eth(), {"t": "llc", "dsap": 0xaa, "ssap": 0xab, "ctrl": 0x0101, "snap": {"oui": b"\0\0\0"}},
                    {"t": "arp", "op": 1, "sha": M1, "spa": A1, "tha": b"\0" * 6, "tpa": A2}, NOPAY]),
    ("snap-i-oui-raw", [_eth(), {"t": "llc", "dsap": 0xab, "ssap": 0xaa, "ctrl": 0x7e00, "snap": {"oui": b"\x00\x00\x0c", "type": 0x2000}}, P]),
    ("vlan-snap-i-raw", [_eth(), {"t": "vlan", "pcp": 5, "id": 7}, {"t": "llc", "dsap": 0xaa, "ssap": 0xaa, "ctrl": 0x0002,
                                                                     "snap": {"oui": b"\0\0\0", "type": 0x88b5}}, P]),
    ("vlan-snap-s-oui-raw", [_eth(), {"t": "vlan", "pcp": 0, "id": 4095}, {"t": "llc", "dsap": 0xaa, "ssap": 0xaa, "ctrl": 0xff05,
                                                                          "snap": {"oui": b"\x08\x00\x07", "type": 0x809b}}, P]),
    ("vlan-snap-ipv4-udp", [_eth(), {"t": "vlan", "pcp": 1, "id": 10}, {"t": "llc", "dsap": 0xaa, "ssap": 0xaa, "ctrl": 3, "snap": {"oui": b"\0\0\0"}}, _ip4(), {"t": "udp"}, P]),
    ("vlan-llc-s-raw", [_eth(), {"t": "vlan", "pcp": 1, "id": 10}, {"t": "llc", "dsap": 0x42, "ssap": 0x43, "ctrl": 0x0a01}, P]),
    ("ipv4-raw", [_eth(), _ip4(proto=253), P]),
    ("ipv4-opts-raw", [_eth(), _ip4(proto=253, opts=b"\x94\x04\x00\x00"), P]),
    ("ipv4-frag-udp", [_eth(), _ip4(proto=17, flags=1, frag=185), P]),
    ("ipv4-udp", [_eth(), _ip4(), {"t": "udp"}, P]),
    ("ipv4-tcp", [_eth(), _ip4(), {"t": "tcp"}, P]),
    ("ipv4-tcp-opts", [_eth(), _ip4(), {"t": "tcp", "opts": tcp_all}, P]),
    ("ipv4-tcp-synopts", [_eth(), _ip4(), {"t": "tcp", "opts": [{"k": "mss", "v": 1460}, {"k": "nop"}, {"k": "ws", "v": 7}, {"k": "nop"}, {"k": "nop"}, {"k": "sackperm"}]}, P]),
    ("ipv4-tcp-sack", [_eth(), _ip4(), {"t": "tcp", "flags": 0x10, "opts": [{"k": "nop"}, {"k": "nop"}, {"k": "sack", "v": [[100, 200]]}]}, P]),
    ("ipv4-tcp-unkopt", [_eth(), _ip4(), {"t": "tcp", "opts": [{"k": "unk", "type": 254, "data": b"\x01\x02"}]}, P]),
    ("ipv4-tcp-mpcap", [_eth(), _ip4(), {"t": "tcp", "opts": [{"k": "mpcap", "flags": 0x81, "skey": b"12345678"}]}, P]),
    ("ipv4-tcp-mpjoin", [_eth(), _ip4(), {"t": "tcp", "opts": [{"k": "mpjoin", "phase": 1, "addr_id": 2, "rtoken": b"abcd", "srand": b"efgh"}]}, P]),
    ("ipv4-tcp-mpdss-max", [_eth(), _ip4(), {"t": "tcp", "flags": 0x10, "opts": [{"k": "mpdss", "flags": 0x1f, "ack": 2 ** 40, "dsn": 2 ** 41, "seq": 7, "length": 6, "csum": 5}]}, P]),
    ("ipv4-tcp-mpdss", [_eth(), _ip4(), {"t": "tcp", "opts": [{"k": "mpdss", "flags": 5, "ack": 9, "dsn": 8, "seq": 7, "length": 6, "csum": 5}]}, P]),
    ("ipv4-icmp-echo", [_eth(), _ip4(), {"t": "icmp", "type": 8}, {"t": "echo", "id": 1, "seq": 2}, P]),
    ("ipv4-icmp-unreach", [_eth(), _ip4(), {"t": "icmp", "type": 3, "code": 3}, {"t": "unreach"}] + inner4 + [_raw(0)]),
    ("ipv4-icmp-timex", [_eth(), _ip4(), {"t": "icmp", "type": 11}, {"t": "timex"}] + inner4 + [_raw(0)]),
    ("ipv4-icmp-other", [_eth(), _ip4(), {"t": "icmp", "type": 13}, P]),
    ("ipv4-igmp2", [_eth(), _ip4(ttl=1), {"t": "igmp", "vt": 0x16, "mrt": 0, "addr": bytes([224, 1, 2, 3])}]),
    ("ipv4-igmp3", [_eth(), _ip4(ttl=1), {"t": "igmp3", "records": [{"type": 1, "srcs": [A1], "addr": bytes([224, 1, 2, 3])}]}]),
    ("ipv4-gre-ipv4-udp", [_eth(), _ip4(), {"t": "gre"}, _ip4(id=2), {"t": "udp"}, P]),
    ("ipv4-gre-key-eth", [_eth(), _ip4(), {"t": "gre", "key": 5, "seq": 6, "csum": "auto"}, _eth(type=0x88b5), P]),
    ("ipv4-gre-route-raw", [_eth(), _ip4(), {"t": "gre", "type": 0x88b5, "routing": [[0x0800, 4, A1 + A2]]}, P]),
    ("ipv4-udp-dhcp", [_eth(), _ip4(), {"t": "udp"}, {"t": "dhcp", "xid": 0x1234, "chaddr": M1, "opts": [
        {"code": 53, "k": "msgtype", "v": 1}, {"code": 55, "k": "params", "v": b"\x01\x03\x06"},
        {"code": 50, "k": "ip", "v": A2}, {"code": 6, "k": "ips", "v": [A1, A2]}, {"code": 51, "k": "secs", "v": 3600},
        {"code": 12, "k": "raw", "v": b"host"}]}]),
    ("ipv4-udp-dns-q", [_eth(), _ip4(), {"t": "udp"}, {"t": "dns", "id": 7, "rd": True, "q": [{"name": "a.example.com", "qtype": 1, "qclass": 1}]}]),
    ("ipv4-udp-dns-rr", [_eth(), _ip4(), {"t": "udp", "sport": 53, "dport": 0xc001}, {"t": "dns", "id": 7, "qr": True, "q": [{"name": "a.example.com", "qtype": 1, "qclass": 1}],
        "an": [{"name": "a.example.com", "qtype": 1, "qclass": 1, "ttl": 60, "rd": {"a": A1}},
               {"name": "a.example.com", "qtype": 5, "qclass": 1, "ttl": 60, "rd": {"name": "b.example.com"}}],
        "ns": [{"name": "example.com", "qtype": 2, "qclass": 1, "ttl": 60, "rd": {"name": "ns.example.com"}}],
        "ar": [{"name": "ns.example.com", "qtype": 28, "qclass": 1, "ttl": 60, "rd": {"aaaa": S1}},
               {"name": "t.example.com", "qtype": 16, "qclass": 1, "ttl": 60, "rd": {"raw": b"\x03abc"}}]}]),
    ("ipv4-udp-mdns", [_eth(), _ip4(), {"t": "udp", "mdns": True}, {"t": "dns", "id": 0}]),
    ("ipv4-udp-rip", [_eth(), _ip4(), {"t": "udp"}, {"t": "rip", "cmd": 2, "ver": 2, "entries": [
        {"af": 2, "tag": 1, "ip": bytes([10, 1, 0, 0]), "mask": bytes([255, 255, 0, 0]), "nh": A1, "metric": 3}]}]),
    ("ipv4-udp-vxlan", [_eth(), _ip4(), {"t": "udp"}, {"t": "vxlan", "vni": 5000}, _eth(type=0x88b5), P]),
    ("ipv6-raw", [_eth(), _ip6(nh=253), P]),
    ("ipv6-nonext", [_eth(), _ip6(nh=59), NOPAY]),
    # extension headers that end exactly where the packet ends: chain closed by No Next Header, or followed by zero payload bytes
    ("ipv6-hbh-nonext", [_eth(), _ip6(nh=59, ext=[{"k": 0, "body": b"\x01\x04\0\0\0\0"}]), NOPAY]),
    ("ipv6-rt-nonext", [_eth(), _ip6(nh=59, ext=[{"k": 43, "body": b"\x00\x00\0\0\0\0"}]), NOPAY]),
    ("ipv6-dst-nonext", [_eth(), _ip6(nh=59, ext=[{"k": 60, "body": b"\x01\x0c" + b"\0" * 12}]), NOPAY]),
    ("ipv6-frag-nonext", [_eth(), _ip6(nh=59, ext=[{"k": 44, "body": b"\x00\x00\x00\x00\x00\x00\x02"}]), NOPAY]),
    ("ipv6-chain-nonext", [_eth(), _ip6(nh=59, ext=[{"k": 0, "body": b"\x01\x04\0\0\0\0"}, {"k": 60, "body": b"\x01\x04\0\0\0\0"},
                                                  {"k": 43, "body": b"\0" * 14}, {"k": 60, "body": b"\x01\x04\0\0\0\0"}]), NOPAY]),
    ("ipv6-dst-raw", [_eth(), _ip6(nh=253, ext=[{"k": 60, "body": b"\x01\x04\0\0\0\0"}]), P]),
    ("ipv6-hbh-rt-raw", [_eth(), _ip6(nh=253, ext=[{"k": 0, "body": b"\x01\x04\0\0\0\0"}, {"k": 43, "body": b"\0" * 6}]), P]),
    ("ipv6-udp", [_eth(), _ip6(), {"t": "udp"}, P]),
    ("ipv6-tcp", [_eth(), _ip6(), {"t": "tcp", "opts": [{"k": "mss", "v": 1440}]}, P]),
    ("ipv6-hbh-udp", [_eth(), _ip6(ext=[{"k": 0, "body": b"\x01\x04\0\0\0\0"}]), {"t": "udp"}, P]),
    ("ipv6-dst-tcp", [_eth(), _ip6(ext=[{"k": 60, "body": b"\x01\x04\0\0\0\0"}]), {"t": "tcp"}, P]),
    ("ipv6-rt-udp", [_eth(), _ip6(ext=[{"k": 43, "body": b"\x00\x00\0\0\0\0"}]), {"t": "udp"}, P]),
    ("ipv6-frag-raw", [_eth(), _ip6(nh=253, ext=[{"k": 44, "body": b"\x00\x00\x08\x00\x00\x00\x01"}]), P]),
    ("ipv6-frag0-udp", [_eth(), _ip6(ext=[{"k": 44, "body": b"\x00\x00\x00\x00\x00\x00\x01"}]), {"t": "udp"}, P]),
    ("ipv6-icmp6-echo", [_eth(), _ip6(), {"t": "icmp6", "type": 128}, {"t": "echo6", "id": 1, "seq": 2}, P]),
    ("ipv6-icmp6-other", [_eth(), _ip6(), {"t": "icmp6", "type": 130}, P]),
    ("ipv6-icmp6-rs", [_eth(), _ip6(), {"t": "icmp6", "type": 133}, {"t": "nd_rs", "opts": [{"k": "sll", "addr": M1}]}]),
    ("ipv6-icmp6-ra", [_eth(), _ip6(), {"t": "icmp6", "type": 134}, {"t": "nd_ra", "hlim": 64, "managed": True, "lifetime": 1800, "opts": [
        {"k": "sll", "addr": M1}, {"k": "mtu", "mtu": 1500}, {"k": "prefix", "plen": 64, "on_link": True, "auto": True, "valid": 86400, "pref": 14400, "prefix": S1[:8] + b"\0" * 8}]}]),
    ("ipv6-icmp6-ns", [_eth(), _ip6(), {"t": "icmp6", "type": 135}, {"t": "nd_ns", "target": S2, "opts": [{"k": "sll", "addr": M1}]}]),
    ("ipv6-icmp6-na", [_eth(), _ip6(), {"t": "icmp6", "type": 136}, {"t": "nd_na", "target": S2, "r": True, "s": True, "o": True, "opts": [{"k": "tll", "addr": M2}, {"k": "gen", "type": 14, "data": b"\x01\x02\x03\x04\x05\x06"}]}]),
    ("ipv6-icmp6-toobig", [_eth(), _ip6(), {"t": "icmp6", "type": 2}, {"t": "toobig", "mtu": 1280}, P]),
    ("ipv6-icmp6-timex", [_eth(), _ip6(), {"t": "icmp6", "type": 3}, {"t": "timex6"}, P]),
    ("ipv6-icmp6-unreach", [_eth(), _ip6(), {"t": "icmp6", "type": 1}, {"t": "unreach6"}, _raw(min(n, 38 + (n & 1)))]),   # 44+ bytes would be read as a quoted IPv6 datagram
    ("lldp", [_eth(dst=bytes.fromhex("0180c200000e")), {"t": "lldp", "tlvs": lldp_min + [{"k": "end"}]}]),
    ("lldp-all", [_eth(dst=bytes.fromhex("0180c200000e")), {"t": "lldp", "tlvs": lldp_min + [
        {"k": "portdesc", "v": b"eth0"}, {"k": "sysname", "v": b"sw1"}, {"k": "sysdesc", "v": b"switch"},
        {"k": "syscap", "cap": 0x14, "en": 0x04}, {"k": "mgmt", "asub": 1, "addr": A1, "isub": 2, "ifnum": 3, "oid": b"\x2b\x06"},
        {"k": "org", "oui": b"\x00\x26\xe1", "sub": 0, "data": b"dpid:1"}, {"k": "unk", "type": 9, "data": b"xy"}, {"k": "end"}]}]),
    ("mpls-raw", [_eth(), {"t": "mpls", "label": 16, "tc": 1, "ttl": 64}, P]),
    ("mpls2-raw", [_eth(), {"t": "mpls", "label": 100, "ttl": 64}, {"t": "mpls", "mc": False, "label": 0xfffff, "tc": 7, "ttl": 255}, P]),
    ("mplsmc-raw", [_eth(), {"t": "mpls", "mc": True, "label": 17, "ttl": 1}, P]),
    ("eapol-start", [_eth(dst=bytes.fromhex("0180c2000003")), {"t": "eapol", "ver": 1, "type": 1}, NOPAY]),
    ("eapol-eap-success", [_eth(dst=bytes.fromhex("0180c2000003")), {"t": "eapol", "ver": 2, "type": 0}, {"t": "eap", "code": 3, "id": 1}, NOPAY]),
    ("eapol-eap-request", [_eth(dst=bytes.fromhex("0180c2000003")), {"t": "eapol", "ver": 1, "type": 0}, {"t": "eap", "code": 1, "id": 2, "type": 1}, P]),
    ("eapol-key", [_eth(dst=bytes.fromhex("0180c2000003")), {"t": "eapol", "ver": 1, "type": 3}, P]),
  ]
  return out


# "unusual but well-formed text": valid 2-, 3- and 4-byte UTF-8 sequences (and the edges of each length class)
UTF8_TEXTS = [
  "Zo\u00eb\u2019s Mac \u65e5\u672c \U0001f600".encode("utf-8"),     # 2-, 3-, 3-, 4-byte sequences mixed with ASCII
  "caf\u00e9".encode("utf-8"), "\u2019".encode("utf-8"), "\u4e2d\u6587".encode("utf-8"), "\U0001f600\U0010ffff".encode("utf-8"),
  "\u0080\u07ff".encode("utf-8"), "\u0800\uffff".encode("utf-8"), "\U00010000".encode("utf-8"),
]


def text_catalog(text=None):
  """[(name, spec)]: frames whose text-bearing fields hold `text` (bytes).  Only for the parser corpus (C15): the names are
  raw octets, which POX's builder API does not take."""
  t = UTF8_TEXTS[0] if text is None else bytes(text)
  lab = t[:63]
  eap_dst = bytes.fromhex("0180c2000003")
  return [
    ("text-dns-q", [_eth(), _ip4(), {"t": "udp"}, {"t": "dns", "id": 1, "rd": True, "q": [{"name": lab + b".local", "qtype": 255, "qclass": 1}]}]),
    ("text-mdns-ptr", [_eth(), _ip4(), {"t": "udp", "mdns": True, "sport": 5353}, {"t": "dns", "id": 0, "qr": True, "aa": True, "an": [
        {"name": b"_http._tcp.local", "qtype": 12, "qclass": 1, "ttl": 120, "rd": {"name": lab + b"._http._tcp.local"}},
        {"name": lab + b"._http._tcp.local", "qtype": 16, "qclass": 0x8001, "ttl": 120, "rd": {"raw": bytes([min(len(t), 255)]) + t[:255]}},
        {"name": lab + b".local", "qtype": 5, "qclass": 1, "ttl": 120, "rd": {"name": b"host." + lab + b".example"}}]}]),
    ("text-lldp", [_eth(dst=bytes.fromhex("0180c200000e")), {"t": "lldp", "tlvs": [
        {"k": "chassis", "sub": 7, "id": t[:255]}, {"k": "port", "sub": 5, "id": t[:255]}, {"k": "ttl", "v": 120},
        {"k": "portdesc", "v": t}, {"k": "sysname", "v": t}, {"k": "sysdesc", "v": t}, {"k": "end"}]}]),
    ("text-dhcp", [_eth(), _ip4(), {"t": "udp"}, {"t": "dhcp", "xid": 1, "chaddr": M1, "sname": t[:64], "file": t[:128], "opts": [
        {"code": 53, "k": "msgtype", "v": 3}, {"code": 12, "k": "raw", "v": t[:255]}, {"code": 15, "k": "raw", "v": t[:255]},
        {"code": 56, "k": "raw", "v": t[:255]}, {"code": 81, "k": "raw", "v": b"\0\0\0" + t[:250]}]}]),
    ("text-eap-identity", [_eth(dst=eap_dst), {"t": "eapol", "ver": 1, "type": 0}, {"t": "eap", "code": 2, "id": 1, "type": 1}, {"t": "raw", "data": t}]),
    ("text-eap-notification", [_eth(dst=eap_dst), {"t": "eapol", "ver": 2, "type": 0}, {"t": "eap", "code": 1, "id": 2, "type": 2}, {"t": "raw", "data": t}]),
  ]


def has_free_payload(spec):
  return spec[-1]["t"] == "raw" and "len" in spec[-1] and spec[-1]["len"] > 0


_LONG = ("ipv4-tcp-opts", "ipv4-tcp-unkopt", "ipv4-tcp-sack", "ipv4-opts-raw", "ipv6-hbh-udp", "ipv4-gre-route-raw", "mpls2-raw",
         "snap-ipv4-udp", "ipv4-icmp-echo", "ipv6-icmp6-echo")


_EMPTY = ("ipv4-tcp-opts", "ipv4-tcp-synopts", "ipv4-tcp-unkopt", "ipv4-tcp-mpcap", "ipv4-tcp-mpjoin", "ipv4-tcp-mpdss", "ipv4-tcp-mpdss-max", "ipv4-tcp-sack",
          "ipv6-tcp", "ipv4-opts-raw", "ipv6-hbh-udp", "ipv4-udp")


def corpus():
  """[(name, frame)]: the catalog built by the reference builder, with an even and an odd payload; a few entries
  also with a 41-byte payload so that a corrupted length field can point into payload that exists."""
  out = []
  for n in (6, 7):
    for name, spec in catalog(n):
      if n == 7 and not has_free_payload(spec):
        continue
      out.append(("%s-%d" % (name, n), build(spec)))
  for name, spec in catalog(41):
    if name in _LONG:
      out.append(("%s-41" % name, build(spec)))
  for name, spec in catalog(0):
    if name in _EMPTY:
      out.append(("%s-0" % name, build(spec)))
  for name, spec in text_catalog():
    out.append((name, build(spec)))
  return out
