"""Reference model of one transparent learning bridge (IEEE 802.1D forwarding process) plus an
upper bound on what a reactive exact-match flow cache in front of it may still hold.

Imports nothing from pox.  One `Bridge` per switch.  The harness feeds it, hop by hop,
what was observed on the wire:

    judge(now, in_port, src, dst, ethertype, tmpl, packet_in, outs) -> [(clause, msg, extra)]

  in_port    port the frame entered on
  src, dst   6-byte addresses
  ethertype  the 16-bit type/length field that follows the addresses
  tmpl       any hashable naming the header template of the frame (same template = same headers)
  packet_in  True when the datapath consulted the controller for this frame (observed on the
             control channel), False when it forwarded from its own flow cache
  outs       list of ports the frame left on (in emission order)

The verdicts follow the text of property C11:

  * never out the ingress port, no port twice                                   (always)
  * destination seen as a source: only to ports where it was seen               (always)
  * ... and to exactly the most recent such port whenever no older cached flow
    for that traffic can still be installed                                      (cache upper bound)
  * unknown / broadcast / multicast: every other port of the switch
  * link-local (01:80:c2:00:00:00..0f) destinations and LLDP frames are not forwarded unless
    the bridge was configured transparent

The cache upper bound: a flow is keyed by (in_port or any, src, dst), remembers its output port
(None = discard), and may be present until min(install + hard, last possible use + idle) plus
the expiry sweep granularity.  It is only ever used to *excuse* a delivery to an older port.
"""

LLDP_TYPE = 0x88cc


def is_multicast(mac):
  return bool(mac[0] & 1)


def is_bridge_filtered(mac):
  # IEEE 802.1D table 7-10: 01-80-C2-00-00-00 .. 01-80-C2-00-00-0F are never relayed
  return mac[:5] == b"\x01\x80\xc2\x00\x00" and mac[5] <= 0x0f


class Flow(object):
  __slots__ = ("in_port", "src", "dst", "tmpl", "out", "t_install", "t_touch", "idle", "hard", "epoch")

  def __init__(self, in_port, src, dst, tmpl, out, now, idle, hard, epoch=None):
    self.in_port, self.src, self.dst, self.tmpl, self.out = in_port, src, dst, tmpl, out
    self.epoch = epoch
    self.t_install = self.t_touch = now
    self.idle, self.hard = idle, hard

  def deadline(self):
    return min(self.t_install + self.hard, self.t_touch + self.idle)


class Bridge(object):
  def __init__(self, ports, transparent, idle=10.0, hard=30.0, hold=10.0, sweep=2.0):
    self.ports = sorted(ports)
    self.transparent = bool(transparent)
    self.idle, self.hard, self.hold, self.sweep = idle, hard, hold, sweep
    self.seen = {}      # mac -> set of ports it was ever seen on as a source
    self.recent = {}    # mac -> port of its most recent frame (what an ideal bridge holds)
    self.belief = {}    # mac -> port of its most recent frame that reached the controller
    self.flows = []     # possibly installed cache entries (upper bound)
    self.mask = {}      # mac -> why the controller may have missed its latest frame ("cached-flow" / "unexplained-flow")
    self.stats = {"hit": 0, "miss": 0, "stale_hit": 0, "masked": 0, "hold_down": 0}

  # ------------------------------------------------------------------ ideal behaviour
  def _filtered(self, dst, ethertype):
    return (not self.transparent) and (ethertype == LLDP_TYPE or is_bridge_filtered(dst))

  def _others(self, in_port):
    return [p for p in self.ports if p != in_port]

  def ideal(self, in_port, dst, ethertype, table):
    """Output ports of the forwarding process given an address table."""
    if self._filtered(dst, ethertype):
      return []
    if is_multicast(dst) or dst not in table:
      return self._others(in_port)
    q = table[dst]
    return [] if q == in_port else [q]

  def _live(self, now, in_port, src, dst):
    r = []
    keep = []
    for f in self.flows:
      if now > f.deadline() + self.sweep:
        continue                      # certainly swept by now: forget it
      keep.append(f)
      if f.src == src and f.dst == dst and f.in_port in (None, in_port):
        r.append(f)
    self.flows = keep
    return r

  # ------------------------------------------------------------------ one hop
  def judge(self, now, in_port, src, dst, ethertype, tmpl, packet_in, outs, epoch=None):
    """epoch: frames with the same (not None) epoch were all looked up in the flow cache before the controller answered
    any of them (back-to-back frames); a miss then says nothing about entries installed for earlier frames of the epoch."""
    v = []
    outs = list(outs)
    kind = ("filtered" if self._filtered(dst, ethertype) else
            "multicast" if is_multicast(dst) else
            "known" if dst in self.seen or dst == src else "unknown")

    # -- unconditional clauses
    if in_port in outs:
      v.append(("out-ingress-port", "frame entered on port %d and was sent out ports %r" % (in_port, outs),
                {"dst": kind}))
    if len(set(outs)) != len(outs):
      v.append(("port-twice", "frame was sent out ports %r" % (outs,), {"dst": kind}))
    bad = [p for p in outs if p not in self.ports]
    if bad:
      v.append(("unknown-port", "frame was sent out ports %r, switch has %r" % (outs, self.ports), {"dst": kind}))

    # -- learning of the ideal bridge precedes forwarding
    if not is_multicast(src):          # a group address is never a station location (802.1D 7.8)
      self.seen.setdefault(src, set()).add(in_port)
      self.recent[src] = in_port

    want_ideal = self.ideal(in_port, dst, ethertype, self.recent)
    so = sorted(outs)

    if kind == "known":
      unseen = [p for p in outs if p not in self.seen.get(dst, ())]
      if unseen:
        v.append(("known-dst-to-unseen-port",
                  "destination was seen on ports %r only, frame was sent out %r" % (sorted(self.seen.get(dst, ())), outs), {}))

    live = self._live(now, in_port, src, dst)

    if packet_in:
      self.stats["miss"] += 1
      self.belief[src] = in_port
      self.mask.pop(src, None)
      want = self.ideal(in_port, dst, ethertype, self.belief)
      if so == sorted(want_ideal):
        pass
      elif epoch is not None and any(f.epoch == epoch and ([] if f.out is None else [f.out]) == so for f in live):
        # back-to-back frames on a switch without a free buffer: the controller's packet_out goes through the table
        # (OFPP_TABLE) and met an entry installed for an earlier frame of the same burst -- an older cached flow
        self.stats["stale_hit"] += 1
      elif (so == sorted(want) and kind == "known" and dst in self.belief
            and self.belief[dst] != self.recent.get(dst) and self.belief[dst] in self.seen.get(dst, ())):
        # the controller acted on an address table that missed a frame which the switch forwarded from
        # its cache: no flow for this traffic is installed (it was a miss), yet not the most recent port
        self.stats["masked"] += 1
        v.append(("not-most-recent-port",
                  "destination last seen on port %r, frame delivered to %r: the move was never learned because the "
                  "frame that showed it was forwarded by a cached flow" % (self.recent.get(dst), outs),
                  {"cause": "learning-masked-by-" + self.mask.get(dst, "unexplained-flow")}))
      else:
        v.append(("controller-forwarding",
                  "%s destination, ingress %d: expected out %r, observed %r (most recent port %r, port at the last "
                  "controller-visible frame %r)" % (kind, in_port, want_ideal, outs, self.recent.get(dst), self.belief.get(dst)),
                  {"dst": kind, "shape": _shape(want_ideal, outs, in_port)}))
      # what the cache may hold from now on: follow what was observed
      if kind == "known":
        # the miss proves that no entry for exactly this traffic was installed when the frame was looked up
        self.flows = [f for f in self.flows
                      if not (f.src == src and f.dst == dst and f.tmpl == tmpl and f.in_port in (None, in_port)
                              and (epoch is None or f.epoch != epoch))]
        if not outs:
          self.stats["hold_down"] += 1
          self.flows.append(Flow(None, src, dst, tmpl, None, now, self.hold, self.hold, epoch))
        elif len(outs) == 1:
          self.flows.append(Flow(in_port, src, dst, tmpl, outs[0], now, self.idle, self.hard, epoch))
    else:
      self.stats["hit"] += 1
      explained = [f for f in live if ([] if f.out is None else [f.out]) == so]
      if self.belief.get(src) != in_port:
        # the controller does not get to see that src is on in_port now
        if not explained:
          self.mask[src] = "unexplained-flow"
        else:
          self.mask.setdefault(src, "cached-flow")
      if explained:
        for f in explained:
          f.t_touch = now
        if so != sorted(want_ideal):
          self.stats["stale_hit"] += 1
      elif so != sorted(want_ideal):
        v.append(("cached-delivery-wrong",
                  "%s destination, ingress %d forwarded without the controller to %r; most recent port %r; flows that "
                  "can still be installed for this traffic lead to %r"
                  % (kind, in_port, outs, self.recent.get(dst), [f.out for f in live]),
                  {"dst": kind, "live": bool(live)}))
    return v


def _shape(want, outs, in_port):
  if not outs and want:
    return "not-delivered"
  if outs and not want:
    return "delivered-but-must-not"
  if len(want) == 1 and len(outs) == 1:
    return "wrong-port"
  if len(outs) > len(want):
    return "too-many-ports"
  if len(outs) < len(want):
    return "too-few-ports"
  return "other-ports"
