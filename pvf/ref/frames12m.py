"""Frames whose payload is NOT a well-formed packet of the protocol their EtherType (or IP protocol) names -- for C12.

A datapath forwards frames, it does not police them: whatever sits behind the link-layer headers, a frame that is only
forwarded, or only has its Ethernet / 802.1Q headers rewritten, must come out with every other octet as it went in.
This module has (a) `problems(frame)`, an independent structural judge written from RFC 791 / 793 / 768 / 792 / 826 /
8200, IEEE 802.1AB and 802.1X that names what is irregular about a frame (empty list: nothing), and (b) builders that
CONSTRUCT packets with exactly one named irregularity from a few integer parameters (used by the Hypothesis strategy
and the enumerated driver of pvf/props/c12.py).  Imports nothing from pox.
"""
import struct

from . import frames as F
from .frames12 import ETH_IPV6, pseudo_header6

ETH_LLDP = 0x88cc
ETH_EAPOL = 0x888e

# kinds after which the IPv4 header itself cannot be trusted: OpenFlow 1.0 nw/tp rewrites on such a frame are an open zone
IPV4_HEADER_KINDS = ("ipv4:short", "ipv4:version", "ipv4:ihl<5", "ipv4:ihl>data", "ipv4:total_len<20", "ipv4:ihl>total_len",
                     "ipv4:total_len>data")


# Kinds in which a consistent reading of the packet exists and only a field DERIVED from the rest is wrong: a checksum, the
# UDP length, or the IP length of a datagram that was cut short on the way.  No action touches such a frame's packet, so it
# has to come out as it went in; a datapath that re-serialises what it dissected emits it with that field "made valid"
# instead.  The check tells the two apart (and both from any third outcome): kind -> the field that lies.
LYING_FIELD = {
  "ipv4:checksum": "ipv4.checksum", "tcp:checksum": "tcp.checksum", "udp:checksum": "udp.checksum", "icmp:checksum": "icmp.checksum",
  "udp:length<8": "udp.length", "udp:length>segment": "udp.length", "udp:length<segment": "udp.length",
  "ipv4:total_len>data": "ipv4.total_len", "ipv6:payload_len>data": "ipv6.payload_len",
}


def family(kind):
  """Root-cause family of an irregularity: a length field that lies, a checksum that lies, a legal packet nothing
  behind whose header can be dissected, or a header no consistent reading of which exists."""
  f = LYING_FIELD.get(kind)
  if f is not None:
    return "checksum-lie" if f.endswith(".checksum") else "length-lie"
  if kind.startswith("nonext:"):
    return "opaque"
  return "header-lie"


def _be16(b, o):
  return (b[o] << 8) | b[o + 1]


def l3(frame):
  """(EtherType behind 0..n 802.1Q tags, offset of the first octet behind it) or (None, None) for a runt."""
  f = bytes(frame)
  n = len(f)
  if n < 14:
    return None, None
  off = 12
  t = _be16(f, off)
  while t == 0x8100:
    if n < off + 6:
      return None, None
    off += 4
    t = _be16(f, off)
  return t, off + 2


def problems(frame):
  """Names of what is irregular about the packet behind the Ethernet II / 802.1Q headers, [] if nothing is
  (or if the EtherType is not one of IPv4, ARP, IPv6, LLDP, EAPOL).  Layer by layer, outermost first; an irregular
  outer layer ends the inspection."""
  f = bytes(frame)
  t, off = l3(f)
  if t is None:
    return ["eth:short"]
  body = f[off:]
  if t == F.ETH_IP:
    return _ipv4(body)
  if t == F.ETH_ARP:
    return _arp(body)
  if t == ETH_IPV6:
    return _ipv6(body)
  if t == ETH_LLDP:
    return _lldp(body)
  if t == ETH_EAPOL:
    return _eapol(body)
  return []


def trailer_len(frame):
  """Octets behind the IPv4 / IPv6 datagram (by its own length field) when that field is usable, else 0."""
  f = bytes(frame)
  t, off = l3(f)
  if t is None:
    return 0
  body = f[off:]
  if t == F.ETH_IP and len(body) >= 20:
    tl = _be16(body, 2)
    return len(body) - tl if 20 <= tl <= len(body) else 0
  if t == ETH_IPV6 and len(body) >= 40:
    pl = _be16(body, 4)
    return len(body) - 40 - pl if 40 + pl <= len(body) else 0
  return 0


def _tcp_options_ok(raw):
  i = 0
  while i < len(raw):
    k = raw[i]
    if k == 0:
      return True
    if k == 1:
      i += 1
      continue
    if i + 1 >= len(raw) or raw[i + 1] < 2 or i + raw[i + 1] > len(raw):
      return False
    i += raw[i + 1]
  return True


def _l4(proto, seg, pseudo, v6):
  """Problems of a complete transport segment."""
  if proto == 6:
    if len(seg) < 20:
      return ["tcp:short"]
    doff = seg[12] >> 4
    if doff < 5:
      return ["tcp:doff<5"]
    if doff * 4 > len(seg):
      return ["tcp:doff>segment"]
    if not _tcp_options_ok(seg[20:doff * 4]):
      return ["tcp:options"]
    if F.ones_sum(pseudo + seg) != 0xffff:
      return ["tcp:checksum"]
  elif proto == 17:
    if len(seg) < 8:
      return ["udp:short"]
    ln = _be16(seg, 4)
    if ln < 8:
      return ["udp:length<8"]
    if ln > len(seg):
      return ["udp:length>segment"]
    if ln < len(seg):
      return ["udp:length<segment"]
    if _be16(seg, 6) == 0:
      return ["udp6:checksum0"] if v6 else []
    if F.ones_sum(pseudo + seg) != 0xffff:
      return ["udp:checksum"]
  elif proto == 1 and not v6:
    if len(seg) < 4:                # type, code, checksum; what follows depends on the type and is not judged here
      return ["icmp:short"]
    if F.ones_sum(seg) != 0xffff:
      return ["icmp:checksum"]
  elif proto == 58 and v6:
    if len(seg) < 4:
      return ["icmp6:short"]
    if F.ones_sum(pseudo + seg) != 0xffff:
      return ["icmp6:checksum"]
  return []


def _ipv4(b):
  if len(b) < 20:
    return ["ipv4:short"]
  if b[0] >> 4 != 4:
    return ["ipv4:version"]
  hl = (b[0] & 15) * 4
  tl = _be16(b, 2)
  if hl < 20:
    return ["ipv4:ihl<5"]
  if hl > len(b):
    return ["ipv4:ihl>data"]
  if tl < 20:
    return ["ipv4:total_len<20"]
  if tl < hl:
    return ["ipv4:ihl>total_len"]
  if tl > len(b):
    return ["ipv4:total_len>data"]
  if F.ones_sum(b[:hl]) != 0xffff:
    return ["ipv4:checksum"]
  ff = _be16(b, 6)
  if ff & 0x3fff:
    return []                       # a fragment: nothing behind the header is inspected
  proto = b[9]
  seg = b[hl:tl]
  return _l4(proto, seg, b[12:20] + struct.pack("!BBH", 0, proto, len(seg)), False)


def _ipv6(b):
  if len(b) < 40:
    return ["ipv6:short"]
  if b[0] >> 4 != 6:
    return ["ipv6:version"]
  pl = _be16(b, 4)
  if 40 + pl > len(b):
    return ["ipv6:payload_len>data"]
  nh = b[6]
  seg = b[40:40 + pl]
  if nh == 59:
    # RFC 8200 4.7: octets behind a header whose Next Header is 59 are legal, to be ignored and passed on unchanged
    return ["nonext:data"] if seg else []
  return _l4(nh, seg, pseudo_header6(b[8:24], b[24:40], nh, len(seg)), True)


def _arp(b):
  if len(b) < 8:
    return ["arp:short"]
  htype, ptype, hlen, plen = _be16(b, 0), _be16(b, 2), b[4], b[5]
  if len(b) < 8 + 2 * hlen + 2 * plen:
    return ["arp:short"]
  if hlen != 6 or plen != 4:
    return ["arp:hlen-plen"]
  if htype != 1 or ptype != F.ETH_IP:
    return ["arp:foreign-types"]      # a legal ARP packet, but not Ethernet / IPv4: its address fields mean something else
  return []


def _lldp(b):
  """IEEE 802.1AB 9.2: chassis id, port id, ttl first and in that order, End of LLDPDU last; every TLV within the data."""
  i = 0
  seq = []
  while True:
    if i + 2 > len(b):
      return ["lldp:no-end"] if len(seq) >= 3 else ["lldp:short"]
    w = _be16(b, i)
    t, ln = w >> 9, w & 0x1ff
    if i + 2 + ln > len(b):
      return ["lldp:tlv-overrun"]
    seq.append(t)
    i += 2 + ln
    if t == 0:
      break
  if seq[:3] != [1, 2, 3]:
    return ["lldp:mandatory-tlvs"]
  return []


def _eapol(b):
  if len(b) < 4:
    return ["eapol:short"]
  if _be16(b, 2) > len(b) - 4:
    return ["eapol:length>data"]
  return []


# --------------------------------------------------------------------------- constructive builders

KINDS = (
  "ipv4:short", "ipv4:version", "ipv4:ihl<5", "ipv4:ihl>data", "ipv4:total_len<20", "ipv4:ihl>total_len", "ipv4:total_len>data",
  "ipv4:checksum",
  "tcp:short", "tcp:doff<5", "tcp:doff>segment", "tcp:options", "tcp:checksum",
  "udp:short", "udp:length<8", "udp:length>segment", "udp:length<segment", "udp:checksum",
  "icmp:short", "icmp:checksum",
  "arp:short", "arp:hlen-plen", "arp:foreign-types",
  "ipv6:short", "ipv6:version", "ipv6:payload_len>data", "ipv6:udp:short", "ipv6:tcp:short", "ipv6:udp:checksum", "ipv6:nonext:data",
  "lldp:short", "lldp:tlv-overrun", "lldp:no-end", "lldp:mandatory-tlvs",
  "eapol:short", "eapol:length>data",
)

_S4, _D4 = 0x0a000001, 0x0a000002
_S6 = bytes.fromhex("20010db8000000000000000000000001")
_D6 = bytes.fromhex("20010db80000000000000000000000ff")


def _fill(n, seed):
  """n recognisable, non-zero octets."""
  return bytes(((seed * 37 + i * 11) % 251) + 1 for i in range(n))


def _ip4(proto, seg, p, **kw):
  return F.build_ipv4(p.get("src", _S4), p.get("dst", _D4), proto, seg, tos=p.get("tos", 0), ident=p.get("ident", 0x1234),
                      ttl=p.get("ttl", 64), **kw)


def _retcp(src, dst, seg):
  """TCP segment with its checksum made right over whatever the other octets are."""
  seg = seg[:16] + b"\0\0" + seg[18:]
  return seg[:16] + struct.pack("!H", F.l4_checksum(src, dst, 6, seg)) + seg[18:]


def build(kind, p):
  """-> (EtherType, packet bytes) with the irregularity `kind`.  `p` holds small integers: "a", "b" (magnitudes the kind
  interprets), "n" (payload octets), "seed", and optional header field values.  The packet is otherwise regular
  (correct checksums over what is there), so that `problems()` names `kind` and nothing outer to it."""
  a, b, n, seed = p.get("a", 0), p.get("b", 0), p.get("n", 8), p.get("seed", 1)
  src, dst = p.get("src", _S4), p.get("dst", _D4)
  pay = _fill(n, seed)
  proto = (17, 6, 1, 253)[b % 4]
  layer, _, what = kind.partition(":")
  if layer == "ipv4":
    if what == "short":
      whole = _ip4(proto, pay, p)
      return F.ETH_IP, whole[:a % 20]
    if what == "version":
      return F.ETH_IP, _ip4(proto, pay, p, version=(0, 5, 6, 15, 1)[a % 5])
    if what == "ihl<5":
      return F.ETH_IP, _ip4(proto, pay, p, ihl=a % 5)
    if what == "ihl>data":
      # the header claims more octets than the frame has left (total length says the same, or says 20 + payload)
      ihl = 6 + a % 10
      room = ihl * 4 - 1 - (n % (ihl * 4 - 20))
      body = _fill(room - 20, seed)
      return F.ETH_IP, _ip4(proto, body, p, ihl=ihl, total_len=(ihl * 4, room)[b % 2])
    if what == "total_len<20":
      return F.ETH_IP, _ip4(proto, pay, p, total_len=a % 20)
    if what == "ihl>total_len":
      # header length beyond the datagram's end although the octets are there; whatever follows total_len is a trailer
      ihl = 6 + a % 10
      tl = 20 + b % (ihl * 4 - 20)
      body = _fill(ihl * 4 - 20 + n, seed)
      return F.ETH_IP, _ip4(proto, body, p, ihl=ihl, total_len=tl)
    if what == "total_len>data":
      # a regular datagram (TCP, ICMP or a protocol nothing dissects; not UDP, whose own length field would lie as well)
      # that lost its last octets on the way: the transport header is all there, the data behind it is not
      proto = (6, 1, 253)[b % 3]
      whole = _ip4(proto, _regular_l4(proto, src, dst, pay + _fill(1 + a % 9, seed + 1)), p)
      return F.ETH_IP, whole[:len(whole) - 1 - a % 9]
    if what == "checksum":
      good = _ip4(proto, _regular_l4(proto, src, dst, pay), p)
      c = _be16(good, 10)
      return F.ETH_IP, good[:10] + struct.pack("!H", (c + 1 + a % 0xfffe) & 0xffff) + good[12:]
  if layer == "tcp":
    seg = F.build_tcp(src, dst, p.get("sport", 1234), p.get("dport", 80), pay, seq=seed, ack=a, flags=0x18,
                      options=b"\x02\x04\x05\xb4" if b % 2 else b"")
    if what == "short":
      seg = seg[:a % 20]
    elif what == "doff<5":
      seg = _retcp(src, dst, seg[:12] + bytes([((a % 5) << 4) | (seg[12] & 15)]) + seg[13:])
    elif what == "doff>segment":
      doff = min(15, len(seg) // 4 + 1 + a % 4)
      seg = seg[:min(len(seg), doff * 4 - 1)]
      seg = _retcp(src, dst, seg[:12] + bytes([(doff << 4) | (seg[12] & 15)]) + seg[13:])
    elif what == "options":
      bad = (b"\x02\x00\x05\xb4", b"\x02\x01\x05\xb4", b"\x01\x01\x08\x0a", b"\x03\x07\x01\x01", b"\xfe\x30\x00\x00")[a % 5]
      seg = F.build_tcp(src, dst, p.get("sport", 1234), p.get("dport", 80), pay, seq=seed, flags=0x10, options=bad)
    elif what == "checksum":
      c = _be16(seg, 16)
      seg = seg[:16] + struct.pack("!H", (c + 1 + a % 0xfffe) & 0xffff) + seg[18:]
    return F.ETH_IP, _ip4(6, seg, p)
  if layer == "udp":
    sp, dp = p.get("sport", 1234), p.get("dport", 4321)
    if what == "short":
      seg = F.build_udp(src, dst, sp, dp, pay)[:1 + a % 7]
    elif what == "length<8":
      seg = F.build_udp(src, dst, sp, dp, pay, length=a % 8)
    elif what == "length>segment":
      seg = F.build_udp(src, dst, sp, dp, pay, length=8 + n + 1 + a % 64)
    elif what == "length<segment":
      pay = pay or b"\x55"
      seg = F.build_udp(src, dst, sp, dp, pay, length=8 + a % len(pay))
    else:
      seg = F.build_udp(src, dst, sp, dp, pay)
      c = (_be16(seg, 6) + 1 + a % 0xfffe) & 0xffff
      seg = seg[:6] + struct.pack("!H", c or 1) + seg[8:]
      if F.ones_sum(F.pseudo_header(src, dst, 17, len(seg)) + seg) == 0xffff:
        seg = seg[:6] + struct.pack("!H", (c % 0xfffe) + 1) + seg[8:]
    return F.ETH_IP, _ip4(17, seg, p)
  if layer == "icmp":
    seg = F.echo(8, ident=seed, seq=a & 0xffff, payload=pay)
    if what == "short":
      seg = seg[:a % 4]
    else:
      c = _be16(seg, 2)
      seg = seg[:2] + struct.pack("!H", (c + 1 + a % 0xfffe) & 0xffff) + seg[4:]
    return F.ETH_IP, _ip4(1, seg, p)
  if layer == "arp":
    sha, tha = bytes.fromhex("0200000000a1"), bytes(6)
    if what == "short":
      return F.ETH_ARP, F.build_arp(1 + b % 2, sha, src, tha, dst)[:a % 28]
    if what == "hlen-plen":
      hlen, plen = ((8, 4), (6, 16), (0, 0), (6, 0), (1, 4), (20, 4))[a % 6]
      body = struct.pack("!HHBBH", 1, F.ETH_IP, hlen, plen, 1 + b % 2) + _fill(2 * hlen + 2 * plen, seed)
      return F.ETH_ARP, body
    return F.ETH_ARP, F.build_arp(1 + b % 2, sha, src, tha, dst, htype=(6, 1, 0, 0xffff)[a % 4], ptype=(F.ETH_IP, 0x86dd, 0x0800, 0)[a % 4])
  if layer == "ipv6":
    from . import frames12 as F12
    if what == "short":
      return ETH_IPV6, F12.build_ipv6(_S6, _D6, 17, F12.build_udp6(_S6, _D6, 1234, 4321, pay))[:a % 40]
    if what == "version":
      pkt = F12.build_ipv6(_S6, _D6, 17, F12.build_udp6(_S6, _D6, 1234, 4321, pay))
      return ETH_IPV6, bytes([((0, 4, 5, 7, 15)[a % 5] << 4) | (pkt[0] & 15)]) + pkt[1:]
    if what == "payload_len>data":
      nh = (6, 253)[b % 2]
      whole = F12.build_ipv6(_S6, _D6, nh, (F12.build_tcp6(_S6, _D6, 1234, 80, pay + _fill(1 + a % 9, seed + 1)) if nh == 6
                                            else pay + _fill(1 + a % 9, seed + 1)))
      return ETH_IPV6, whole[:len(whole) - 1 - a % 9]
    if what == "nonext:data":
      return ETH_IPV6, F12.build_ipv6(_S6, _D6, 59, pay or b"\x55")
    if what == "udp:short":
      return ETH_IPV6, F12.build_ipv6(_S6, _D6, 17, F12.build_udp6(_S6, _D6, 1234, 4321, pay)[:1 + a % 7])
    if what == "tcp:short":
      return ETH_IPV6, F12.build_ipv6(_S6, _D6, 6, F12.build_tcp6(_S6, _D6, 1234, 80, pay)[:1 + a % 19])
    seg = F12.build_udp6(_S6, _D6, 1234, 4321, pay)
    c = (_be16(seg, 6) + 1 + a % 0xfffe) & 0xffff
    seg = seg[:6] + struct.pack("!H", c or 1) + seg[8:]
    if F.ones_sum(pseudo_header6(_S6, _D6, 17, len(seg)) + seg) == 0xffff:
      seg = seg[:6] + struct.pack("!H", (c % 0xfffe) + 1) + seg[8:]
    return ETH_IPV6, F12.build_ipv6(_S6, _D6, 17, seg)
  if layer == "lldp":
    def tlv(t, v, ln=None):
      return struct.pack("!H", (t << 9) | (len(v) if ln is None else ln)) + v
    chassis, port, ttl, end = tlv(1, b"\x04" + bytes.fromhex("0200000000a1")), tlv(2, b"\x02" + _fill(1 + n % 4, seed)), tlv(3, b"\x00\x78"), tlv(0, b"")
    if what == "short":
      return ETH_LLDP, (b"", b"\x02", chassis, chassis + port)[a % 4]      # ends between two TLVs, before the mandatory three are there
    if what == "tlv-overrun":
      k = a % 3
      if k == 0:
        return ETH_LLDP, chassis + port + ttl + tlv(5, pay, ln=len(pay) + 1 + b % 200)
      if k == 1:
        return ETH_LLDP, chassis + tlv(2, b"\x02" + pay, ln=511)
      return ETH_LLDP, chassis + port + ttl + tlv(0, b"", ln=1 + b % 500)
    if what == "no-end":
      return ETH_LLDP, chassis + port + ttl + (tlv(5, pay) if a % 2 else b"")
    order = ([port, chassis, ttl], [chassis, ttl], [ttl, port, chassis], [tlv(5, pay), chassis, port, ttl], [])[a % 5]
    return ETH_LLDP, b"".join(order) + end
  if layer == "eapol":
    if what == "short":
      return ETH_EAPOL, struct.pack("!BBH", 1, 1, 0)[:a % 4]
    # EAPOL-Key / ASF-Alert: packet types whose body no further dissector reads
    return ETH_EAPOL, struct.pack("!BBH", 1 + b % 2, (3, 4)[a % 2], n + 1 + a % 100) + pay
  raise ValueError("unknown kind %r" % (kind,))


def _regular_l4(proto, src, dst, pay):
  if proto == 17:
    return F.build_udp(src, dst, 1234, 4321, pay)
  if proto == 6:
    return F.build_tcp(src, dst, 1234, 80, pay, flags=0x18)
  if proto == 1:
    return F.echo(8, 1, 1, pay)
  return pay


def may_take_trailer(kind):
  """Octets appended behind the packet leave its irregularity what it is (they do not become part of what a length
  field was short of)."""
  return kind in ("ipv4:version", "ipv4:ihl<5", "ipv4:total_len<20", "ipv4:ihl>total_len", "ipv4:checksum",
                  "tcp:short", "tcp:doff<5", "tcp:doff>segment", "tcp:options", "tcp:checksum",
                  "udp:short", "udp:length<8", "udp:length>segment", "udp:length<segment", "udp:checksum",
                  "icmp:short", "icmp:checksum", "arp:hlen-plen", "arp:foreign-types",
                  "ipv6:version", "ipv6:udp:short", "ipv6:tcp:short", "ipv6:udp:checksum", "ipv6:nonext:data")


def expected_problem(kind):
  """What `problems()` says about a frame built for `kind` (self-test of the builders)."""
  if kind.startswith("ipv6:") and kind.count(":") == 2:
    return kind[5:]
  return kind
