"""Byte-level builder of well-formed Nicira vendor-extension messages (OFPT_VENDOR with vendor id 0x00002320), written from
Open vSwitch's include/openflow/nicira-ext.h with `struct` only.  Imports nothing from pox.

  build(spec) -> of10_bytes.Built        spec = {"t": 4, "nx": subtype, "xid": int, "n": size parameter, "f": fill seed}

Layouts (all after the 8-byte ofp_header):
  struct nicira_header     vendor(4) = NX_VENDOR_ID, subtype(4)                                        -> 16 bytes with the header
  NXT_ROLE_REQUEST  (10) / NXT_ROLE_REPLY (11)        nicira_header, role(4)                            -> 20
  NXT_SET_FLOW_FORMAT (12) / NXT_SET_PACKET_IN_FORMAT (16)   nicira_header, format(4)                   -> 20
  NXT_FLOW_REMOVED  (14)   nicira_header, cookie(8) priority(2) reason(1) pad(1) duration_sec(4) duration_nsec(4) idle_timeout(2)
                           match_len(2) packet_count(8) byte_count(8), nx_match padded with zeros to a multiple of 8   -> 56 + match
  NXT_FLOW_MOD_TABLE_ID (15)   nicira_header, set(1) pad(7)                                             -> 24
  NXT_PACKET_IN     (17)   nicira_header, buffer_id(4) total_len(2) reason(1) table_id(1) cookie(8) match_len(2) pad(6),
                           nx_match padded with zeros to a multiple of 8, pad(2), the frame              -> 42 + match + frame
  nx_match entry           header(4) = class(16) field(7) hasmask(1) length(8), then `length` payload bytes (value, or value+mask)

`n` is the number of nx_match entries (at most 1 + f % 4) plus, beyond that, the number of frame bytes (NXT_PACKET_IN) or is the
number of body bytes of a subtype that has no layout here.  Built.fields lists the embedded lengths: match_len (2 bytes) and the
length octet of every nx_match entry header (1 byte).
"""
import struct

from .of10_bytes import Built, header, pattern, VENDOR, MAX_LEN, NO_BUFFER

NX_VENDOR_ID = 0x00002320

NXT_ROLE_REQUEST, NXT_ROLE_REPLY, NXT_SET_FLOW_FORMAT, NXT_FLOW_MOD, NXT_FLOW_REMOVED = 10, 11, 12, 13, 14
NXT_FLOW_MOD_TABLE_ID, NXT_SET_PACKET_IN_FORMAT, NXT_PACKET_IN, NXT_SET_ASYNC_CONFIG = 15, 16, 17, 19

# subtypes a switch sends to its controller / a controller sends to its switch (nicira-ext.h)
TO_CONTROLLER = [NXT_ROLE_REPLY, NXT_PACKET_IN, NXT_FLOW_REMOVED]
TO_SWITCH = [NXT_ROLE_REQUEST, NXT_SET_FLOW_FORMAT, NXT_FLOW_MOD_TABLE_ID, NXT_SET_PACKET_IN_FORMAT]

FIXED_LEN = {NXT_ROLE_REQUEST: 20, NXT_ROLE_REPLY: 20, NXT_SET_FLOW_FORMAT: 20, NXT_SET_PACKET_IN_FORMAT: 20,
             NXT_FLOW_MOD_TABLE_ID: 24, NXT_FLOW_REMOVED: 56, NXT_PACKET_IN: 42}


def _nxm(vendor, field, hasmask, length):
  return (vendor << 16) | (field << 9) | ((1 if hasmask else 0) << 8) | length


# (header, payload maker): NXM_OF_IN_PORT, NXM_OF_ETH_TYPE, NXM_OF_ETH_DST, NXM_OF_IP_SRC_W (masked), NXM_NX_REG0, NXM_NX_TUN_ID
def _entries(f):
  mac = bytes([0x02, 0, 0, (f >> 8) & 0xff, f & 0xff, 1])
  return [
    (_nxm(0, 0, False, 2), struct.pack("!H", 1 + f % 8)),
    (_nxm(0, 3, False, 2), struct.pack("!H", 0x0800)),
    (_nxm(0, 1, False, 6), mac),
    (_nxm(0, 7, True, 8), struct.pack("!LL", 0x0a000000 | (f & 0xff) << 8, 0xffffff00)),
    (_nxm(1, 0, False, 4), struct.pack("!L", 0x1000 + f)),
    (_nxm(1, 16, False, 8), struct.pack("!Q", 0x100000000 + f)),
  ]


def nx_match(count, f, base, fields):
  """`count` entries; -> (bytes without padding).  Records every entry's length octet (absolute offset base + ... + 3)."""
  pool = _entries(f)
  out = b""
  for i in range(count):
    h, payload = pool[(i + f) % len(pool)]
    fields.append({"name": "nxm[%d].length" % i, "off": base + len(out) + 3, "size": 1, "value": h & 0xff})
    out += struct.pack("!L", h) + payload
  return out


def _pad8(n):
  return (n + 7) // 8 * 8 - n


def body(sub, n, f, fields):
  """Bytes after the 16-byte nicira_header; offsets in `fields` are absolute."""
  B = 16
  if sub in (NXT_ROLE_REQUEST, NXT_ROLE_REPLY):
    return struct.pack("!L", f % 3)
  if sub in (NXT_SET_FLOW_FORMAT, NXT_SET_PACKET_IN_FORMAT):
    return struct.pack("!L", f % 2)
  if sub == NXT_FLOW_MOD_TABLE_ID:
    return struct.pack("!B7x", f % 2)
  if sub == NXT_FLOW_REMOVED:
    cnt = min(n, 1 + f % 4)
    m = nx_match(cnt, f, B + 40, fields)
    fields.append({"name": "match_len", "off": B + 22, "size": 2, "value": len(m)})
    return struct.pack("!QHBxLLHHQQ", 0x55aa000000000000 | f, 0x8000, f % 3, 10 + f, 1000, 30, len(m), 7 + f, 448 + f) + \
           m + b"\0" * _pad8(len(m))
  if sub == NXT_PACKET_IN:
    cnt = min(n, 1 + f % 4)
    m = nx_match(cnt, f, B + 24, fields)
    fields.append({"name": "match_len", "off": B + 16, "size": 2, "value": len(m)})
    frame = pattern(f, max(0, n - cnt))
    return struct.pack("!LHBBQH6x", NO_BUFFER if f % 2 else 1 + f, (len(frame) + f % 2 * 100) & 0xffff, f % 2, f % 3,
                       0x77 + f, len(m)) + m + b"\0" * _pad8(len(m)) + b"\0\0" + frame
  return pattern(f, n)                    # a subtype without a layout here: opaque body


def uses_n(sub):
  return sub not in FIXED_LEN or sub in (NXT_FLOW_REMOVED, NXT_PACKET_IN)


_BUILT = {}


def build(spec):
  key = (spec["nx"], spec.get("n", 0) or 0, spec.get("f", 0) or 0, spec.get("xid", 0) or 0)
  b = _BUILT.get(key)
  if b is None:
    sub, n, f, xid = key
    if not uses_n(sub):
      n = 0
    fields = []
    bd = body(sub, n, f, fields)
    length = 16 + len(bd)
    if length > MAX_LEN:
      raise ValueError("message of %d bytes does not fit the 16-bit length field" % length)
    data = header(VENDOR, length, xid) + struct.pack("!LL", NX_VENDOR_ID, sub) + bd
    for fl in fields:
      got = int.from_bytes(data[fl["off"]:fl["off"] + fl["size"]], "big")
      assert got == fl["value"], (fl, got)
    b = Built(data, fields, dict(spec))
    if len(_BUILT) > 2000:
      _BUILT.clear()
    _BUILT[key] = b
  return b
