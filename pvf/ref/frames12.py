"""C12's additions to ref/frames.py: TCP option encoding, a frame validator and a difference namer.

Imports nothing from pox.  The validator answers "are the lengths and checksums of this frame valid",
for frames of the kinds the C12 generator builds (Ethernet II / 802.1Q / 802.3, ARP, IPv4 with
TCP / UDP / ICMP, no link-layer trailer).
"""
import struct

from . import frames as F


# --------------------------------------------------------------------------- TCP options (RFC 793, 1323, 2018)

def tcp_options(opts, pad="nop"):
  """opts: list of [kind, ...]:
       ["nop"]  ["mss", v16]  ["ws", v8]  ["sackperm"]  ["sack", [[l, r], ...]]  ["ts", v32, e32]
       ["raw", kind, bytes]   (any other kind, TLV encoded)
     pad: "nop" fills up to a multiple of four with NOPs (kind 1); "eol" with one EOL and zeros."""
  out = b""
  for o in opts:
    k = o[0]
    if k == "nop":
      out += b"\x01"
    elif k == "mss":
      out += struct.pack("!BBH", 2, 4, o[1] & 0xffff)
    elif k == "ws":
      out += struct.pack("!BBB", 3, 3, o[1] & 0xff)
    elif k == "sackperm":
      out += struct.pack("!BB", 4, 2)
    elif k == "sack":
      out += struct.pack("!BB", 5, 2 + 8 * len(o[1]))
      for l, r in o[1]:
        out += struct.pack("!LL", l & 0xffffffff, r & 0xffffffff)
    elif k == "ts":
      out += struct.pack("!BBLL", 8, 10, o[1] & 0xffffffff, o[2] & 0xffffffff)
    elif k == "raw":
      out += struct.pack("!BB", o[1] & 0xff, 2 + len(o[2])) + bytes(o[2])
    else:
      raise ValueError("unknown tcp option %r" % (o,))
  if len(out) % 4:
    n = 4 - len(out) % 4
    out += (b"\x01" * n) if pad == "nop" else bytes(n)
  if len(out) > 40:
    raise ValueError("tcp options longer than 40 bytes")
  return out


def tcp_option_kinds(raw):
  """[(offset, kind, length)] of a TCP option area; stops at EOL or at a malformed option."""
  out = []
  i = 0
  while i < len(raw):
    k = raw[i]
    if k == 0:
      out.append((i, 0, len(raw) - i))
      break
    if k == 1:
      out.append((i, 1, 1))
      i += 1
      continue
    if i + 1 >= len(raw) or raw[i + 1] < 2 or i + raw[i + 1] > len(raw):
      out.append((i, k, len(raw) - i))
      break
    out.append((i, k, raw[i + 1]))
    i += raw[i + 1]
  return out


# --------------------------------------------------------------------------- validator

def validate(frame):
  """List of problems with the lengths / checksums of `frame` (empty list: valid)."""
  d = F.dissect(frame)
  bad = []
  if "eth" not in d:
    return ["eth.truncated"]
  if d.get("truncated") == "vlan":
    bad.append("vlan.truncated")
  if "llc" in d and d.get("ethertype") is None:
    return bad                      # 802.3 / LLC, SNAP with a non-zero OUI: carried opaquely here
  if d.get("ethertype") == F.ETH_ARP:
    if "arp" not in d:
      bad.append("arp.truncated")
    return bad
  if d.get("ethertype") == ETH_IPV6 and "llc" not in d:
    return bad + validate6(frame)
  if d.get("ethertype") != F.ETH_IP:
    return bad
  ip = d.get("ipv4")
  if ip is None or ip.get("checksum_ok") is None:
    return bad + ["ipv4.header"]
  if not ip["checksum_ok"]:
    bad.append("ipv4.checksum")
  room = d["len"] - ip["off"]
  if ip["total_len"] < ip["hlen"]:
    bad.append("ipv4.total_len")
    return bad
  if ip["total_len"] > room:
    bad.append("ipv4.total_len")          # (less than the room: a link-layer trailer follows the datagram)
  whole = (not ip["mf"]) and ip["frag"] == 0
  seglen = ip["total_len"] - ip["hlen"]
  if ip["frag"] != 0:
    return bad
  if ip["proto"] == F.PROTO_TCP:
    t = d.get("tcp")
    if t is None:
      if whole:
        bad.append("tcp.truncated")
      return bad
    if t["doff"] < 5 or (whole and t["hlen"] > seglen):
      bad.append("tcp.doff")
    if t["checksum_ok"] is False:
      bad.append("tcp.checksum")
  elif ip["proto"] == F.PROTO_UDP:
    u = d.get("udp")
    if u is None:
      if whole:
        bad.append("udp.truncated")
      return bad
    if whole and u["length"] != seglen:
      bad.append("udp.length")
    if u["checksum_ok"] is False:
      bad.append("udp.checksum")
  elif ip["proto"] == F.PROTO_ICMP:
    ic = d.get("icmp")
    if ic is None:
      if whole:
        bad.append("icmp.truncated")
      return bad
    if ic["checksum_ok"] is False:
      bad.append("icmp.checksum")
  return bad


_L2_FIELDS = ("eth.dst", "eth.src", "eth.type", "vlan0.tci", "vlan0.type", "vlan1.tci", "vlan1.type",
              "llc.dsap", "llc.ssap", "llc.ctrl", "snap.oui", "snap.type",
              "arp.op", "arp.sha", "arp.spa", "arp.tha", "arp.tpa")
_L4_FIELDS = ("tcp.sport", "tcp.dport", "tcp.seq", "tcp.ack", "tcp.window", "tcp.urg",
              "udp.sport", "udp.dport", "icmp.type", "icmp.code")
_L3_FIELDS = ("ipv4.tos", "ipv4.id", "ipv4.flags_frag", "ipv4.ttl", "ipv4.proto", "ipv4.src", "ipv4.dst")
_LEN_FIELDS = ("udp.length", "ipv4.total_len")
_SUM_FIELDS = ("tcp.checksum", "udp.checksum", "icmp.checksum", "ipv4.checksum")

_OPT_NAMES = {0: "eol", 1: "nop", 2: "mss", 3: "ws", 4: "sackperm", 5: "sack", 8: "ts", 30: "mptcp"}


def tcp_option_name(kind):
  return _OPT_NAMES.get(kind, "unknown")


def _cmp_fields(names, expected, actual, fe, fa):
  for name in names:
    if (name in fe) != (name in fa):
      return name.split(".")[0] + ".presence"
    if name in fe:
      oe, le = fe[name]
      oa, la = fa[name]
      if expected[oe:oe + le] != actual[oa:oa + la]:
        return name
  return None


def first_difference(expected, actual):
  """Name the place where two frames differ, as a stable root-cause discriminator: a header field name,
  "tcp.options:<name>", "ipv4.options", "<layer>.payload[-length]", "length", or None if equal.
  Inner layers are looked at before outer ones, and length and checksum fields last, so that the field that
  is wrong is named rather than the lengths and checksums that follow from it."""
  if expected == actual:
    return None
  de, da = F.dissect(expected), F.dissect(actual)
  fe, fa = de["foff"], da["foff"]
  r = _cmp_fields(_L2_FIELDS, expected, actual, fe, fa)
  if r:
    return r
  if "tcp" in de and "tcp" in da:
    oe, oa = bytes(de["tcp"]["options"]), bytes(da["tcp"]["options"])
    if oe != oa:
      for off, kind, ln in tcp_option_kinds(oe):
        if oe[off:off + ln] != oa[off:off + ln]:
          return "tcp.options:" + tcp_option_name(kind)
      return "tcp.options:extra"
  r = _cmp_fields(_L4_FIELDS, expected, actual, fe, fa)
  if r:
    return r
  pe, pa = de.get("payload_off"), da.get("payload_off")
  if pe is not None and pa is not None and expected[pe:] != actual[pa:]:
    layer = "eth"
    for l in ("icmp", "udp", "tcp", "ipv4", "arp", "snap", "llc"):
      if l in de:
        layer = l
        break
    n = min(len(expected) - pe, len(actual) - pa)
    if len(expected) - pe != len(actual) - pa and expected[pe:pe + n] == actual[pa:pa + n]:
      return layer + ".payload-length"
    return layer + ".payload"
  if "ipv4" in de and "ipv4" in da and de["ipv4"]["options"] != da["ipv4"]["options"]:
    return "ipv4.options"
  for names in (_L3_FIELDS, _LEN_FIELDS, _SUM_FIELDS):
    r = _cmp_fields(names, expected, actual, fe, fa)
    if r:
      return r
  if len(expected) != len(actual):
    return "length"
  return "bytes"


def byte_distance(a, b):
  n = min(len(a), len(b))
  return sum(1 for i in range(n) if a[i] != b[i]) + abs(len(a) - len(b))


# --------------------------------------------------------------------------- IPv6 (RFC 8200), just enough for C12

ETH_IPV6 = 0x86dd


def build_ipv6(src, dst, next_header, payload, tc=0, flow=0, hlim=64):
  """src, dst: 16 raw bytes.  No extension headers."""
  return (struct.pack("!LHBB", (6 << 28) | ((tc & 0xff) << 20) | (flow & 0xfffff), len(payload), next_header & 0xff, hlim & 0xff)
          + bytes(src) + bytes(dst) + bytes(payload))


def pseudo_header6(src, dst, next_header, length):
  return bytes(src) + bytes(dst) + struct.pack("!LBBBB", length, 0, 0, 0, next_header & 0xff)


def l4_checksum6(src, dst, next_header, segment):
  return F.checksum(pseudo_header6(src, dst, next_header, len(segment)) + bytes(segment))


def build_udp6(src, dst, sport, dport, payload=b""):
  seg = struct.pack("!HHHH", sport & 0xffff, dport & 0xffff, 8 + len(payload), 0) + bytes(payload)
  c = l4_checksum6(src, dst, 17, seg) or 0xffff
  return seg[:6] + struct.pack("!H", c) + seg[8:]


def build_tcp6(src, dst, sport, dport, payload=b"", seq=0, ack=0, flags=0x02, window=8192):
  seg = struct.pack("!HHLLHHHH", sport & 0xffff, dport & 0xffff, seq, ack, (5 << 12) | (flags & 0x1ff), window, 0, 0) + bytes(payload)
  c = l4_checksum6(src, dst, 6, seg)
  return seg[:16] + struct.pack("!H", c) + seg[18:]


def build_icmp6_echo(src, dst, ident, seq, payload=b"", reply=False):
  seg = struct.pack("!BBHHH", 129 if reply else 128, 0, 0, ident & 0xffff, seq & 0xffff) + bytes(payload)
  c = l4_checksum6(src, dst, 58, seg)
  return seg[:2] + struct.pack("!H", c) + seg[4:]


def dissect6(frame):
  """None unless `frame` is Ethernet II (0..2 802.1Q tags) carrying an IPv6 header; else
  {"off", "payload_len", "next", "src", "dst", "l4_off", "room", "trailer", "l4_checksum_ok" (None when not TCP/UDP/ICMPv6)}"""
  d = F.dissect(frame)
  if d.get("ethertype") != ETH_IPV6 or "llc" in d:
    return None
  off = d["l3_off"]
  if len(frame) < off + 40 or frame[off] >> 4 != 6:
    return None
  plen, nh = struct.unpack_from("!HB", frame, off + 4)
  src, dst = frame[off + 8:off + 24], frame[off + 24:off + 40]
  room = len(frame) - off - 40
  r = {"off": off, "payload_len": plen, "next": nh, "src": src, "dst": dst, "l4_off": off + 40, "room": room,
       "trailer": max(0, room - plen), "l4_checksum_ok": None}
  if plen <= room and nh in (6, 17, 58):
    seg = frame[off + 40:off + 40 + plen]
    if nh == 17 and len(seg) >= 8 and seg[6:8] == b"\0\0":
      r["l4_checksum_ok"] = False          # a zero UDP checksum is illegal over IPv6
    else:
      r["l4_checksum_ok"] = F.ones_sum(pseudo_header6(src, dst, nh, len(seg)) + seg) == 0xffff
  return r


def validate6(frame):
  r = dissect6(frame)
  if r is None:
    return ["ipv6.header"]
  bad = []
  if r["payload_len"] > r["room"]:
    bad.append("ipv6.payload_len")
  if r["l4_checksum_ok"] is False:
    bad.append("ipv6.l4-checksum")
  return bad


# --------------------------------------------------------------------------- checksum boundary values

def solve_checksum_word(segment, pseudo, word_off, csum_off, udp):
  """`segment` (TCP or UDP, any checksum) with the 16-bit word at `word_off` chosen so that the Internet checksum over
  pseudo header + segment COMPUTES to 0x0000, and with the checksum field written as the protocol wants it then:
  0xffff for UDP (RFC 768: an all-zero computed checksum is transmitted as all ones), 0x0000 for TCP (RFC 793)."""
  b = bytearray(segment)
  b[csum_off:csum_off + 2] = b"\0\0"
  b[word_off:word_off + 2] = b"\0\0"
  s = F.ones_sum(bytes(pseudo) + bytes(b))
  b[word_off:word_off + 2] = struct.pack("!H", 0xffff - s)
  if F.checksum(bytes(pseudo) + bytes(b)) != 0:
    raise ValueError("could not reach the boundary")
  if udp:
    b[csum_off:csum_off + 2] = b"\xff\xff"
  return bytes(b)
