"""Byte-level builder of well-formed OpenFlow 1.0 messages, written from openflow.h 1.0.0
(OpenFlow Switch Specification 1.0.0, section 5) with `struct` only.  Imports nothing from pox.

  build(spec) -> Built       spec is a small JSON-able dict, see below
  split(stream) -> Framing   frames a byte stream by the declared length of each header

A spec is {"t": type, "xid": int, "n": size parameter, "f": fill seed, "k": sub-kind, "ver": version}.
Only "t" is required.  `n` is the number of payload bytes / ports / actions / stats entries /
queues (whatever is variable in that message), `k` the stats type of STATS_REQUEST / STATS_REPLY,
`f` selects the deterministic field values.  The result is a pure function of the spec.

Built.fields lists every *embedded* length field (action len, actions_len, flow-stats entry
length, queue len, queue-property len) with its absolute offset, so that a fault enumerator can
corrupt exactly one of them; the header's own length field is always at offset 2.
"""
import struct

OFP_VERSION = 0x01
HEADER_LEN = 8
MAX_LEN = 0xffff

HELLO, ERROR, ECHO_REQUEST, ECHO_REPLY, VENDOR = 0, 1, 2, 3, 4
FEATURES_REQUEST, FEATURES_REPLY = 5, 6
GET_CONFIG_REQUEST, GET_CONFIG_REPLY, SET_CONFIG = 7, 8, 9
PACKET_IN, FLOW_REMOVED, PORT_STATUS = 10, 11, 12
PACKET_OUT, FLOW_MOD, PORT_MOD = 13, 14, 15
STATS_REQUEST, STATS_REPLY = 16, 17
BARRIER_REQUEST, BARRIER_REPLY = 18, 19
QUEUE_GET_CONFIG_REQUEST, QUEUE_GET_CONFIG_REPLY = 20, 21

TYPE_NAMES = {
  0: "HELLO", 1: "ERROR", 2: "ECHO_REQUEST", 3: "ECHO_REPLY", 4: "VENDOR", 5: "FEATURES_REQUEST",
  6: "FEATURES_REPLY", 7: "GET_CONFIG_REQUEST", 8: "GET_CONFIG_REPLY", 9: "SET_CONFIG", 10: "PACKET_IN",
  11: "FLOW_REMOVED", 12: "PORT_STATUS", 13: "PACKET_OUT", 14: "FLOW_MOD", 15: "PORT_MOD",
  16: "STATS_REQUEST", 17: "STATS_REPLY", 18: "BARRIER_REQUEST", 19: "BARRIER_REPLY",
  20: "QUEUE_GET_CONFIG_REQUEST", 21: "QUEUE_GET_CONFIG_REPLY",
}

# Direction tables of the specification (symmetric messages are in both).  OFPT_ERROR travels both ways:
# section 4.1 (version negotiation) makes either end answer an unsupported HELLO with OFPET_HELLO_FAILED.
TO_CONTROLLER = [HELLO, ERROR, ECHO_REQUEST, ECHO_REPLY, VENDOR, FEATURES_REPLY, GET_CONFIG_REPLY,
                 PACKET_IN, FLOW_REMOVED, PORT_STATUS, STATS_REPLY, BARRIER_REPLY, QUEUE_GET_CONFIG_REPLY]
TO_SWITCH = [HELLO, ERROR, ECHO_REQUEST, ECHO_REPLY, VENDOR, FEATURES_REQUEST, GET_CONFIG_REQUEST, SET_CONFIG,
             PACKET_OUT, FLOW_MOD, PORT_MOD, STATS_REQUEST, BARRIER_REQUEST, QUEUE_GET_CONFIG_REQUEST]

OFPST_DESC, OFPST_FLOW, OFPST_AGGREGATE, OFPST_TABLE, OFPST_PORT, OFPST_QUEUE, OFPST_VENDOR = 0, 1, 2, 3, 4, 5, 0xffff
STATS_KINDS = [OFPST_DESC, OFPST_FLOW, OFPST_AGGREGATE, OFPST_TABLE, OFPST_PORT, OFPST_QUEUE, OFPST_VENDOR]

OFPFW_ALL = (1 << 22) - 1
OFPP_NONE = 0xffff
NO_BUFFER = 0xffffffff


class Built(object):
  __slots__ = ("data", "fields", "spec")

  def __init__(self, data, fields, spec):
    self.data, self.fields, self.spec = data, fields, spec

  def __len__(self):
    return len(self.data)


def header(t, length, xid, version=OFP_VERSION):
  return struct.pack("!BBHL", version & 0xff, t & 0xff, length & 0xffff, xid & 0xffffffff)


_BASE = bytes(((1 + i * 13 + (i >> 8)) & 0xff) for i in range(65536))
_SHIFT = {}


def pattern(f, n):
  """n deterministic bytes selected by f: byte i is (7f + 1 + 13i + (i >> 8)) mod 256."""
  sh = (f * 7) & 0xff
  t = _SHIFT.get(sh)
  if t is None:
    t = _SHIFT[sh] = bytes(((b + sh) & 0xff) for b in range(256))
  return _BASE[:n].translate(t)


def _zs(text, width):
  b = text.encode("ascii")[:width - 1]
  return b + b"\x00" * (width - len(b))


def match(f=0):
  """ofp_match, 40 bytes.  Three shapes: everything wildcarded; exact IPv4/TCP; layer 2 only."""
  shape = f % 3
  if shape == 0:
    return struct.pack("!LH6s6sHBxHBB2xLLHH", OFPFW_ALL, 0, b"\0" * 6, b"\0" * 6, 0, 0, 0, 0, 0, 0, 0, 0, 0)
  mac1 = bytes([0x02, 0, 0, 0, (f >> 8) & 0xff, f & 0xff])
  mac2 = bytes([0x02, 0, 0, 1, (f >> 8) & 0xff, (f + 1) & 0xff])
  if shape == 1:
    return struct.pack("!LH6s6sHBxHBB2xLLHH", 0, 1 + f % 4, mac1, mac2, 0xffff, 0, 0x0800, 0, 6,
                       0x0a000001 + (f & 0xff), 0x0a000102, 1024 + (f & 0x3ff), 80)
  # in_port, dl_src, dl_dst, dl_type given; vlan, nw_*, tp_* wildcarded (bits 1,20,4..7 + nw masks 8-19, tos 21)
  wc = OFPFW_ALL & ~(1 << 0) & ~(1 << 2) & ~(1 << 3) & ~(1 << 4)
  return struct.pack("!LH6s6sHBxHBB2xLLHH", wc, 1 + f % 4, mac1, mac2, 0, 0, 0x88cc, 0, 0, 0, 0, 0, 0)


def phy_port(i, f=0):
  """ofp_phy_port, 48 bytes."""
  no = 1 + (i % 0xff00)
  mac = bytes([0x02, (f >> 8) & 0xff, f & 0xff, 0, (no >> 8) & 0xff, no & 0xff])
  return struct.pack("!H6s16sLLLLLL", no, mac, _zs("p%d-%d" % (f & 0xff, no), 16), 1 << (i % 7), i & 1,
                     1 << (i % 12), 0xfff & (f + i), 0xfff, 1 << ((i + 3) % 12))


_ACTION_KINDS = 13


def action(i, f, base, fields, tag):
  """One ofp_action_* chosen by i.  Appends its len field to `fields` (offset base+2)."""
  kind = (i + f) % _ACTION_KINDS
  if kind == 0:
    b = struct.pack("!HHHH", 0, 8, 1 + (i % 8), 0xffff if i % 2 else 128)            # OUTPUT
  elif kind == 1:
    b = struct.pack("!HHH2x", 1, 8, (f + i) & 0xfff)                                # SET_VLAN_VID
  elif kind == 2:
    b = struct.pack("!HHB3x", 2, 8, i & 7)                                           # SET_VLAN_PCP
  elif kind == 3:
    b = struct.pack("!HH4x", 3, 8)                                                   # STRIP_VLAN
  elif kind in (4, 5):
    b = struct.pack("!HH6s6x", kind, 16, bytes([2, 0, 0, f & 0xff, 0, i & 0xff]))     # SET_DL_SRC/DST
  elif kind in (6, 7):
    b = struct.pack("!HHL", kind, 8, 0x0a000000 + ((f * 31 + i) & 0xffffff))          # SET_NW_SRC/DST
  elif kind == 8:
    b = struct.pack("!HHB3x", 8, 8, (i << 2) & 0xfc)                                  # SET_NW_TOS
  elif kind in (9, 10):
    b = struct.pack("!HHH2x", kind, 8, (f + i * 7) & 0xffff)                          # SET_TP_SRC/DST
  elif kind == 11:
    b = struct.pack("!HHH6xL", 11, 16, 1 + (i % 8), i)                                # ENQUEUE
  else:
    b = struct.pack("!HHL", 0xffff, 16, 0x00c0ffee) + pattern(f + i, 8)               # VENDOR (unknown vendor)
  fields.append({"name": "%s[%d].len" % (tag, i), "off": base + 2, "size": 2, "value": len(b)})
  return b


def actions(n, f, base, fields, tag="action"):
  out = b""
  for i in range(n):
    out += action(i, f, base + len(out), fields, tag)
  return out


def _flow_stats_entry(i, f, base, fields):
  nact = i % 3
  sub = []
  acts = actions(nact, f + i, base + 88, sub, tag="flow[%d].action" % i)
  length = 88 + len(acts)
  b = struct.pack("!HBx", length, i % 2) + match(f + i) + struct.pack("!LLHHH6xQQQ", 10 + i, 500 * i, (0x8000 - i) & 0xffff, i & 0xffff, (2 * i) & 0xffff,
                                                                        (f << 16) | i, 100 + i, 6400 + i) + acts
  assert len(b) == length
  fields.append({"name": "flow[%d].length" % i, "off": base, "size": 2, "value": length})
  fields.extend(sub)
  return b


def _queue(i, f, base, fields):
  """ofp_packet_queue with i%3 properties (min-rate / none)."""
  props = b""
  pf = []
  for j in range(i % 3):
    off = base + 8 + len(props)
    if f % 7 != 6 or (i + j) % 2 == 0:
      p = struct.pack("!HH4xH6x", 1, 16, (f + j) % 1001)    # OFPQT_MIN_RATE
    else:
      p = struct.pack("!HH4x", 0, 8)                        # OFPQT_NONE (only for f % 7 == 6)
    pf.append({"name": "queue[%d].prop[%d].len" % (i, j), "off": off + 2, "size": 2, "value": len(p)})
    props += p
  length = 8 + len(props)
  fields.append({"name": "queue[%d].len" % i, "off": base + 4, "size": 2, "value": length})
  fields.extend(pf)
  return struct.pack("!LH2x", f * 16 + i, length) + props


def _stats_body(reply, k, n, f, base, fields):
  if k == OFPST_VENDOR:
    return struct.pack("!L", 0x00c0ffee) + pattern(f, n)
  if not reply:
    if k in (OFPST_DESC, OFPST_TABLE):
      return b""
    if k in (OFPST_FLOW, OFPST_AGGREGATE):
      return match(f) + struct.pack("!BxH", 0xff, OFPP_NONE)
    if k == OFPST_PORT:
      return struct.pack("!H6x", OFPP_NONE if f % 2 == 0 else 1 + f % 8)
    if k == OFPST_QUEUE:
      return struct.pack("!H2xL", 0xfffc, 0xffffffff if f % 2 == 0 else f)      # OFPP_ALL, OFPQ_ALL
    raise ValueError("unknown stats kind %r" % (k,))
  if k == OFPST_DESC:
    return (_zs("mfr %d" % f, 256) + _zs("hw", 256) + _zs("sw %d" % (f * 3), 256) + _zs("serial-%d" % f, 32)
            + _zs("datapath %d" % f, 256))
  if k == OFPST_FLOW:
    out = b""
    for i in range(n):
      out += _flow_stats_entry(i, f, base + len(out), fields)
    return out
  if k == OFPST_AGGREGATE:
    return struct.pack("!QQL4x", 1000 + f, 64000 + f, n)
  if k == OFPST_TABLE:
    return b"".join(struct.pack("!B3x32sLLLQQ", i & 0xff, _zs("table%d" % i, 32), OFPFW_ALL, 1 << 20, i, 100 * i + f, 90 * i)
                    for i in range(n))
  if k == OFPST_PORT:
    return b"".join(struct.pack("!H6x12Q", (1 + i) & 0xffff, *[(f + i) * 100 + j for j in range(12)]) for i in range(n))
  if k == OFPST_QUEUE:
    return b"".join(struct.pack("!H2xLQQQ", 1 + i % 8, i, 1000 * i + f, 10 * i, i % 3) for i in range(n))
  raise ValueError("unknown stats kind %r" % (k,))


def body(t, n, f, k, fields):
  """Bytes after the 8-byte header.  Offsets recorded in `fields` are absolute (header included)."""
  B = HEADER_LEN
  if t == HELLO:
    return pattern(f, n)                   # spec 5.5.1: a body must be tolerated and ignored
  if t == ERROR:
    return struct.pack("!HH", f % 6, f % 4) + pattern(f, n)
  if t in (ECHO_REQUEST, ECHO_REPLY):
    return pattern(f, n)
  if t == VENDOR:
    return struct.pack("!L", 0x00c0ffee) + pattern(f, n)
  if t in (FEATURES_REQUEST, GET_CONFIG_REQUEST, BARRIER_REQUEST, BARRIER_REPLY):
    return b""
  if t == FEATURES_REPLY:
    return struct.pack("!QLB3xLL", 0x0000020000000000 | f, 256, 1 + f % 2, 0x87, 0xfff) + \
           b"".join(phy_port(i, f) for i in range(n))
  if t in (GET_CONFIG_REPLY, SET_CONFIG):
    return struct.pack("!HH", f % 3, (128 + f) & 0xffff)
  if t == PACKET_IN:
    return struct.pack("!LHHBx", NO_BUFFER if f % 2 else 1 + f, (n + f % 2 * 100) & 0xffff, 1 + f % 8, f % 2) + pattern(f, n)
  if t == FLOW_REMOVED:
    return match(f) + struct.pack("!QHBxLLH2xQQ", 0x1122334400000000 | f, 0x8000, f % 3, 30 + f, 1000 * (f % 1000), 10, 5 + f, 320 + f)
  if t == PORT_STATUS:
    return struct.pack("!B7x", f % 3) + phy_port(f % 9, f)
  if t == PACKET_OUT:
    nact = min(n, 1 + f % 3) if n else 0
    acts = actions(nact, f, B + 8, fields)
    fields.append({"name": "actions_len", "off": B + 6, "size": 2, "value": len(acts)})
    data = pattern(f, max(0, n - nact))
    buffer_id = NO_BUFFER if data else 1 + f
    return struct.pack("!LHH", buffer_id, OFPP_NONE if f % 2 else 1 + f % 4, len(acts)) + acts + data
  if t == FLOW_MOD:
    acts = actions(n, f, B + 64, fields)
    return match(f) + struct.pack("!QHHHHLHH", 0xabcdef0000000000 | f, f % 5, f % 60, (f * 3) % 60, 0x8000 - (f & 0xff),
                                  NO_BUFFER, OFPP_NONE, f % 2) + acts
  if t == PORT_MOD:
    return struct.pack("!H6sLLL4x", 1 + f % 8, bytes([2, 0, 0, 0, 0, 1 + f % 8]), f & 1, 1, 0)
  if t == STATS_REQUEST:
    return struct.pack("!HH", k, 0) + _stats_body(False, k, n, f, B + 4, fields)
  if t == STATS_REPLY:
    more = 1 if (f % 5 == 4 and k in (OFPST_FLOW, OFPST_TABLE, OFPST_PORT, OFPST_QUEUE)) else 0
    return struct.pack("!HH", k, more) + _stats_body(True, k, n, f, B + 4, fields)
  if t == QUEUE_GET_CONFIG_REQUEST:
    return struct.pack("!H2x", 1 + f % 8)
  if t == QUEUE_GET_CONFIG_REPLY:
    out = struct.pack("!H6x", 1 + f % 8)
    for i in range(n):
      out += _queue(i, f, B + len(out), fields)
    return out
  raise ValueError("unknown message type %r" % (t,))


def uses_n(t, k=0):
  """Does the size parameter change the message?"""
  if t in (HELLO, ERROR, ECHO_REQUEST, ECHO_REPLY, VENDOR, FEATURES_REPLY, PACKET_IN, PACKET_OUT, FLOW_MOD,
           QUEUE_GET_CONFIG_REPLY):
    return True
  if t == STATS_REPLY:
    return k != OFPST_DESC
  if t == STATS_REQUEST:
    return k == OFPST_VENDOR
  return False


_MAX_N = {}


def max_n(t, k=0, f=0):
  """Largest size parameter for which build() stays within the 16-bit length (action sizes depend on f)."""
  if not uses_n(t, k):
    return 0
  if t == STATS_REPLY and k == OFPST_AGGREGATE:
    return 0xffffffff
  key = (t, k, f % 39)
  if key not in _MAX_N:
    lo, hi = 0, 66000
    while lo < hi:                      # the length is monotone in n
      mid = (lo + hi + 1) // 2
      try:
        build({"t": t, "k": k, "n": mid, "f": f % 39})
        lo = mid
      except ValueError:
        hi = mid - 1
    _MAX_N[key] = lo
  return _MAX_N[key]


_BUILT = {}


def build(spec):
  key = (spec["t"], spec.get("n", 0) or 0, spec.get("f", 0) or 0, spec.get("k", 0) or 0, spec.get("xid", 0) or 0,
         spec.get("ver", OFP_VERSION) or OFP_VERSION)
  b = _BUILT.get(key)
  if b is None:
    b = _build(spec)
    if len(_BUILT) > 4000:
      _BUILT.clear()
    _BUILT[key] = b
  return b


def _build(spec):
  t = spec["t"]
  n = int(spec.get("n", 0) or 0)
  f = int(spec.get("f", 0) or 0)
  k = int(spec.get("k", 0) or 0)
  if not uses_n(t, k):
    n = 0
  fields = []
  b = body(t, n, f, k, fields)
  length = HEADER_LEN + len(b)
  if length > MAX_LEN:
    raise ValueError("message of %d bytes does not fit the 16-bit length field" % length)
  data = header(t, length, spec.get("xid", 0) or 0, spec.get("ver", OFP_VERSION) or OFP_VERSION) + b
  for fl in fields:
    got = int.from_bytes(data[fl["off"]:fl["off"] + fl["size"]], "big")
    assert got == fl["value"], (fl, got)
  return Built(data, fields, dict(spec))


# --------------------------------------------------------------------------- framing by declared length

class Framing(object):
  """messages: [(offset, declared_length, type, xid, version)] of the complete, frameable messages;
  rest: offset where framing stopped; why: None (clean end), "partial-header", "partial-body",
  or "length<8" (a declared length that cannot even cover the header: no framing exists beyond it)."""
  __slots__ = ("messages", "rest", "why")

  def __init__(self, messages, rest, why):
    self.messages, self.rest, self.why = messages, rest, why


def split(stream, start=0):
  msgs = []
  off = start
  n = len(stream)
  while True:
    if off == n:
      return Framing(msgs, off, None)
    if n - off < HEADER_LEN:
      return Framing(msgs, off, "partial-header")
    ver, t, length, xid = struct.unpack_from("!BBHL", stream, off)
    if length < HEADER_LEN:
      return Framing(msgs, off, "length<8")
    if n - off < length:
      return Framing(msgs, off, "partial-body")
    msgs.append((off, length, t, xid, ver))
    off += length


def unit(t, k=0):
  """Approximate number of bytes one unit of the size parameter adds."""
  if t == FEATURES_REPLY:
    return 48
  if t == FLOW_MOD:
    return 10
  if t == QUEUE_GET_CONFIG_REPLY:
    return 24
  if t == STATS_REPLY:
    return {OFPST_FLOW: 98, OFPST_TABLE: 64, OFPST_PORT: 104, OFPST_QUEUE: 32}.get(k, 1)
  return 1


def n_for_size(t, k, f, target):
  """Size parameter that brings the message close to `target` bytes (clamped to what fits)."""
  if not uses_n(t, k):
    return 0
  if t == STATS_REPLY and k == OFPST_AGGREGATE:
    return target
  n = max(0, target // unit(t, k))
  if target < 40000:
    return n
  while n > 0:
    try:
      build({"t": t, "k": k, "n": n, "f": f})
      return n
    except ValueError:
      n = n * 19 // 20
  return 0


# Length of the fixed part of each message (openflow.h 1.0.0 struct sizes; ofp_packet_in without its
# trailing 2-byte alignment pad, as on the wire with zero data bytes).
FIXED_LEN = {
  HELLO: 8, ERROR: 12, ECHO_REQUEST: 8, ECHO_REPLY: 8, VENDOR: 12, FEATURES_REQUEST: 8, FEATURES_REPLY: 32,
  GET_CONFIG_REQUEST: 8, GET_CONFIG_REPLY: 12, SET_CONFIG: 12, PACKET_IN: 18, FLOW_REMOVED: 88, PORT_STATUS: 64,
  PACKET_OUT: 16, FLOW_MOD: 72, PORT_MOD: 32, STATS_REQUEST: 12, STATS_REPLY: 12, BARRIER_REQUEST: 8,
  BARRIER_REPLY: 8, QUEUE_GET_CONFIG_REQUEST: 12, QUEUE_GET_CONFIG_REPLY: 16,
}


def header_class(stream, pos, direction):
  """Classifies the header found at `pos` of a possibly hostile stream: what, if anything, is wrong
  with it at the framing level.  direction is the list of types the receiver handles."""
  if pos < 0 or pos > len(stream):
    return "outside-stream"
  if len(stream) - pos < 4:
    return "truncated-header"
  ver, t, length = stream[pos], stream[pos + 1], (stream[pos + 2] << 8) | stream[pos + 3]
  if length < HEADER_LEN:
    return "length<8"
  if ver != OFP_VERSION:
    return "bad-version"
  if t not in FIXED_LEN:
    return "unknown-type"
  if length < FIXED_LEN[t]:
    return "length<fixed"
  if t not in direction:
    return "wrong-direction"
  return "body"
