"""schedmodel -- the oracle of C06: judges the event log of one run of a program set.

Imports nothing from pox.  Everything here is a re-statement of the property:

  * each task's steps execute in program order, exactly once, never overlapping;
  * a sleeping / timed-waiting task is never resumed before its requested time, is resumed
    exactly once, and is not resumed late because the scheduler slept past its due time
    (lateness caused by other tasks' work is admitted);
  * a select that reports descriptors reports requested, ready ones (and all of them when
    nobody else waits on the same descriptor); an empty result needs the timeout to have passed;
  * a blocked task resumes only after (and after every) wake; data read from a socket reaches
    exactly one step; a send reports exactly the bytes the socket accepted;
  * an operation that completes at once (free Lock.acquire, try-acquire, release, the harness's `imm`) is continued with its value,
    also inside a sub-task; an empty Send completes; schedule() of an already scheduled task changes nothing (judged through
    the clauses above: what the task waits for next is neither cut short nor answered twice);
  * timers fire once, or every interval until cancelled / stopped by a False return when
    self-stoppable; never early, never after cancel();
  * a task that raises disappears and the other tasks' traces are those of the run where it
    simply ended there (compare());
  * a sub-task's value or exception reaches exactly its caller, once, after the sub-task ended;
  * every runnable task of priority >= 1 runs within (its queue position + front insertions) cycles,
    and nothing that is due or runnable is left behind when the scheduler goes idle.

The log format is described in pvf/sim/vsched.py.  Times are absolute virtual seconds
(T0 + dyadic offsets), so all comparisons are exact.
"""
import copy

T0 = 1000.0
TIMED = ("yn", "sleep", "select", "recv")


def programs(case):
  """tid -> {"prog", "sub", "prio", "form", "root"} for every generator the case can create."""
  P = {}

  def walk(tid, prog, root):
    for pc, op in enumerate(prog):
      if op.get("op") == "call":
        sub = op.get("sub", {})
        stid = "%s/%d" % (tid, pc)
        sp = [] if sub.get("kind") == "plain" else sub.get("prog", [])
        P[stid] = {"prog": sp, "sub": sub, "root": root}
        walk(stid, sp, root)
  for i, t in enumerate(case.get("tasks", [])):
    tid = "t%d" % i
    P[tid] = {"prog": t.get("prog", []), "sub": None, "root": tid,
              "prio": t.get("prio"), "form": t.get("form", "sub")}
    walk(tid, t.get("prog", []), tid)
  return P


def root_of(tid):
  return tid.split("/", 1)[0]


class Index(object):
  def __init__(self, case, log):
    self.case, self.log = case, log
    self.steps = {}     # tid -> [(seq, step, pc, time, val)]
    self.reqs = {}      # tid -> {step: (seq, pc, time, op)}
    self.ends = {}      # tid -> (seq, step, time, how)
    self.acts = []      # (seq, tid, step, time, kind, arg, eff)
    self.sels = []      # (seq, a, b, why)
    self.cycs = []      # (seq, n, snap, nleft)
    self.srecv = []     # (seq, sock, time, hex)
    self.ssend = []     # (seq, sock, time, marker, offered, accepted)
    self.tnew, self.tcancel, self.fires, self.tstart = {}, {}, {}, {}
    self.overlaps, self.xexc, self.killed, self.runexc = [], [], [], []
    self.wedged, self.deadlocks = [], []
    self.rfs = {}       # (tid, pc) -> [(seq, k, time, outcome)]
    self.regs = []
    self.final = {}
    self.stop = None
    self.quit = None
    for seq, e in enumerate(log):
      k = e[0]
      if k == "step":
        self.steps.setdefault(e[1], []).append((seq, e[2], e[3], e[4], e[5]))
      elif k == "req":
        self.reqs.setdefault(e[1], {})[e[2]] = (seq, e[3], e[4], e[5])
      elif k == "end":
        self.ends.setdefault(e[1], (seq, e[2], e[3], e[4]))
      elif k == "act":
        self.acts.append((seq,) + tuple(e[1:]))
      elif k == "sel":
        self.sels.append((seq, e[1], e[2], e[3]))
      elif k == "cyc":
        self.cycs.append((seq, e[1], e[2], e[3]))
      elif k == "srecv":
        self.srecv.append((seq, e[1], e[2], e[3]))
      elif k == "ssend":
        self.ssend.append((seq, e[1], e[2], e[3], e[4], e[5]))
      elif k == "tnew":
        self.tnew.setdefault(e[1], (seq, e[2]))
      elif k == "tstart":
        self.tstart.setdefault(e[1], (seq, e[2]))
      elif k == "tcancel":
        self.tcancel.setdefault(e[1], (seq, e[2]))
      elif k == "fire":
        self.fires.setdefault(e[1], []).append((seq, e[2], e[3], e[4]))
      elif k == "overlap":
        self.overlaps.append(e)
      elif k == "xexc":
        self.xexc.append(e)
      elif k == "killed":
        self.killed.append(e)
      elif k == "runexc":
        self.runexc.append(e)
      elif k == "rf":
        self.rfs.setdefault((e[1], e[2]), []).append((seq, e[3], e[4], e[5]))
      elif k == "wedged":
        self.wedged.append(e)
      elif k == "deadlock":
        self.deadlocks.append(e)
      elif k == "reg":
        self.regs.append(e[1])
      elif k == "final":
        self.final = e[1]
      elif k == "stop" and self.stop is None:
        self.stop = (seq, e[1], e[2])
      elif k == "quit" and self.quit is None:
        self.quit = (seq, e[1], e[2])

  def resume(self, tid, step):
    """(seq, time, val) of the step that follows request `step` of tid, or None."""
    st = self.steps.get(tid, [])
    if step + 1 < len(st):
      s = st[step + 1]
      return s[0], s[3], s[4]
    return None


def _fd_at(case, label, which):
  """Instant from which select() has to report descriptor `label` for reading ("r_at") / writing ("w_at"): its own readiness,
  or the other end going away (a hang-up makes it readable; an error / reset makes it readable and writable)."""
  i = int(label[1:])
  f = case.get("fds", [])[i]
  v = f.get(which)
  h = f.get("hup_at")
  if h is not None and (which == "r_at" or f.get("hup_kind") == "err"):
    v = h if v is None else min(v, h)
  return None if v is None else T0 + v


def _lock_certainly_free(ix, lock, rseq):
  """Is lock `lock` free when the request at log position `rseq` is made?  Only the holder releases (harness rule), so the lock
  is free if every earlier acquire request that did not come back False has been followed by a release request."""
  acq = rel = 0
  for tid, rq in ix.reqs.items():
    for step, (q, pc, rtime, op) in rq.items():
      if q >= rseq or op.get("lock") != lock:
        continue
      if op["op"] == "release":
        rel += 1
      elif op["op"] == "acquire":
        res = ix.resume(tid, step)
        if not (res is not None and res[0] < rseq and res[2] is False):
          acq += 1
  return rel >= acq


def _hung_awaited(case, ix):
  """Descriptors whose other end had gone away while a Select that was never answered waited for them."""
  fin = ix.final.get("time", T0)
  out = []
  for tid, rq in ix.reqs.items():
    for step, (q, pc, rtime, op) in rq.items():
      if op["op"] == "select" and ix.resume(tid, step) is None:
        for which, key in (("r", "r_at"), ("w", "w_at")):
          for f in op.get(which, []):
            fd = case.get("fds", [])[int(f[1:])]
            h = fd.get("hup_at")
            if h is not None and T0 + h <= fin and (which == "r" or fd.get("hup_kind") == "err"):
              out.append(f)
  return out


def _due(op, rtime):
  k = op["op"]
  if k in ("yn", "sleep"):
    return rtime + op["n"]
  if k in ("select", "recv") and op.get("t") is not None:
    return rtime + op["t"]
  return None


def _sock_pending(case, ix, sock, seq, time):
  """Unread bytes of socket `sock` just before log position `seq` at virtual time `time`."""
  arr = case.get("socks", [])[sock].get("arrivals", [])
  got = sum(int(a[1]) for a in arr if T0 + a[0] <= time)
  used = sum(len(h) // 2 for (q, s, t, h) in ix.srecv if s == sock and q < seq)
  return got - used


def _sock_next_arrival(case, sock, after):
  ts = [T0 + a[0] for a in case.get("socks", [])[sock].get("arrivals", []) if T0 + a[0] > after]
  return min(ts) if ts else None


def _sock_w_at(case, sock):
  v = case.get("socks", [])[sock].get("w_at", 0)
  return None if v is None else T0 + v


def check(case, log):
  """Returns a list of (clause, message, discriminators)."""
  fails = []

  def fail(clause, msg, **disc):
    fails.append((clause, msg, disc))

  ix = Index(case, log)
  P = programs(case)
  timers = case.get("timers", [])

  # ------------------------------------------------------------------ the scheduler itself
  for e in ix.runexc:
    if e[1] in ("TaskError", "SubError", "HBase", "RfError", "TimerError"):
      fail("raising-task-kills-scheduler", "an exception raised by a task escaped Scheduler.run():\n" + e[3])
    else:
      disc = {}
      if case.get("hub") == "epoll" and e[1] == "KeyError":
        hung = _hung_awaited(case, ix)
        if hung:
          # epoll reports EPOLLHUP / EPOLLERR unasked; the Select had not listed the descriptor as exceptional
          disc["hup_unrequested"] = True
      fail("scheduler-died", "Scheduler.run() raised %s at %s:\n%s" % (e[1], e[2], e[3]), exc=e[1], where=e[2], **disc)
  for e in ix.overlaps:
    if str(e[1]).startswith("thread:"):
      fail("step-on-wrong-thread", "a step of %s ran on %s, not on the scheduler's thread" % (e[2], e[1]))
    else:
      fail("step-overlap", "a step of %s started at %s while a step of %s was in progress" % (e[2], e[3], e[1]))
  for e in ix.wedged:
    fail("thread-blocked-forever", "when the run was over thread %s was blocked without any timeout in %s" % (e[1], e[2]),
         site=str(e[2]).split("(")[0].rstrip("0123456789"))
  for e in ix.deadlocks:
    if not ix.wedged:
      fail("thread-deadlock", "no thread could run and none had a timeout: %r" % (e[1],))
  if ix.final.get("underflows"):
    fail("pinger-read-would-block", "the select hub drained an empty pinger %d time(s); a real pinger blocks there" % ix.final["underflows"])

  stop_seq, stop_time, stop_why = ix.stop if ix.stop else (len(log), ix.final.get("time", T0), ix.final.get("stopped"))
  quit_run = ix.quit is not None
  budget = stop_why in ("cycle-budget", "select-budget", "empty-send-spin")
  spinning = None
  if budget:
    for tid, rq in ix.reqs.items():
      for step, (rseq, pc, rtime, op) in rq.items():
        if op["op"] == "send" and int(op.get("len", 1)) == 0 and ix.resume(tid, step) is None:
          n = sum(1 for (q, s2, t2, m, off, a2) in ix.ssend if s2 == op["sock"] and q > rseq and off == 0)
          if n >= 3:
            spinning = (tid, op, rtime, n)
  if spinning:
    fail("empty-send-never-completes", "%s: %r (no bytes to send) requested at %s never completes: the socket was offered the empty "
         "buffer %d times (each send() returning 0 is taken as 'try again') until the run was cut off after %s cycles" % (
             spinning[0], spinning[1], spinning[2], spinning[3], ix.final.get("cycles")))
  elif budget:
    fail("no-quiescence", "the scheduler was still cycling after %s cycles / %s selects (%s)" % (
        ix.final.get("cycles"), ix.final.get("selects"), stop_why))
  died = bool(ix.runexc)
  judge_liveness = not (quit_run or budget or died or stop_why == "horizon-busy")

  # ------------------------------------------------------------------ unexpected deaths
  poisoned = set()
  xseen = set()
  for e in ix.xexc:
    tid, exc, where, text = e[1], e[2], e[3], e[4]
    xseen.add(tid)
    how = ix.ends.get(tid, (0, 0, 0, None))[3]
    target = tid in P and P[tid].get("form") == "target"
    if how == "raise" and exc in ("TaskError", "HBase"):
      continue                      # the program's own `raise`
    if how == "uncaught":
      continue                      # the program let its sub-task's exception pass
    if target and how == "exit" and exc == "RuntimeError" and "StopIteration" in text:
      continue                      # Task(target=...) whose target returned: de-scheduled either way
    cur = _outstanding_op(ix, tid)
    if target and cur is not None and cur["op"] == "call":
      stid = "%s/%d" % (tid, _outstanding_pc(ix, tid))
      sret = (cur.get("sub") or {}).get("ret", "end")
      sen = ix.ends.get(stid)
      if sen is not None and sen[3] in ("raise", "uncaught"):
        fail("subtask-exception-not-delivered", "%s is a Task(target=...) and called sub-task %s, which raised; the exception was "
             "thrown at the Task.run wrapper and killed the task instead of being raised at the target's `yield`: %s" % (tid, stid, text),
             form="target")
        poisoned.add(tid)
        continue
      if sen is not None and sret == "end" and exc == "RuntimeError" and "StopIteration" in text:
        fail("subtask-result-wrong", "%s is a Task(target=...) and called sub-task %s, which ended without a value; the caller was "
             "thrown a StopIteration (RuntimeError inside the wrapper generator): %s" % (tid, stid, text), how="end", got="exc:StopIteration")
        poisoned.add(tid)
        continue
    fail("task-killed", "task %s was de-scheduled by %s (%s) raised at %s while it waited in %r" % (
        tid, exc, text, where, cur), exc=exc, op=(cur or {}).get("op"))
    poisoned.add(tid)
  for e in ix.killed:
    name, blocking, last = e[1], e[2], e[3]
    exc = last.split(":", 1)[0].split(".")[-1] if last else "?"
    if name not in P and ": sub:" in last and last.split(": sub:", 1)[1].strip() in P:
      name = last.split(": sub:", 1)[1].strip()      # a plain-function sub-task runs under task_function's own wrapper name
    if name in xseen and not blocking:
      continue
    if name in poisoned:
      continue
    if blocking and name in P:
      cur0 = _last_req(ix, name)
      if cur0 is not None and cur0["op"] == "badop" and exc in ("OpError", "RuntimeError"):
        continue      # the program's own failing operation: de-scheduled, as reported
    if name.startswith("T") and name[1:].isdigit() and not blocking:
      # a timer whose callback raised (scripted): the Timer task is de-scheduled like any task that raises
      fl = ix.fires.get(int(name[1:]), [])
      if fl and fl[-1][3] in ("raise", "raise-base") and exc == ("HBase" if fl[-1][3] == "raise-base" else "TimerError"):
        continue
    if name in P and P[name]["sub"] is not None and not blocking and exc == "HBase":
      sret = P[name]["sub"].get("ret", "end")
      if ix.ends.get(name, (0, 0, 0, None))[3] == "raise" and isinstance(sret, dict) and sret.get("base"):
        continue      # the sub-task's own scripted BaseException; what became of its caller is judged below
    cur = _outstanding_op(ix, name) if name in ix.steps else None
    fail("task-killed", "the scheduler reported that task %s caused an exception%s: %s (outstanding request %r)" % (
        name, " during a blocking operation" if blocking else "", last, cur), exc=exc, op=(cur or {}).get("op"))
    poisoned.add(name)
  # a poisoned generator poisons its callers (they wait for it) and its sub-tasks
  def is_poisoned(tid):
    for p in poisoned:
      if tid == p or tid.startswith(p + "/") or p.startswith(tid + "/"):
        return True
    return False

  # ------------------------------------------------------------------ program order, exactly once
  for tid, st in ix.steps.items():
    if tid not in P:
      fail("unknown-generator", "steps logged for %s which the case does not define" % tid)
      continue
    for k, (seq, step, pc, time, val) in enumerate(st):
      if step != k:
        fail("step-order", "%s: step number %d at position %d (gap or repeat)" % (tid, step, k))
        break
      if isinstance(val, dict) and val.get("other") == "resumed-after-return":
        fail("subtask-resumed-after-return", "%s was resumed after it had yielded its return value" % tid)
        break
      want = 0 if k == 0 else (ix.reqs.get(tid, {}).get(k - 1, (0, -2, 0, 0))[1] + 1)
      if pc != want:
        fail("step-order", "%s: step %d starts at op %d, expected op %d" % (tid, k, pc, want))
        break

  # ------------------------------------------------------------------ requests: wake conditions and values
  # interval of every select request (for the shared-descriptor exemption)
  sel_reqs = []
  for tid, rq in ix.reqs.items():
    for step, (rseq, pc, rtime, op) in rq.items():
      if op["op"] == "select":
        res = ix.resume(tid, step)
        sel_reqs.append((tid, rseq, res[0] if res else len(log), op))
  tokens = {}
  for tid, st in ix.steps.items():
    for (seq, step, pc, time, val) in st:
      if isinstance(val, list) and len(val) == 2 and val[0] == "ret":
        tokens.setdefault(val[1], []).append(tid)
      if isinstance(val, dict) and "exc" in val and val["exc"][0] in ("SubError", "HBase"):
        tokens.setdefault(val["exc"][1], []).append(tid)
  srecv_claimed = set()

  for tid, rq in ix.reqs.items():
    if tid not in P:
      continue
    for step, (rseq, pc, rtime, op) in sorted(rq.items()):
      kind = op["op"]
      res = ix.resume(tid, step)
      due = _due(op, rtime)
      if res is None:
        if not judge_liveness or is_poisoned(tid) or kind == "quit":
          continue
        # ---- never resumed: is that legitimate?
        if ix.ends.get(tid) is not None and ix.ends[tid][1] > step:
          continue
        if kind == "y0":
          fail("runnable-never-run", "%s yielded 0 at %s and was never run again (run ended at %s by %s)" % (tid, rtime, stop_time, stop_why))
        elif kind in ("yn", "sleep"):
          if due <= stop_time:
            fail("timed-wait-never-resumed", "%s: %r requested at %s (due %s) never resumed; the scheduler went idle at %s" % (tid, op, rtime, due, stop_time), op=kind)
        elif kind == "select":
          if due is not None and due <= stop_time:
            fail("timed-wait-never-resumed", "%s: %r requested at %s (due %s) never resumed; idle at %s" % (tid, op, rtime, due, stop_time), op=kind)
          else:
            for f in op.get("r", []):
              a = _fd_at(case, f, "r_at")
              if a is not None and a <= stop_time:
                fail("ready-fd-never-reported", "%s: select on %s (readable since %s) never resumed; idle at %s" % (tid, f, a, stop_time))
                break
            else:
              for f in op.get("w", []):
                a = _fd_at(case, f, "w_at")
                if a is not None and a <= stop_time:
                  fail("ready-fd-never-reported", "%s: select on %s (writable since %s) never resumed; idle at %s" % (tid, f, a, stop_time))
                  break
        elif kind == "recv":
          if due is not None and due <= stop_time:
            fail("timed-wait-never-resumed", "%s: %r requested at %s (due %s) never resumed; idle at %s" % (tid, op, rtime, due, stop_time), op=kind)
          elif _sock_pending(case, ix, op["sock"], stop_seq, stop_time) > 0:
            fail("ready-fd-never-reported", "%s: Recv on s%d never resumed although unread data is pending at %s" % (tid, op["sock"], stop_time))
        elif kind == "send":
          w = _sock_w_at(case, op["sock"])
          tried = any(s2 == op["sock"] and m == op.get("marker") for (q2, s2, t2, m, off, a2) in ix.ssend)
          if op.get("t") is not None and not tried and rtime + op["t"] <= stop_time:
            fail("timed-wait-never-resumed", "%s: %r requested at %s (no progress, timeout due %s) never resumed; idle at %s" % (
                tid, op, rtime, rtime + op["t"], stop_time), op=kind)
          elif w is not None and w <= stop_time:
            fail("send-never-completed", "%s: Send on s%d (writable since %s) never resumed; idle at %s" % (tid, op["sock"], w, stop_time))
        elif kind == "block":
          wk = [a for a in ix.acts if a[4] == "wake" and a[5] == tid and a[6] and a[0] > rseq]
          if wk:
            fail("wake-lost", "%s blocked at %s, was woken by %s at %s and never ran again" % (tid, rtime, wk[0][1], wk[0][3]))
        elif kind == "badop" and "/" in tid:
          fail("subtask-op-failure-lost", "%s (a task_function sub-task) yielded a blocking operation whose execute() raised (%s) at %s: the "
               "sub-task was de-scheduled and its caller %s is left blocked for ever -- the failure reaches nobody" % (
                   tid, op.get("how"), rtime, tid.rsplit("/", 1)[0]))
        elif kind == "rfop":
          calls = ix.rfs.get((tid, pc), [])
          last_t = calls[-1][2] if calls else rtime
          if calls and calls[-1][3] not in ("abort", "chain", "stale-phase"):
            fail("rf-result-lost", "%s: the return function of %r completed (%s) at %s but the task was never resumed" % (
                tid, op, calls[-1][3], last_t), how=calls[-1][3])
          elif last_t + (op.get("delay") or 0) <= stop_time:
            fail("rf-slice-never-run", "%s: %r requested at %s: after %d call(s) of its return function the next slice (due %s) never came; idle at %s" % (
                tid, op, rtime, len(calls), last_t + (op.get("delay") or 0), stop_time))
        elif kind == "imm" or kind == "release" or (kind == "acquire" and (
            not op.get("blocking", True) or _lock_certainly_free(ix, op.get("lock"), rseq))):
          what = {"imm": "a blocking operation that completes at once (%s)" % op.get("how"), "release": "Lock.release()",
                  "acquire": "Lock.acquire(%s) of a free lock" % ("" if op.get("blocking", True) else "blocking=False")}[kind]
          if kind == "acquire" and not op.get("blocking", True) and not _lock_certainly_free(ix, op.get("lock"), rseq):
            what = "Lock.acquire(blocking=False)"
          fail("immediate-op-never-continued", "%s yielded %s at %s -- it does not wait for anything -- and was never run again "
               "(run ended at %s by %s)" % (tid, what, rtime, stop_time, stop_why), op=kind, site="subtask" if "/" in tid else "task")
        elif kind == "acquire" and op.get("blocking", True):
          # it waits for the lock: every release() after its request must have handed the lock to some waiter
          for otid, orq in ix.reqs.items():
            for ostep, (oseq, opc, otime, oop) in orq.items():
              if oop["op"] == "release" and oop.get("lock") == op.get("lock") and oseq > rseq:
                got = False
                for atid, arq in ix.reqs.items():
                  for astep, (aseq, apc, atime, aop) in arq.items():
                    if aop["op"] == "acquire" and aop.get("lock") == op.get("lock"):
                      r2 = ix.resume(atid, astep)
                      if r2 is not None and r2[0] > oseq and r2[2] is True:
                        got = True
                if not got:
                  fail("lock-waiter-never-resumed", "%s waits for lock %s since %s; %s released it at %s and no waiter ever got it" % (
                      tid, op.get("lock"), rtime, otid, otime))
        elif kind == "call":
          stid = "%s/%d" % (tid, pc)
          if stid in ix.ends:
            sret = (op.get("sub") or {}).get("ret", "end")
            if ix.ends[stid][3] == "raise" and isinstance(sret, dict) and sret.get("base"):
              fail("subtask-result-lost", "%s: sub-task %s raised a BaseException that is not an Exception at %s; the caller neither "
                   "received it nor was it ever resumed" % (tid, stid, ix.ends[stid][2]), how="base-exception")
            else:
              fail("subtask-result-lost", "%s: sub-task %s ended (%s) at %s but the caller was never resumed" % (
                  tid, stid, ix.ends[stid][3], ix.ends[stid][2]))
          elif stid not in ix.steps:
            fail("subtask-never-run", "%s: sub-task %s never started" % (tid, stid))
        continue

      wseq, wtime, val = res
      # ---- resumed: never early, and the value
      if kind == "y0":
        if val is not None:
          fail("stale-value", "%s: `yield 0` returned %r" % (tid, val), op=kind)
      elif kind in ("yn", "sleep"):
        if wtime < due:
          fail("resumed-early", "%s: %r requested at %s resumed at %s, before %s" % (tid, op, rtime, wtime, due), op=kind)
      elif kind == "select":
        _check_select(case, ix, fail, tid, op, rseq, rtime, wseq, wtime, val, due, sel_reqs)
      elif kind == "recv":
        if isinstance(val, dict) and "b" in val:
          pq = wseq - 1
          while pq >= 0 and log[pq][0] not in ("srecv", "step", "req", "end"):
            pq -= 1                      # events of other threads (select returns, registrations) may lie in between
          prev = log[pq] if pq >= 0 else None
          if not (prev is not None and prev[0] == "srecv" and prev[1] == op["sock"] and prev[3] == val["b"]):
            fail("recv-value-not-from-socket", "%s: Recv on s%d returned %r which is not what the socket handed out at that moment (%r)" % (tid, op["sock"], val, prev))
          else:
            srecv_claimed.add(pq)
        elif val is None:
          # a waiter on a socket that somebody else waits on too may find it drained (EAGAIN -> None)
          others = any(o["op"] == "recv" and o.get("sock") == op["sock"] and otid != tid and oseq < wseq and (
              ix.resume(otid, ostep) is None or ix.resume(otid, ostep)[0] > rseq)
              for otid, orq in ix.reqs.items() for ostep, (oseq, opc, otime, o) in orq.items())
          if (due is None or wtime < due) and not others:
            fail("resumed-early", "%s: %r requested at %s returned None at %s (timeout %s)" % (tid, op, rtime, wtime, due), op=kind)
        else:
          fail("recv-value-shape", "%s: Recv returned %r" % (tid, val))
      elif kind == "send":
        acc = sum(a for (q, s, t, m, off, a) in ix.ssend if s == op["sock"] and m == op["marker"] and q < wseq and a != "eagain")
        total = int(op.get("len", 1))
        if val != acc or isinstance(val, bool):
          fail("send-count-wrong", "%s: Send of %d bytes on s%d returned %r but the socket accepted %d" % (tid, total, op["sock"], val, acc))
        elif acc > total:
          fail("send-duplicated", "%s: socket accepted %d bytes of a %d byte Send" % (tid, acc, total))
        elif acc < total and op.get("t") is None:
          fail("send-short", "%s: Send without timeout returned after %d of %d bytes" % (tid, acc, total))
      elif kind == "block":
        wk = [a for a in ix.acts if a[4] == "wake" and a[5] == tid and a[6] and rseq < a[0] < wseq]
        if not wk:
          fail("block-resumed-without-wake", "%s blocked at %s and resumed at %s without anybody scheduling it" % (tid, rtime, wtime))
        if val is not None:
          fail("stale-value", "%s: `yield False` returned %r" % (tid, val), op=kind)
      elif kind == "call":
        stid = "%s/%d" % (tid, pc)
        sub = op.get("sub", {})
        ret = sub.get("ret", "end")
        en = ix.ends.get(stid)
        if en is None or en[0] > wseq:
          fail("caller-resumed-before-subtask-ended", "%s resumed at %s although its sub-task %s had not ended" % (tid, wtime, stid))
          continue
        if en[3] == "uncaught":
          # the sub-task let the exception of its own sub-task pass: that is what its caller must get
          lastval = ix.steps[stid][-1][4]
          want = lastval
          if isinstance(lastval, dict) and lastval.get("exc", [None])[0] == "StopIteration":
            want = {"exc": ["RuntimeError", "generator raised StopIteration"]}   # PEP 479 inside the sub-task
        elif ret == "end":
          want = None
        elif "raise" in ret:
          want = {"exc": ["HBase" if ret.get("base") else "SubError", "sub:" + stid]}
        elif ret.get("v") == "token":
          want = ["ret", stid]
        else:
          want = ret.get("v")
        if val != want or type(val) != type(want):
          how = "end" if ret == "end" else ("exception" if "raise" in ret else "value")
          got = ("exc:" + str(val["exc"][0])) if isinstance(val, dict) and "exc" in val else "value"
          fail("subtask-result-wrong", "%s: sub-task %s ended with %r but the caller received %r" % (tid, stid, want, val),
               how=how, got=got)
      elif kind == "rfop":
        script = list(op.get("script") or [{"v": "token"}])
        calls = [c for c in ix.rfs.get((tid, pc), []) if c[0] < wseq]
        outs = [c[3] for c in calls]
        wantouts = list(script[:-1]) if all(o in ("abort", "chain") for o in script[:-1]) else None
        lastspec = script[-1]
        if lastspec == "exc":
          want, lastout = {"exc": ["RfError", "rf:%s/%d" % (tid, pc)]}, "exc"
        else:
          v = lastspec.get("v") if isinstance(lastspec, dict) else None
          want, lastout = (["rf", tid, pc] if v == "token" else v), "value"
        if "stale-phase" in outs:
          fail("rf-replaced-function-ran-again", "%s: %r: a return function that had installed a different one (task.rf = ...; return ABORT) "
               "was executed again on the next slice: outcomes %r, scripted %r" % (tid, op, outs, wantouts + [lastout]))
        elif wantouts is not None and outs != wantouts + [lastout]:
          fail("rf-call-count", "%s: the return function of %r was called with outcomes %r, scripted %r" % (tid, op, outs, wantouts + [lastout]))
        elif val != want or type(val) != type(want):
          fail("rf-result-wrong", "%s: the return function of %r ended with %r but the task received %r" % (tid, op, want, val),
               how=lastout)
        d = op.get("delay") or 0
        if d and wtime < rtime + d * len(script):
          fail("resumed-early", "%s: %r requested at %s resumed at %s, before %s" % (tid, op, rtime, wtime, rtime + d * len(script)), op=kind)
      elif kind == "badop" and "/" in tid:
        # in a sub-task the failure of the operation has to come back as an exception (and travel on to the caller if not caught)
        wantexc = "RuntimeError" if op.get("how") == "release-unheld" else "OpError"
        if not (isinstance(val, dict) and "exc" in val and val["exc"][0] == wantexc):
          fail("subtask-op-failure-wrong", "%s: the blocking operation (%s) raised %s in execute() but the sub-task received %r" % (
              tid, op.get("how"), wantexc, val))
      elif kind == "badop":
        fail("resumed-after-failed-operation", "%s yielded a blocking operation whose execute() raised (%s) at %s -- the scheduler reports it "
             "as de-scheduled -- and was resumed at %s all the same" % (tid, op.get("how"), rtime, wtime), how=op.get("how"))
      elif kind == "acquire":
        if op.get("blocking", True) and val is not True:
          fail("acquire-value", "%s: blocking acquire returned %r" % (tid, val))
        elif not isinstance(val, bool):
          fail("acquire-value", "%s: acquire returned %r" % (tid, val))
        elif val is not True and _lock_certainly_free(ix, op.get("lock"), rseq):
          fail("acquire-value", "%s: acquire(blocking=False) of a free lock returned %r" % (tid, val), free=True)
      elif kind == "imm":
        want = ["imm", tid, pc] if op.get("v", "token") == "token" else op.get("v")
        if val != want or type(val) != type(want):
          fail("immediate-op-value", "%s: the operation (%s) completed with %r but the task received %r" % (tid, op.get("how"), want, val),
               how=op.get("how"))

  # a sub-task's value / exception reaches exactly its caller, once
  for tok, who in tokens.items():
    is_exc = tok.startswith("sub:")
    stid = tok[4:] if is_exc else tok
    want_who = [stid.rsplit("/", 1)[0]]
    # an exception that a caller does not catch travels on to that caller's caller
    while (is_exc and "/" in want_who[-1] and ix.ends.get(want_who[-1], (0, 0, 0, None))[3] == "uncaught"
           and ix.steps[want_who[-1]][-1][4] in ({"exc": ["SubError", tok]}, {"exc": ["HBase", tok]})):
      want_who.append(want_who[-1].rsplit("/", 1)[0])
    want_who = [w for w in want_who if not is_poisoned(w)]
    who = [w for w in who if not is_poisoned(w)]
    if sorted(who) != sorted(want_who):
      fail("subtask-result-misdelivered", "the result of %s was received by %r instead of exactly once by %r" % (stid, who, want_who))
  # every byte handed out by a socket reached a Recv step
  for (q, s, t, h) in ix.srecv:
    if q not in srecv_claimed:
      nq = q + 1
      while nq < len(log) and log[nq][0] not in ("srecv", "step", "req", "end"):
        nq += 1
      nxt = log[nq] if nq < len(log) else None
      owner = nxt[1] if nxt is not None and nxt[0] == "step" else None
      if owner is not None and is_poisoned(owner):
        continue
      fail("recv-data-lost", "s%d handed out %s at %s but no Recv step received it (next event %r)" % (s, h, t, nxt))

  # every task handed to the scheduler starts
  if judge_liveness:
    for who in ix.regs:
      if who.startswith("t") and who not in ix.steps and not is_poisoned(who):
        fail("task-never-started", "%s was started but never ran (run ended at %s by %s)" % (who, stop_time, stop_why))

  # ------------------------------------------------------------------ the scheduler never sleeps past something due
  if not died:          # (after the scheduler or the hub thread has died everything else is late: the death is what is reported)
    _check_idle(case, ix, fail, P, is_poisoned, timers)

  # ------------------------------------------------------------------ timers
  if True:
    for i, (cseq, ctime) in ix.tnew.items():
      spec = timers[i]
      t = spec["t"]
      rec = bool(spec.get("recurring"))
      fl = ix.fires.get(i, [])
      canc = ix.tcancel.get(i)
      st = ix.tstart.get(i)
      if st is None:
        # constructed with started=False and never started: it must stay silent
        if fl:
          fail("timer-fired-before-start", "timer %d fired at %s although start() was never called" % (i, fl[0][2]), recurring=rec)
        continue
      if fl and fl[0][0] < st[0]:
        fail("timer-fired-before-start", "timer %d fired at %s before start() at %s" % (i, fl[0][2], st[1]), recurring=rec)
        continue
      # a relative delay counts from start(); an absolute time is what it is (but nothing fires before start())
      low = max(st[1], ctime + t) if spec.get("abs") else st[1] + t
      cont = True
      last_u = low
      for n, (fseq, k, ftime, ret) in enumerate(fl):
        if k != n:
          fail("timer-fire-count", "timer %d: firing number %d logged at position %d" % (i, k, n))
          break
        if canc is not None and fseq > canc[0] and not (ret == "cancel" and False):
          fail("timer-fired-after-cancel", "timer %d fired at %s after cancel() at %s" % (i, ftime, canc[1]), recurring=rec)
          break
        if not cont:
          fail("timer-fired-after-stop", "timer %d (%s) fired again at %s" % (i, "recurring, stopped" if rec else "one-shot", ftime), recurring=rec)
          break
        if ftime < low:
          fail("timer-early", "timer %d firing %d at %s, earliest admissible %s" % (i, k, ftime, low), recurring=rec)
          break
        low = low + t
        last_u = ftime + t
        cont = rec and not (ret is False and spec.get("self_stop", True)) and ret not in ("cancel", "raise", "raise-base")
      else:
        if cont and canc is None and judge_liveness and last_u <= stop_time:
          fail("timer-never-fired" if not fl else "timer-stopped-firing",
               "timer %d (created %s, started %s, t=%s, %s) has %d firing(s), the next was due by %s; scheduler idle at %s" % (
                   i, ctime, st[1], t, "recurring" if rec else "one-shot", len(fl), last_u, stop_time), recurring=rec)

  # ------------------------------------------------------------------ bounded wait in the ready queue
  _check_cycles(ix, fail, P)
  return fails


def _outstanding_op(ix, tid):
  rq = ix.reqs.get(tid)
  if not rq:
    return None
  last = max(rq)
  if ix.resume(tid, last) is None:
    return rq[last][3]
  return None


def _last_req(ix, tid):
  rq = ix.reqs.get(tid)
  return rq[max(rq)][3] if rq else None


def _outstanding_pc(ix, tid):
  rq = ix.reqs.get(tid)
  return rq[max(rq)][1] if rq else -1


def _check_select(case, ix, fail, tid, op, rseq, rtime, wseq, wtime, val, due, sel_reqs):
  if not (isinstance(val, dict) and "sel" in val and len(val["sel"]) == 3):
    fail("select-value-shape", "%s: Select returned %r" % (tid, val))
    return
  R, W, X = val["sel"]
  reqr, reqw = op.get("r", []), op.get("w", [])
  if X:
    fail("select-returned-unrequested", "%s: Select returned exceptional fds %r" % (tid, X))
    return
  if len(set(R)) != len(R) or len(set(W)) != len(W) or not set(R) <= set(reqr) or not set(W) <= set(reqw):
    fail("select-returned-unrequested", "%s: Select(%r, %r) returned (%r, %r)" % (tid, reqr, reqw, R, W))
    return
  if not R and not W:
    if due is None or wtime < due:
      fail("resumed-early", "%s: %r requested at %s returned nothing at %s (timeout due %s)" % (tid, op, rtime, wtime, due), op="select")
    return

  def ready(lst, which, s):
    out = set()
    for f in lst:
      a = _fd_at(case, f, which)
      if a is not None and a <= s:
        out.add(f)
    return out
  if set(R) - ready(reqr, "r_at", wtime) or set(W) - ready(reqw, "w_at", wtime):
    fail("select-returned-unready", "%s: Select returned (%r, %r) at %s but not all of them are ready by then" % (tid, R, W, wtime))
    return
  shared = set()
  for (otid, a, b, oop) in sel_reqs:
    if otid != tid and a < wseq and b > rseq:
      shared |= set(oop.get("r", [])) | set(oop.get("w", []))
  cands = [b for (q, a, b, why) in ix.sels if rseq < q < wseq]
  ok = False
  for s in cands:
    rr, ww = ready(reqr, "r_at", s), ready(reqw, "w_at", s)
    if set(R) <= rr and set(W) <= ww and (rr - set(R)) <= shared and (ww - set(W)) <= shared:
      ok = True
      break
  if not ok:
    fail("select-missed-ready-fd", "%s: Select(%r, %r) returned (%r, %r); at none of the select instants %r between request and "
         "resume is that the set of ready requested descriptors" % (tid, reqr, reqw, R, W, cands))


def _check_idle(case, ix, fail, P, is_poisoned, timers):
  """Virtual time only passes inside the select.  Whenever it passes from a to b, nothing that
  the scheduler has been asked for may be due, ready or runnable before b."""
  adv = [(q, a, b) for (q, a, b, why) in ix.sels if why == "advance" and b > a]
  if not adv:
    return
  # outstanding intervals
  outs = []
  for tid, rq in ix.reqs.items():
    if tid not in P or is_poisoned(tid):
      continue
    for step, (rseq, pc, rtime, op) in rq.items():
      res = ix.resume(tid, step)
      outs.append((tid, rseq, res[0] if res else len(ix.log), rtime, op))
  reported = set()
  for (q, a, b) in adv:
    for (tid, rseq, wseq, rtime, op) in outs:
      if not (rseq < q < wseq):
        continue
      kind = op["op"]
      why = None
      due = _due(op, rtime)
      if due is not None and due < b:
        why = "its time (%s)" % due
      elif kind == "y0":
        why = "it is runnable"
      elif kind == "select":
        for f in op.get("r", []):
          x = _fd_at(case, f, "r_at")
          if x is not None and x < b:
            why = "%s readable at %s" % (f, x)
        for f in op.get("w", []):
          x = _fd_at(case, f, "w_at")
          if x is not None and x < b:
            why = "%s writable at %s" % (f, x)
      elif kind == "recv":
        if _sock_pending(case, ix, op["sock"], q, a) > 0:
          why = "unread data on s%d" % op["sock"]
        else:
          x = _sock_next_arrival(case, op["sock"], a)
          if x is not None and x < b:
            why = "data arriving on s%d at %s" % (op["sock"], x)
      elif kind == "send":
        x = _sock_w_at(case, op["sock"])
        tried = any(s2 == op["sock"] and m == op.get("marker") and q2 < q for (q2, s2, t2, m, off, a2) in ix.ssend)
        if x is not None and x < b:
          why = "s%d writable at %s" % (op["sock"], x)
        elif op.get("t") is not None and not tried and rtime + op["t"] < b:
          why = "its timeout (%s) with no progress" % (rtime + op["t"])
      elif kind == "rfop":
        calls = [c for c in ix.rfs.get((tid, _pc_of(ix, tid, rseq)), []) if c[0] < q]
        base = calls[-1][2] if calls else rtime
        if not calls or calls[-1][3] in ("abort", "chain", "stale-phase"):
          if base + (op.get("delay") or 0) < b:
            why = "its next slice (%s)" % (base + (op.get("delay") or 0))
        else:
          why = "its return function has completed"
      elif kind == "block":
        wk = [c for c in ix.acts if c[4] == "wake" and c[5] == tid and c[6] and rseq < c[0] < q]
        if wk:
          why = "it was woken at %s" % wk[0][3]
      if why is not None and (tid, rseq) not in reported:
        reported.add((tid, rseq))
        fail("slept-past-due", "the scheduler slept in select from %s to %s although %s waits in %r since %s and %s" % (
            a, b, tid, op, rtime, why), op=kind)
    # timers
    for i, (cseq, ctime) in ix.tnew.items():
      if cseq > q:
        continue
      spec = timers[i]
      canc = ix.tcancel.get(i)
      if canc is not None and canc[0] < q:
        continue
      st = ix.tstart.get(i)
      if st is None or st[0] > q:
        continue
      u = max(st[1], ctime + spec["t"]) if spec.get("abs") else st[1] + spec["t"]
      alive = True
      for (fseq, k, ftime, ret) in ix.fires.get(i, []):
        if fseq > q:
          break
        alive = (bool(spec.get("recurring")) and not (ret is False and spec.get("self_stop", True))
                 and ret not in ("cancel", "raise", "raise-base"))
        u = ftime + spec["t"]
      if alive and u < b and ("T", i) not in reported:
        reported.add(("T", i))
        fail("slept-past-due", "the scheduler slept in select from %s to %s although timer %d was due by %s" % (a, b, i, u), op="timer")


def _pc_of(ix, tid, rseq):
  for step, (seq, pc, rtime, op) in ix.reqs.get(tid, {}).items():
    if seq == rseq:
      return pc
  return -1


def _check_cycles(ix, fail, P):
  cyc = ix.cycs
  if not cyc:
    return
  log = ix.log
  track = {}
  for n, (q, num, snap, nleft) in enumerate(cyc):
    qn = cyc[n + 1][0] if n + 1 < len(cyc) else len(log)
    ran = set()
    executed = None
    for e in log[q:qn]:
      if e[0] == "step":
        ran.add(e[1])
      elif e[0] == "exe" and e[1] == num:
        executed = e[2]
    present = {}
    for pos, (tid, prio) in enumerate(snap):
      if tid not in present:
        present[tid] = (pos, prio)
    for tid in list(track):
      if tid not in present:
        del track[tid]
    for tid, (pos, prio) in present.items():
      if tid in P and tid not in track and (prio is None or prio >= 1):
        track[tid] = (num, pos, nleft)
    if executed is not None and executed not in ran:
      # this cycle gave its slice to `executed` but no step ran: its return function aborted the slice (a Send that
      # goes on after a partial write).  It had its turn; when it re-enters the queue it is tracked afresh.
      track.pop(executed, None)
    for tid in ran:
      if tid in track:
        c0, pos, l0 = track.pop(tid)
        allowed = pos + (nleft - l0)
        if num - c0 > allowed:
          fail("ready-wait-unbounded", "%s (priority >= 1) was at position %d of the ready queue at cycle %d and only ran in cycle %d "
               "(%d front insertions in between)" % (tid, pos, c0, num, nleft - l0))


# ---------------------------------------------------------------------------------------------- isolation

def raisers(log):
  """Top-level tids whose generator ended by an exception of their own program."""
  out = []
  for e in log:
    if e[0] == "end" and e[4] in ("raise", "uncaught") and "/" not in e[1]:
      out.append(e[1])
    elif e[0] == "req" and e[5].get("op") == "badop" and "/" not in e[1] and e[1] not in out:
      out.append(e[1])       # a blocking operation that raises in execute() ends the task as well
  return out


def twin(case, rs):
  """The same program set where every task of `rs` (those that raised) simply ends there instead."""
  c = copy.deepcopy(case)
  for i, t in enumerate(c.get("tasks", [])):
    if "t%d" % i not in rs:
      continue
    prog = []
    for op in t.get("prog", []):
      if op.get("op") in ("raise", "badop"):
        prog.append({"op": "exit"})
      elif op.get("op") == "call" and op.get("catch", True) is False and "raise" in (op.get("sub", {}).get("ret") or "end"):
        op = dict(op)
        op["sub"] = dict(op["sub"])
        op["sub"]["ret"] = "end"
        op["catch"] = True
        prog.append(op)
        prog.append({"op": "exit"})
      else:
        prog.append(op)
    t["prog"] = prog
  return c


def compare(case, log, tlog):
  """Other tasks' traces must not depend on whether a task raised or ended."""
  fails = []
  rs = raisers(log)
  if not rs:
    return fails

  def excluded(tid):
    return any(tid == r or tid.startswith(r + "/") for r in rs)

  def traces(lg):
    st, fr = {}, {}
    for e in lg:
      if e[0] == "step" and not excluded(e[1]):
        st.setdefault(e[1], []).append(list(e[2:]))
      elif e[0] == "fire":
        fr.setdefault(e[1], []).append(list(e[2:]))
    return st, fr
  s1, f1 = traces(log)
  s2, f2 = traces(tlog)
  for tid in sorted(set(s1) | set(s2)):
    if s1.get(tid) != s2.get(tid):
      a, b = s1.get(tid, []), s2.get(tid, [])
      n = 0
      while n < len(a) and n < len(b) and a[n] == b[n]:
        n += 1
      fails.append(("raise-affects-others", "trace of %s differs between the run where %s raised and the run where it ended: "
                    "at step %d: %r vs %r" % (tid, rs, n, a[n:n + 1], b[n:n + 1]), {}))
      break
  else:
    if f1 != f2:
      fails.append(("raise-affects-others", "timer firings differ between the run where %s raised and the run where it ended: %r vs %r" % (rs, f1, f2), {"what": "timers"}))
  return fails


# ---------------------------------------------------------------------------------------------- evidence

def nontrivial(case, log):
  """>= 2 tasks, >= 1 timed wait, and >= 1 step of another task between its request and its wake."""
  if len(case.get("tasks", [])) < 2:
    return False
  ix = Index(case, log)
  for tid, rq in ix.reqs.items():
    for step, (rseq, pc, rtime, op) in rq.items():
      d = _due(op, rtime)
      if d is None or d <= rtime:
        continue
      res = ix.resume(tid, step)
      if res is None:
        continue
      for otid, st in ix.steps.items():
        if root_of(otid) == root_of(tid):
          continue
        for s in st:
          if rseq < s[0] < res[0]:
            return True
  return False


def labels(case, log):
  ix = Index(case, log)
  L = set()
  L.add("tasks=%d" % len(case.get("tasks", [])))
  L.add("hub=%s" % case.get("hub", "select"))
  L.add("mode=%s" % case.get("mode", "inline"))
  if case.get("mode") == "threaded":
    fin = ix.final or {}
    L.add("threaded:schedule-" + ("deviates" if fin.get("deviations") else "default"))
    if fin.get("preemptions"):
      L.add("threaded:line-preemption")
    if fin.get("pinger_empty_reads"):
      L.add("threaded:pinger-read-while-empty")
  if case.get("sched_thread"):
    L.add("schedule()-direct-path")
  for tid, rq in ix.reqs.items():
    for step, (rseq, pc, rtime, op) in rq.items():
      k = op["op"]
      L.add("op:" + k)
      res = ix.resume(tid, step)
      if "/" in tid:
        L.add("op-in-subtask:" + k)
      if k == "select" and (op.get("r") or op.get("w")):
        if res and isinstance(res[2], dict) and "sel" in res[2]:
          L.add("select-fd:" + ("ready" if (res[2]["sel"][0] or res[2]["sel"][1]) else "timeout"))
        elif not res:
          L.add("select-fd:never")
      if k == "recv" and res:
        L.add("recv:" + ("data" if res[2] is not None else "timeout"))
      if k == "block":
        L.add("block:" + ("woken" if res else "forever"))
      if k == "call" and res:
        # recoco's "function call" illusion (not part of the property, only counted)
        nxt = [e for e in log[ix.ends.get("%s/%d" % (tid, pc), (res[0],))[0]:res[0] + 1] if e[0] == "step"]
        L.add("call:caller-resumed-" + ("next" if nxt and nxt[0][1] == tid else "after-others"))
        v = res[2]
        L.add("call:" + ("exception" if isinstance(v, dict) and "exc" in v else "value"))
        if tid.count("/") >= 1:
          L.add("call:nested")
      if k == "sleep" and op.get("abs"):
        L.add("sleep:absolute" + ("-past" if op["n"] < 0 else ""))
      if k == "acquire" and res:
        L.add("acquire:" + str(res[2]))
      d = _due(op, rtime)
      if d is not None and res and res[1] > d:
        L.add("woken-late-by-other-work")
      if d is not None and res and res[1] == d and d > rtime:
        L.add("woken-exactly-on-time")
      if k == "imm":
        L.add("imm:" + str(op.get("how")))
      if k in ("imm", "acquire", "release") and "/" in tid and res:
        L.add("immediate-op-in-subtask:" + k + (":nested" if tid.count("/") >= 2 else ""))
      if k == "send" and int(op.get("len", 1)) == 0:
        L.add("send:empty" + (":completed" if res else ":never"))
      if k == "select" and res and isinstance(res[2], dict) and "sel" in res[2]:
        for f in res[2]["sel"][0] + res[2]["sel"][1]:
          fd = case.get("fds", [])[int(f[1:])]
          if fd.get("hup_at") is not None and T0 + fd["hup_at"] <= res[1]:
            L.add("select-fd:reported-after-hangup:" + ("err" if fd.get("hup_kind") == "err" else "hup"))
  for a in ix.acts:
    if a[4] == "rewake":
      L.add("schedule()-of-queued-task:" + str(a[6]))
  for (tid, pc), calls in ix.rfs.items():
    for c in calls:
      L.add("rf:" + c[3])
    if sum(1 for c in calls if c[3] == "abort") >= 2:
      L.add("rf:abort-twice")
  for e in ix.log:
    if e[0] == "end" and e[4] == "raise":
      if "/" in e[1]:
        sret = (programs(case).get(e[1], {}).get("sub") or {}).get("ret")
        if isinstance(sret, dict) and sret.get("base"):
          L.add("raise:BaseException-in-subtask")
    if e[0] == "xexc" and e[2] == "HBase":
      L.add("raise:BaseException-kills-task")
    if e[0] == "fire" and e[4] in ("raise", "raise-base"):
      L.add("timer:callback-" + e[4])
  for tid, rq in ix.reqs.items():
    for step, (rseq, pc, rtime, op) in rq.items():
      if op["op"] == "badop":
        prev = rq.get(step - 1)
        same_slice = prev is not None and prev[3]["op"] in ("acquire", "release") and not any(
            e[0] == "cyc" for e in ix.log[prev[0]:rseq])
        L.add("badop:" + str(op.get("how")) + (":after-slice-reclaiming-op" if same_slice else ""))
  partial = any(a not in ("eagain",) and a < off for (q, s, t, m, off, a) in ix.ssend if a != "eagain")
  if partial:
    L.add("send:partial")
  if any(a == "eagain" or a == 0 for (q, s, t, m, off, a) in ix.ssend):
    L.add("send:zero-or-eagain")
  for tid, en in ix.ends.items():
    if "/" not in tid:
      L.add("task-end:" + en[3])
  for i, fl in ix.fires.items():
    spec = case["timers"][i]
    L.add("timer:" + ("recurring" if spec.get("recurring") else "one-shot"))
    if spec.get("abs"):
      L.add("timer:absolute")
    if len(fl) >= 3:
      L.add("timer:>=3-firings")
    if any(f[3] is False for f in fl):
      L.add("timer:returned-False" + ("" if spec.get("self_stop", True) else "-not-self-stoppable"))
  for i in ix.tnew:
    if case["timers"][i].get("create") == "task":
      L.add("timer:created-by-task")
    if not case["timers"][i].get("started", True):
      st = ix.tstart.get(i)
      L.add("timer:started-False:" + ("never-started" if st is None else ("started-later" if st[1] > ix.tnew[i][1] else "started-at-once")))
  for tid, rq in ix.reqs.items():
    for step, (rseq, pc, rtime, op) in rq.items():
      if op["op"] in ("select", "recv", "send") and op.get("t") is not None and op["t"] == 0:
        L.add("poll-timeout-0:" + op["op"] + (":float" if isinstance(op["t"], float) else ":int"))
  if ix.tcancel:
    L.add("timer:cancelled")
  for i, c in ix.tcancel.items():
    if not ix.fires.get(i):
      L.add("timer:cancelled-before-first-firing")
  if any(a[4] == "busy" for a in ix.acts):
    L.add("busy-work")
  if any(p is not None and p < 1 for t in case.get("tasks", []) for p in [t.get("prio")]):
    L.add("low-priority-task")
  if any(t.get("form") == "target" for t in case.get("tasks", [])):
    L.add("form:target")
  if ix.quit:
    L.add("scheduler-quit-op")
  if ix.stop:
    L.add("stop:" + str(ix.stop[2]))
  if any(why == "advance" and b - a == 2 for (q, a, b, why) in ix.sels):
    L.add("idle-poll-2s")
  dues = {}
  for tid, rq in ix.reqs.items():
    for step, (rseq, pc, rtime, op) in rq.items():
      d = _due(op, rtime)
      if d is not None:
        dues.setdefault(d, set()).add(tid)
  if any(len(v) > 1 for v in dues.values()):
    L.add("equal-due-times")
  return sorted(L)
