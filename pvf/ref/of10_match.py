"""OpenFlow 1.0 flow matching, written from the specification; imports nothing from pox.

Sources: OpenFlow Switch Specification 1.0.0, section 3.4 "Matching" (header parsing flow chart:
VLAN -> inner type, ARP -> addresses/opcode, IP -> addresses/proto/ToS, non-fragment TCP/UDP ->
ports, ICMP -> type/code), Table 3 (field widths; 802.2+SNAP with OUI 0 -> SNAP type, other
802.3 frames -> 0x05ff; VLAN id 0xffff for untagged), section 5.2.3 `struct ofp_match` and the
OFPFW_* wildcard word (two 6-bit "number of wildcarded low bits" counters, >= 32 means all),
section 4.6 (strict / non-strict flow-mod matching, overlap), and the prerequisite rule of
1.0.1 section 3.4 / 1.1: protocol specific fields are ignored unless the match itself
*specifies* the protocol (dl_type 0x0800/0x0806 for nw_*, additionally nw_proto in
{ICMP, TCP, UDP} for tp_*; nw_tos for IPv4 only).

A match is a dict with the keys of MATCH_FIELDS plus "wildcards" (the raw 32-bit word):
  in_port, dl_src (bytes6), dl_dst (bytes6), dl_vlan, dl_vlan_pcp, dl_type, nw_tos, nw_proto,
  nw_src (int), nw_dst (int), tp_src, tp_dst.

API
  pack_match(m) -> 40 bytes          unpack_match(b, off=0) -> m
  make_match(wildcards=OFPFW_ALL, **fields) -> m   (fields given are stored verbatim, the wildcard
                                                    word is whatever the caller says)
  effective(m) -> {field: value | None}   the fields that take part in matching after wildcard bits,
                                          prefix masks and prerequisites; nw_src/nw_dst are
                                          (masked address, prefix length); None = not compared
  canon(m) -> hashable canonical form of effective(m)   (semantic identity of a match)
  is_exact(m) -> bool                  no wildcard bit set and both prefixes /32 on the wire
  is_exact_semantic(m) -> bool         as is_exact, disregarding wildcard bits on inapplicable fields
  extract(frame, in_port) -> packet fields as the switch must extract them (absent layers -> 0)
  matches(m, pkt) -> bool              pkt from extract()
  ambiguous(m, pkt) -> [zone, ...]     zones where the specification does not settle the outcome
  subsumes(a, b) -> bool               every packet matched by b is matched by a AND a is no narrower
                                       field-wise (non-strict flow-mod semantics: b "exactly matches
                                       or is more specific than" a)
  same(a, b) -> bool                   strict identity (canon equality)
  overlaps(a, b) -> bool               some packet may match both
"""
import struct

from . import frames

OFPFW_IN_PORT = 1 << 0
OFPFW_DL_VLAN = 1 << 1
OFPFW_DL_SRC = 1 << 2
OFPFW_DL_DST = 1 << 3
OFPFW_DL_TYPE = 1 << 4
OFPFW_NW_PROTO = 1 << 5
OFPFW_TP_SRC = 1 << 6
OFPFW_TP_DST = 1 << 7
OFPFW_NW_SRC_SHIFT = 8
OFPFW_NW_SRC_MASK = 0x3f << 8
OFPFW_NW_DST_SHIFT = 14
OFPFW_NW_DST_MASK = 0x3f << 14
OFPFW_DL_VLAN_PCP = 1 << 20
OFPFW_NW_TOS = 1 << 21
OFPFW_ALL = (1 << 22) - 1
OFP_VLAN_NONE = 0xffff
DL_TYPE_NOT_ETH = 0x05ff

# the ten single-bit wildcards, in bit order
BIT_FIELDS = [
  ("in_port", OFPFW_IN_PORT), ("dl_vlan", OFPFW_DL_VLAN), ("dl_src", OFPFW_DL_SRC), ("dl_dst", OFPFW_DL_DST),
  ("dl_type", OFPFW_DL_TYPE), ("nw_proto", OFPFW_NW_PROTO), ("tp_src", OFPFW_TP_SRC), ("tp_dst", OFPFW_TP_DST),
  ("dl_vlan_pcp", OFPFW_DL_VLAN_PCP), ("nw_tos", OFPFW_NW_TOS),
]
BIT_OF = dict(BIT_FIELDS)
MATCH_FIELDS = ["in_port", "dl_src", "dl_dst", "dl_vlan", "dl_vlan_pcp", "dl_type", "nw_tos", "nw_proto",
                "nw_src", "nw_dst", "tp_src", "tp_dst"]
_ZERO = {"in_port": 0, "dl_src": b"\0" * 6, "dl_dst": b"\0" * 6, "dl_vlan": 0, "dl_vlan_pcp": 0, "dl_type": 0,
         "nw_tos": 0, "nw_proto": 0, "nw_src": 0, "nw_dst": 0, "tp_src": 0, "tp_dst": 0}

# struct ofp_match: wildcards(4) in_port(2) dl_src(6) dl_dst(6) dl_vlan(2) dl_vlan_pcp(1) pad(1)
#                   dl_type(2) nw_tos(1) nw_proto(1) pad(2) nw_src(4) nw_dst(4) tp_src(2) tp_dst(2)
_FMT = "!LH6s6sHBxHBBxxLLHH"
assert struct.calcsize(_FMT) == 40


def make_match(wildcards=OFPFW_ALL, **fields):
  m = dict(_ZERO)
  for k, v in fields.items():
    if k not in _ZERO:
      raise KeyError(k)
    if k in ("dl_src", "dl_dst"):
      v = frames.mac(v)
    elif k in ("nw_src", "nw_dst"):
      v = frames.ip(v)
    m[k] = v
  m["wildcards"] = wildcards & 0xffffffff
  return m


def pack_match(m):
  return struct.pack(_FMT, m["wildcards"], m["in_port"], m["dl_src"], m["dl_dst"], m["dl_vlan"], m["dl_vlan_pcp"],
                     m["dl_type"], m["nw_tos"], m["nw_proto"], m["nw_src"], m["nw_dst"], m["tp_src"], m["tp_dst"])


def unpack_match(b, off=0):
  (w, in_port, dl_src, dl_dst, dl_vlan, pcp, dl_type, tos, proto, nw_src, nw_dst, tp_src, tp_dst) = \
      struct.unpack_from(_FMT, b, off)
  return {"wildcards": w, "in_port": in_port, "dl_src": dl_src, "dl_dst": dl_dst, "dl_vlan": dl_vlan,
          "dl_vlan_pcp": pcp, "dl_type": dl_type, "nw_tos": tos, "nw_proto": proto, "nw_src": nw_src,
          "nw_dst": nw_dst, "tp_src": tp_src, "tp_dst": tp_dst}


def prefix_len(wildcards, shift):
  """Number of significant high bits of nw_src (shift=8) / nw_dst (shift=14)."""
  n = (wildcards >> shift) & 0x3f
  return 0 if n >= 32 else 32 - n


def _mask(plen):
  return 0 if plen == 0 else (0xffffffff << (32 - plen)) & 0xffffffff


def effective(m):
  w = m["wildcards"]
  e = {}
  for f, bit in BIT_FIELDS:
    e[f] = None if (w & bit) else m[f]
  for f, shift in (("nw_src", OFPFW_NW_SRC_SHIFT), ("nw_dst", OFPFW_NW_DST_SHIFT)):
    pl = prefix_len(w, shift)
    e[f] = None if pl == 0 else (m[f] & _mask(pl), pl)
  # prerequisites: the protocol must be specified by the match itself
  dt = e["dl_type"]
  if dt not in (frames.ETH_IP, frames.ETH_ARP):
    e["nw_proto"] = e["nw_src"] = e["nw_dst"] = None
  if dt != frames.ETH_IP:
    e["nw_tos"] = None
  if not (dt == frames.ETH_IP and e["nw_proto"] in (1, 6, 17)):
    e["tp_src"] = e["tp_dst"] = None
  return e


def canon(m):
  e = effective(m)
  return tuple((f, e[f]) for f in MATCH_FIELDS)


def same(a, b):
  return canon(a) == canon(b)


def is_exact(m):
  """Exact match in the sense of section 3.4: the wildcard word has no bit of OFPFW_ALL set."""
  return (m["wildcards"] & OFPFW_ALL) == 0


def is_exact_semantic(m):
  """Every field that can take part in matching is fully specified; wildcard bits on fields that the
  prerequisite rule makes inapplicable (nw_*/tp_* of a non-IP flow, ...) are disregarded.
  is_exact(m) implies is_exact_semantic(m); where only the latter holds the specification does not
  say whether the entry ranks as an exact match."""
  w = m["wildcards"]
  implied = 0
  dt = None if (w & OFPFW_DL_TYPE) else m["dl_type"]
  proto = None if (w & OFPFW_NW_PROTO) else m["nw_proto"]
  if dt == frames.ETH_IP:
    if proto is not None and proto not in (1, 6, 17):
      implied = OFPFW_TP_SRC | OFPFW_TP_DST
  elif dt == frames.ETH_ARP:
    implied = OFPFW_NW_TOS | OFPFW_TP_SRC | OFPFW_TP_DST
  elif dt is not None:
    implied = OFPFW_NW_TOS | OFPFW_NW_PROTO | OFPFW_NW_SRC_MASK | OFPFW_NW_DST_MASK | OFPFW_TP_SRC | OFPFW_TP_DST
  return (w & ~implied & OFPFW_ALL) == 0


# --------------------------------------------------------------------------- packet side

def extract(frame, in_port):
  """Header fields of a frame for lookup (spec 1.0.0 section 3.4 flow chart).  Returns a dict with
  the twelve match fields plus "notes": a list of remarks used by ambiguous()."""
  d = frames.dissect(frame)
  p = dict(_ZERO)
  notes = []
  p["in_port"] = in_port
  if "eth" not in d:
    p["notes"] = ["truncated"]
    return p
  p["dl_src"] = d["eth"]["src"]
  p["dl_dst"] = d["eth"]["dst"]
  tags = d.get("vlan")
  if tags:
    p["dl_vlan"] = tags[0]["vid"]
    p["dl_vlan_pcp"] = tags[0]["pcp"]
    first_type = tags[0]["type"]
    if len(tags) > 1:
      notes.append("qinq")
  else:
    p["dl_vlan"] = OFP_VLAN_NONE
    p["dl_vlan_pcp"] = 0
    first_type = d["eth"]["type"]
  if first_type >= 0x0600:
    p["dl_type"] = first_type          # type after the (first) tag; a second tag is not looked into
    if len(tags or ()) > 1:
      p["notes"] = notes
      return p
  else:
    if tags:
      notes.append("vlan+llc")
    if "snap" in d:
      if d["snap"]["oui"] == b"\0\0\0":
        p["dl_type"] = d["snap"]["type"]
        notes.append("snap")
      else:
        p["dl_type"] = DL_TYPE_NOT_ETH
        notes.append("snap-oui")
    else:
      p["dl_type"] = DL_TYPE_NOT_ETH
      notes.append("llc")
  if d.get("truncated"):
    notes.append("truncated")
  if "arp" in d and p["dl_type"] == frames.ETH_ARP:
    a = d["arp"]
    if a["op"] > 255:
      notes.append("arp-op>255")
    p["nw_proto"] = a["op"] & 0xff
    if a["plen"] == 4:
      p["nw_src"] = a["spa"]
      p["nw_dst"] = a["tpa"]
    else:
      notes.append("arp-plen")
    if a["htype"] != 1 or a["ptype"] != frames.ETH_IP or a["hlen"] != 6:
      notes.append("arp-odd")
  elif "ipv4" in d and p["dl_type"] == frames.ETH_IP:
    i = d["ipv4"]
    p["nw_src"] = i["src"]
    p["nw_dst"] = i["dst"]
    p["nw_proto"] = i["proto"]
    p["nw_tos"] = i["tos"]
    if i["ecn"]:
      notes.append("ecn")
    if i["frag"] != 0 or i["mf"]:
      notes.append("fragment")          # transport fields stay zero for every fragment
    elif "tcp" in d:
      p["tp_src"], p["tp_dst"] = d["tcp"]["sport"], d["tcp"]["dport"]
    elif "udp" in d:
      p["tp_src"], p["tp_dst"] = d["udp"]["sport"], d["udp"]["dport"]
    elif "icmp" in d:
      p["tp_src"], p["tp_dst"] = d["icmp"]["type"], d["icmp"]["code"]
  p["notes"] = notes
  return p


def matches(m, pkt, e=None):
  """e: effective(m) if the caller has it already"""
  if e is None:
    e = effective(m)
  for f in MATCH_FIELDS:
    v = e[f]
    if v is None:
      continue
    if f in ("nw_src", "nw_dst"):
      if (pkt[f] & _mask(v[1])) != v[0]:
        return False
    elif pkt[f] != v:
      return False
  return True


def ambiguous(m, pkt, e=None):
  """Zones in which OpenFlow 1.0 does not settle whether `m` matches `pkt` (counted, not judged)."""
  if e is None:
    e = effective(m)
  notes = pkt.get("notes", ())
  z = []
  if e["nw_tos"] is not None and ("ecn" in notes or (e["nw_tos"] & 3)):
    z.append("tos-ecn-bits")            # 6-bit DSCP in the upper bits; the low two bits are unspecified
  if e["dl_vlan_pcp"] is not None and pkt["dl_vlan"] == OFP_VLAN_NONE:
    # A frame without a tag has no PCP.  Reading 1 (used by matches()): it counts as PCP 0.  Reading 2
    # (Open vSwitch): the PCP is ignored when the match asks for "no tag", and a PCP match with the VLAN id
    # wildcarded selects tagged frames only.  Ambiguous exactly where the two readings disagree.
    if e["dl_vlan"] == OFP_VLAN_NONE and e["dl_vlan_pcp"] != 0:
      z.append("pcp-untagged")
    elif e["dl_vlan"] is None and e["dl_vlan_pcp"] == 0:
      z.append("pcp-untagged")
  # (SNAP with a non-zero OUI is NOT ambiguous: the SNAP protocol id counts only for OUI 0x000000,
  #  every other 802.3 frame has dl_type 0x05ff -- openflow.h OFP_DL_TYPE_NOT_ETH_TYPE)
  # (802.3 inside a VLAN tag is NOT ambiguous either: Table 3 takes the VLAN fields from the tag, the flow
  #  chart of section 3.4 continues with the type that follows the tag, and what follows is judged like the
  #  untagged frame: SNAP with OUI 0 -> SNAP type, every other 802.3 frame -> 0x05ff; a length field is never
  #  an Ethernet type.  The note "vlan+llc" only labels the class.)
  for n in ("arp-op>255", "arp-plen", "arp-odd", "truncated"):
    if n in notes:
      z.append(n)
  if e["dl_type"] == frames.ETH_IP and e["nw_proto"] not in (None, 1, 6, 17) and \
      not ((m["wildcards"] & OFPFW_TP_SRC) and (m["wildcards"] & OFPFW_TP_DST)) and (m["tp_src"] or m["tp_dst"]):
    z.append("tp-other-proto")          # e.g. SCTP ports: 1.0 has no extraction rule
  return z


# --------------------------------------------------------------------------- match vs match

def subsumes(a, b):
  """Non-strict flow-mod semantics (section 4.6): entry match `b` "exactly matches or is more
  specific than" the description `a`: every field `a` compares, `b` compares too and to a value
  that `a` accepts."""
  ea, eb = effective(a), effective(b)
  for f in MATCH_FIELDS:
    va, vb = ea[f], eb[f]
    if va is None:
      continue
    if vb is None:
      return False
    if f in ("nw_src", "nw_dst"):
      if vb[1] < va[1] or (vb[0] & _mask(va[1])) != va[0]:
        return False
    elif va != vb:
      return False
  return True


def overlaps(a, b):
  """A single packet may match both (section 4.6, CHECK_OVERLAP): on every field both compare,
  the values are compatible."""
  ea, eb = effective(a), effective(b)
  for f in MATCH_FIELDS:
    va, vb = ea[f], eb[f]
    if va is None or vb is None:
      continue
    if f in ("nw_src", "nw_dst"):
      pl = min(va[1], vb[1])
      if (va[0] & _mask(pl)) != (vb[0] & _mask(pl)):
        return False
    elif va != vb:
      return False
  return True
