"""OpenFlow 1.0.0 (openflow.h, wire version 0x01) and Nicira extension (nicira-ext.h)
wire layouts as data, with an encoder and a decoder.  Imports nothing from pox.

A *fragment* is plain JSON-able data  {"k": <kind>, "f": {<field>: <value>, ...}}.
Kinds are named after the C structs of the specification where POX uses the same name, and
after the POX class where the specification has one struct for two messages
(ofp_switch_config -> ofp_set_config / ofp_get_config_reply, ofp_switch_features ->
ofp_features_reply, ofp_action_{dl,nw}_addr / tp_port carry their own `type`).

Values:  unsigned integers in the wire range of the field; `mac` = 6 bytes; `str` = text of at
most N latin-1 characters without NUL (zero padded on the wire); nested fixed structs = a field
dict; heterogeneous lists (actions, queue properties, statistics bodies) = lists of fragments;
`bytes` = raw payload.  In list fields an element {"$rep": n, "of": [frag, ...]} stands for the
listed fragments repeated n times; a bytes value may be written {"$bytes": [n, seed]} (n bytes,
byte i = (seed + 7*i) & 0xff).  Both exist so that 64 KiB cases stay small as JSON.

ofp_match is carried *semantically*: only the fields that are matched on are present;
nw_src / nw_dst are [address, prefix_len] with prefix_len 1..32.  The wildcards word is derived
(OFPFW_* bits set for every absent field, 32 in the NW_SRC / NW_DST bit counts for an absent
address, 32 - prefix_len otherwise), absent fields are zero on the wire.

encode(frag) -> bytes       every length field is computed (header.length, action.len,
                            queue.len, prop.len, flow_stats.length, packet_out.actions_len,
                            nx match_len)
decode(kind, data, offset=0) -> (fields, consumed)    inverse of encode on well-formed input;
                            raises RefError otherwise.  Decoding is length driven exactly as
                            the specification prescribes (header.length for messages, len for
                            TLVs), never by the amount of data available.
"""
import struct

OFP_VERSION = 0x01
NX_VENDOR_ID = 0x00002320


class RefError(Exception):
  pass


# --------------------------------------------------------------------------- helpers

def expand_bytes(v):
  if isinstance(v, dict) and "$bytes" in v:
    n, seed = v["$bytes"]
    return bytes(((seed + 7 * i) & 0xff) for i in range(n))
  if isinstance(v, (bytes, bytearray)):
    return bytes(v)
  raise RefError("not a bytes value: %r" % (v,))


def expand_list(lst):
  out = []
  for e in lst:
    if isinstance(e, dict) and "$rep" in e:
      for _ in range(e["$rep"]):
        out.extend(expand_list(e["of"]))
    else:
      out.append(e)
  return out


_INT = {"u8": ("B", 8), "u16": ("H", 16), "u32": ("L", 32), "u64": ("Q", 64)}


def _pk(code, v, what):
  fmt, bits = _INT[code]
  if not isinstance(v, int) or isinstance(v, bool) or v < 0 or v >> bits:
    raise RefError("%s: %r outside the wire range of %s" % (what, v, code))
  return struct.pack("!" + fmt, v)


# --------------------------------------------------------------------------- layouts
# Entry forms:  (name, "u8"|"u16"|"u32"|"u64")      unsigned big-endian integer
#               (name, "mac")                        6 octets
#               (name, "str", n)                     NUL padded text, n octets
#               (None, "pad", n)                     n zero octets
#               (name, "match")                      struct ofp_match (40 octets)
#               (name, "struct", kind)               nested fixed-size struct
#               (name, "len")                        uint16 total length of this message/TLV
#               (name, "const", code, value)         fixed value (type codes)
#  tail (last): (name, "bytes") | (name, "actions") | (name, "props") | (name, "list", kind)

PHY_PORT = [("port_no", "u16"), ("hw_addr", "mac"), ("name", "str", 16), ("config", "u32"),
            ("state", "u32"), ("curr", "u32"), ("advertised", "u32"), ("supported", "u32"),
            ("peer", "u32")]

_HDR = lambda t: [("$version", "const", "u8", OFP_VERSION), ("$type", "const", "u8", t),
                  ("$length", "len"), ("xid", "u32")]
_NXHDR = lambda sub: _HDR(4) + [("$vendor", "const", "u32", NX_VENDOR_ID),
                                ("$subtype", "const", "u32", sub)]
_AHDR = lambda t: [("$type", "const", "u16", t), ("$len", "len")]
_NXAHDR = lambda sub: _AHDR(0xffff) + [("$vendor", "const", "u32", NX_VENDOR_ID),
                                       ("$subtype", "const", "u16", sub)]

MESSAGES = {
  # kind: (ofp_type, body layout)
  "ofp_hello": (0, []),
  "ofp_error": (1, [("type", "u16"), ("code", "u16"), ("data", "bytes")]),
  "ofp_echo_request": (2, [("body", "bytes")]),
  "ofp_echo_reply": (3, [("body", "bytes")]),
  "ofp_vendor_generic": (4, [("vendor", "u32"), ("data", "bytes")]),
  "ofp_features_request": (5, []),
  "ofp_features_reply": (6, [("datapath_id", "u64"), ("n_buffers", "u32"), ("n_tables", "u8"),
                             (None, "pad", 3), ("capabilities", "u32"), ("actions", "u32"),
                             ("ports", "list", "ofp_phy_port")]),
  "ofp_get_config_request": (7, []),
  "ofp_get_config_reply": (8, [("flags", "u16"), ("miss_send_len", "u16")]),
  "ofp_set_config": (9, [("flags", "u16"), ("miss_send_len", "u16")]),
  "ofp_packet_in": (10, [("buffer_id", "u32"), ("total_len", "u16"), ("in_port", "u16"),
                         ("reason", "u8"), (None, "pad", 1), ("data", "bytes")]),
  "ofp_flow_removed": (11, [("match", "match"), ("cookie", "u64"), ("priority", "u16"),
                            ("reason", "u8"), (None, "pad", 1), ("duration_sec", "u32"),
                            ("duration_nsec", "u32"), ("idle_timeout", "u16"), (None, "pad", 2),
                            ("packet_count", "u64"), ("byte_count", "u64")]),
  "ofp_port_status": (12, [("reason", "u8"), (None, "pad", 7), ("desc", "struct", "ofp_phy_port")]),
  # ofp_packet_out: special (actions_len)
  "ofp_flow_mod": (14, [("match", "match"), ("cookie", "u64"), ("command", "u16"),
                        ("idle_timeout", "u16"), ("hard_timeout", "u16"), ("priority", "u16"),
                        ("buffer_id", "u32"), ("out_port", "u16"), ("flags", "u16"),
                        ("actions", "actions")]),
  "ofp_port_mod": (15, [("port_no", "u16"), ("hw_addr", "mac"), ("config", "u32"), ("mask", "u32"),
                        ("advertise", "u32"), (None, "pad", 4)]),
  # ofp_stats_request / ofp_stats_reply: special (body dispatch)
  "ofp_barrier_request": (18, []),
  "ofp_barrier_reply": (19, []),
  "ofp_queue_get_config_request": (20, [("port", "u16"), (None, "pad", 2)]),
  "ofp_queue_get_config_reply": (21, [("port", "u16"), (None, "pad", 6),
                                      ("queues", "list", "ofp_packet_queue")]),
}
OFPT_PACKET_OUT, OFPT_STATS_REQUEST, OFPT_STATS_REPLY = 13, 16, 17

# Nicira messages (struct nicira_header + body), subtype codes from nicira-ext.h
NX_MESSAGES = {
  "nx_role_request": (10, [("role", "u32")]),
  "nx_role_reply": (11, [("role", "u32")]),
  "nx_flow_mod_table_id": (15, [("set", "u8"), (None, "pad", 7)]),
  "nx_packet_in_format": (16, [("format", "u32")]),
  "nx_async_config": (19, [("packet_in_mask", "u32"), ("packet_in_mask_slave", "u32"),
                           ("port_status_mask", "u32"), ("port_status_mask_slave", "u32"),
                           ("flow_removed_mask", "u32"), ("flow_removed_mask_slave", "u32")]),
}
NXT_FLOW_MOD, NXT_PACKET_IN = 13, 17

ACTIONS = {
  # kind: (allowed type codes, layout after type/len); a kind with two codes carries "type"
  "ofp_action_output": ([0], [("port", "u16"), ("max_len", "u16")]),
  "ofp_action_vlan_vid": ([1], [("vlan_vid", "u16"), (None, "pad", 2)]),
  "ofp_action_vlan_pcp": ([2], [("vlan_pcp", "u8"), (None, "pad", 3)]),
  "ofp_action_strip_vlan": ([3], [(None, "pad", 4)]),
  "ofp_action_dl_addr": ([4, 5], [("dl_addr", "mac"), (None, "pad", 6)]),
  "ofp_action_nw_addr": ([6, 7], [("nw_addr", "u32")]),
  "ofp_action_nw_tos": ([8], [("nw_tos", "u8"), (None, "pad", 3)]),
  "ofp_action_tp_port": ([9, 10], [("tp_port", "u16"), (None, "pad", 2)]),
  "ofp_action_enqueue": ([11], [("port", "u16"), (None, "pad", 6), ("queue_id", "u32")]),
  "ofp_action_vendor_generic": ([0xffff], [("vendor", "u32"), ("body", "bytes")]),
}
_ACTION_BY_TYPE = {}
for _k, (_codes, _l) in ACTIONS.items():
  for _c in _codes:
    _ACTION_BY_TYPE[_c] = _k

# Nicira actions: after the 10-octet nx_action_header prefix (type len vendor subtype)
NX_ACTIONS = {
  "nx_action_resubmit": ([1, 14], [("in_port", "u16"), ("table", "u8"), (None, "pad", 3)]),
  "nx_action_set_tunnel": ([2], [(None, "pad", 2), ("tun_id", "u32")]),
  "nx_reg_move": ([6], [("nbits", "u16"), ("src_ofs", "u16"), ("dst_ofs", "u16"),
                        ("src", "u32"), ("dst", "u32")]),
  "nx_reg_load": ([7], [("ofs_nbits", "u16"), ("dst", "u32"), ("value", "u64")]),
  "nx_action_set_tunnel64": ([9], [(None, "pad", 6), ("tun_id", "u64")]),
  "nx_output_reg": ([15], [("ofs_nbits", "u16"), ("reg", "u32"), ("max_len", "u16"), (None, "pad", 6)]),
  "nx_action_exit": ([17], [(None, "pad", 6)]),
  "nx_action_dec_ttl": ([18], [(None, "pad", 6)]),
  "nx_action_fin_timeout": ([19], [("fin_idle_timeout", "u16"), ("fin_hard_timeout", "u16"), (None, "pad", 2)]),
  "nx_action_controller": ([20], [("max_len", "u16"), ("controller_id", "u16"), ("reason", "u8"), (None, "pad", 1)]),
  "nx_action_push_mpls": ([23], [("ethertype", "u16"), (None, "pad", 4)]),
  "nx_action_pop_mpls": ([24], [("ethertype", "u16"), (None, "pad", 4)]),
  "nx_action_mpls_label": ([30], [(None, "pad", 2), ("label", "u32")]),
  "nx_action_mpls_tc": ([31], [("tc", "u8"), (None, "pad", 5)]),
  # nx_action_learn / nx_action_bundle: special (variable tails padded to 8)
}
NXAST_LEARN, NXAST_BUNDLE, NXAST_BUNDLE_LOAD = 16, 12, 13

STATS_REQUEST = {
  # kind: (ofp_stats_types code, layout)
  "ofp_desc_stats_request": (0, []),
  "ofp_flow_stats_request": (1, [("match", "match"), ("table_id", "u8"), (None, "pad", 1), ("out_port", "u16")]),
  "ofp_aggregate_stats_request": (2, [("match", "match"), ("table_id", "u8"), (None, "pad", 1), ("out_port", "u16")]),
  "ofp_table_stats_request": (3, []),
  "ofp_port_stats_request": (4, [("port_no", "u16"), (None, "pad", 6)]),
  "ofp_queue_stats_request": (5, [("port_no", "u16"), (None, "pad", 2), ("queue_id", "u32")]),
  "ofp_vendor_stats_generic": (0xffff, [("vendor", "u32"), ("data", "bytes")]),
}
STATS_REPLY = {
  # kind: (code, is_array, layout)
  "ofp_desc_stats": (0, False, [("mfr_desc", "str", 256), ("hw_desc", "str", 256), ("sw_desc", "str", 256),
                                ("serial_num", "str", 32), ("dp_desc", "str", 256)]),
  # ofp_flow_stats: special (length prefix + actions)
  "ofp_aggregate_stats": (2, False, [("packet_count", "u64"), ("byte_count", "u64"), ("flow_count", "u32"), (None, "pad", 4)]),
  "ofp_table_stats": (3, True, [("table_id", "u8"), (None, "pad", 3), ("name", "str", 32), ("wildcards", "u32"),
                                ("max_entries", "u32"), ("active_count", "u32"), ("lookup_count", "u64"),
                                ("matched_count", "u64")]),
  "ofp_port_stats": (4, True, [("port_no", "u16"), (None, "pad", 6)] + [(n, "u64") for n in (
      "rx_packets", "tx_packets", "rx_bytes", "tx_bytes", "rx_dropped", "tx_dropped", "rx_errors", "tx_errors",
      "rx_frame_err", "rx_over_err", "rx_crc_err", "collisions")]),
  "ofp_queue_stats": (5, True, [("port_no", "u16"), (None, "pad", 2), ("queue_id", "u32"), ("tx_bytes", "u64"),
                                ("tx_packets", "u64"), ("tx_errors", "u64")]),
  "ofp_vendor_stats_generic": (0xffff, False, [("vendor", "u32"), ("data", "bytes")]),
}
FLOW_STATS = [("$length", "len"), ("table_id", "u8"), (None, "pad", 1), ("match", "match"),
              ("duration_sec", "u32"), ("duration_nsec", "u32"), ("priority", "u16"), ("idle_timeout", "u16"),
              ("hard_timeout", "u16"), (None, "pad", 6), ("cookie", "u64"), ("packet_count", "u64"),
              ("byte_count", "u64"), ("actions", "actions")]
_STATS_REQ_BY_TYPE = {v[0]: k for k, v in STATS_REQUEST.items()}
_STATS_REP_BY_TYPE = {v[0]: k for k, v in STATS_REPLY.items()}
_STATS_REP_BY_TYPE[1] = "ofp_flow_stats"
_STATS_REP_ARRAY = {1: True}
for _k, _v in STATS_REPLY.items():
  _STATS_REP_ARRAY[_v[0]] = _v[1]

# queue properties: property(2) len(2) pad(4) then body
QUEUE_PROPS = {
  "ofp_queue_prop_none": (0, []),
  "ofp_queue_prop_min_rate": (1, [("rate", "u16"), (None, "pad", 6)]),
}
PACKET_QUEUE = [("queue_id", "u32"), ("$len", "len"), (None, "pad", 2), ("properties", "props")]

STRUCTS = {"ofp_phy_port": PHY_PORT}

# ofp_match
MATCH_LAYOUT = [("wildcards", "u32"), ("in_port", "u16"), ("dl_src", "mac"), ("dl_dst", "mac"), ("dl_vlan", "u16"),
                ("dl_vlan_pcp", "u8"), (None, "pad", 1), ("dl_type", "u16"), ("nw_tos", "u8"), ("nw_proto", "u8"),
                (None, "pad", 2), ("nw_src", "u32"), ("nw_dst", "u32"), ("tp_src", "u16"), ("tp_dst", "u16")]
OFPFW = {"in_port": 1 << 0, "dl_vlan": 1 << 1, "dl_src": 1 << 2, "dl_dst": 1 << 3, "dl_type": 1 << 4,
         "nw_proto": 1 << 5, "tp_src": 1 << 6, "tp_dst": 1 << 7, "dl_vlan_pcp": 1 << 20, "nw_tos": 1 << 21}
OFPFW_NW_SRC_SHIFT, OFPFW_NW_DST_SHIFT = 8, 14
MATCH_INT_FIELDS = [("in_port", 16), ("dl_vlan", 16), ("dl_vlan_pcp", 8), ("dl_type", 16), ("nw_tos", 8),
                    ("nw_proto", 8), ("tp_src", 16), ("tp_dst", 16)]


def match_consistent(m):
  """OpenFlow 1.0 prerequisites: nw_tos only with IPv4; nw_proto/nw_src/nw_dst only with IPv4 or ARP;
  tp_src/tp_dst only with IPv4 and protocol ICMP/TCP/UDP."""
  dlt = m.get("dl_type")
  if "nw_tos" in m and dlt != 0x0800:
    return False
  if ("nw_proto" in m or "nw_src" in m or "nw_dst" in m) and dlt not in (0x0800, 0x0806):
    return False
  if ("tp_src" in m or "tp_dst" in m) and not (dlt == 0x0800 and m.get("nw_proto") in (1, 6, 17)):
    return False
  return True


def match_ignored_wildcards(m):
  """Wildcard bits of fields that a switch ignores for this match (OpenFlow 1.0.1 section 3.4: "fields
  that are ignored don't need to be wildcarded and should be set to 0").  In a FLOW_MOD these bits carry
  no information; comparisons of the wildcards word are made modulo this mask."""
  dlt = m.get("dl_type")
  tp = OFPFW["tp_src"] | OFPFW["tp_dst"]
  nw = OFPFW["nw_tos"] | OFPFW["nw_proto"] | (63 << OFPFW_NW_SRC_SHIFT) | (63 << OFPFW_NW_DST_SHIFT)
  if dlt == 0x0800:
    return 0 if m.get("nw_proto") in (1, 6, 17) else tp
  if dlt == 0x0806:
    return OFPFW["nw_tos"] | tp
  return nw | tp


def _enc_match(m):
  wc = 0
  vals = {}
  for name, bit in OFPFW.items():
    if name not in m:
      wc |= bit
  for name, shift in (("nw_src", OFPFW_NW_SRC_SHIFT), ("nw_dst", OFPFW_NW_DST_SHIFT)):
    if name in m:
      addr, plen = m[name]
      if not (1 <= plen <= 32):
        raise RefError("prefix length %r" % (plen,))
      wc |= (32 - plen) << shift
      vals[name] = addr
    else:
      wc |= 32 << shift
      vals[name] = 0
  for k in m:
    if k not in OFPFW and k not in ("nw_src", "nw_dst"):
      raise RefError("unknown match field %r" % (k,))
  out = [_pk("u32", wc, "wildcards")]
  for ent in MATCH_LAYOUT[1:]:
    name, typ = ent[0], ent[1]
    if typ == "pad":
      out.append(b"\0" * ent[2])
    elif typ == "mac":
      v = m.get(name, b"\0" * 6)
      if len(v) != 6:
        raise RefError("mac length")
      out.append(bytes(v))
    elif name in ("nw_src", "nw_dst"):
      out.append(_pk("u32", vals[name], name))
    else:
      out.append(_pk(typ, m.get(name, 0), name))
  return b"".join(out)


def _dec_match(data, off):
  if len(data) - off < 40:
    raise RefError("short match")
  (wc, in_port, dl_src, dl_dst, dl_vlan, pcp, p1, dl_type, tos, proto, p2, nw_src, nw_dst, tp_src,
   tp_dst) = struct.unpack_from("!LH6s6sHBBHBBHLLHH", data, off)
  raw = dict(in_port=in_port, dl_src=dl_src, dl_dst=dl_dst, dl_vlan=dl_vlan, dl_vlan_pcp=pcp, dl_type=dl_type,
             nw_tos=tos, nw_proto=proto, tp_src=tp_src, tp_dst=tp_dst)
  m = {}
  for name, bit in OFPFW.items():
    if not wc & bit:
      m[name] = raw[name]
  for name, shift, v in (("nw_src", OFPFW_NW_SRC_SHIFT, nw_src), ("nw_dst", OFPFW_NW_DST_SHIFT, nw_dst)):
    w = (wc >> shift) & 63
    if w < 32:
      m[name] = [v, 32 - w]
  return m, off + 40


# --------------------------------------------------------------------------- NXM
# nxm header: vendor(16) field(7) hasmask(1) length(8); payload length doubles with a mask.
NXM_FIELDS = {
  # name: (vendor, field, payload octets, maskable)
  "NXM_OF_IN_PORT": (0, 0, 2, False), "NXM_OF_ETH_DST": (0, 1, 6, True), "NXM_OF_ETH_SRC": (0, 2, 6, True),
  "NXM_OF_ETH_TYPE": (0, 3, 2, False), "NXM_OF_VLAN_TCI": (0, 4, 2, True), "NXM_OF_IP_TOS": (0, 5, 1, True),
  "NXM_OF_IP_PROTO": (0, 6, 1, True), "NXM_OF_IP_SRC": (0, 7, 4, True), "NXM_OF_IP_DST": (0, 8, 4, True),
  "NXM_OF_TCP_SRC": (0, 9, 2, True), "NXM_OF_TCP_DST": (0, 10, 2, True), "NXM_OF_UDP_SRC": (0, 11, 2, True),
  "NXM_OF_UDP_DST": (0, 12, 2, True), "NXM_OF_ICMP_TYPE": (0, 13, 1, False), "NXM_OF_ICMP_CODE": (0, 14, 1, False),
  "NXM_OF_ARP_OP": (0, 15, 2, False), "NXM_OF_ARP_SPA": (0, 16, 4, True), "NXM_OF_ARP_TPA": (0, 17, 4, True),
  "NXM_NX_TUN_ID": (1, 16, 8, True), "NXM_NX_ARP_SHA": (1, 17, 6, False), "NXM_NX_ARP_THA": (1, 18, 6, False),
  "NXM_NX_IPV6_SRC": (1, 19, 16, True), "NXM_NX_IPV6_DST": (1, 20, 16, True),
  "NXM_NX_ICMPV6_TYPE": (1, 21, 1, False), "NXM_NX_ICMPV6_CODE": (1, 22, 1, False),
  "NXM_NX_ND_TARGET": (1, 23, 16, True), "NXM_NX_ND_SLL": (1, 24, 6, False), "NXM_NX_ND_TLL": (1, 25, 6, False),
  "NXM_NX_IP_FRAG": (1, 26, 1, True), "NXM_NX_IPV6_LABEL": (1, 27, 4, False), "NXM_NX_IP_ECN": (1, 28, 1, False),
  "NXM_NX_IP_TTL": (1, 29, 1, False), "NXM_NX_COOKIE": (1, 30, 8, True),
  "NXM_NX_TUN_IPV4_SRC": (1, 31, 4, True), "NXM_NX_TUN_IPV4_DST": (1, 32, 4, True),
  "NXM_NX_TCP_FLAGS": (1, 34, 2, True),
  "OXM_OF_MPLS_LABEL": (0x8000, 34, 4, False), "OXM_OF_MPLS_TC": (0x8000, 35, 1, False),
  "OXM_OF_MPLS_BOS": (0x8000, 36, 1, False),
}
for _i in range(16):
  NXM_FIELDS["NXM_NX_REG%d" % _i] = (1, _i, 4, True)
_NXM_BY_CODE = {(v[0], v[1]): k for k, v in NXM_FIELDS.items()}


def nxm_header(name, hasmask=False):
  vendor, field, n, _ = NXM_FIELDS[name]
  return (vendor << 16) | (field << 9) | ((1 if hasmask else 0) << 8) | (n * 2 if hasmask else n)


def _enc_nxm(e):
  """e = {"field": name, "value": bytes, "mask": bytes|None}"""
  name = e["field"]
  if name not in NXM_FIELDS:
    raise RefError("unknown nxm field %r" % (name,))
  n = NXM_FIELDS[name][2]
  v = expand_bytes(e["value"])
  m = e.get("mask")
  if len(v) != n or (m is not None and len(m) != n):
    raise RefError("nxm payload length")
  return struct.pack("!L", nxm_header(name, m is not None)) + v + (bytes(m) if m is not None else b"")


def _dec_nxm(data, off, end):
  if end - off < 4:
    raise RefError("short nxm header")
  h, = struct.unpack_from("!L", data, off)
  vendor, field, hasmask, ln = h >> 16, (h >> 9) & 0x7f, (h >> 8) & 1, h & 0xff
  name = _NXM_BY_CODE.get((vendor, field))
  if name is None:
    raise RefError("unknown nxm header %08x" % h)
  n = NXM_FIELDS[name][2]
  if ln != (2 * n if hasmask else n) or end - off - 4 < ln:
    raise RefError("nxm length %d for %s" % (ln, name))
  v = bytes(data[off + 4:off + 4 + n])
  m = bytes(data[off + 4 + n:off + 4 + 2 * n]) if hasmask else None
  return {"field": name, "value": v, "mask": m}, off + 4 + ln


def enc_nx_match(entries):
  return b"".join(_enc_nxm(e) for e in entries)


def dec_nx_match(data, off, match_len):
  end = off + match_len
  if end > len(data):
    raise RefError("nx_match overruns")
  out = []
  while off < end:
    e, off = _dec_nxm(data, off, end)
    out.append(e)
  return out


def _pad8(n):
  return (-n) % 8


# --------------------------------------------------------------------------- generic engine

def _enc_layout(layout, f, what, prefix=b""):
  """Returns bytes of prefix+layout with the "len" entry (at most one, counted from the start of prefix)
  patched to the total length."""
  out = [prefix]
  pos = len(prefix)
  lenpos = None
  used = set()
  for ent in layout:
    name, typ = ent[0], ent[1]
    if typ == "pad":
      b = b"\0" * ent[2]
    elif typ == "const":
      b = _pk(ent[2], ent[3], name)
      if name in f and f[name] != ent[3]:
        raise RefError("%s.%s must be %r" % (what, name, ent[3]))
      used.add(name)
    elif typ == "len":
      lenpos = pos
      b = b"\0\0"
      used.add(name)
    else:
      if name not in f:
        raise RefError("%s: field %r missing" % (what, name))
      used.add(name)
      v = f[name]
      if typ in _INT:
        b = _pk(typ, v, what + "." + name)
      elif typ == "mac":
        b = bytes(v)
        if len(b) != 6:
          raise RefError("%s.%s: mac must be 6 octets" % (what, name))
      elif typ == "str":
        try:
          b = v.encode("latin-1")
        except (UnicodeEncodeError, AttributeError):
          raise RefError("%s.%s: not latin-1 text" % (what, name))
        if len(b) > ent[2] or b"\0" in b:
          raise RefError("%s.%s: text too long or contains NUL" % (what, name))
        b = b.ljust(ent[2], b"\0")
      elif typ == "match":
        b = _enc_match(v)
      elif typ == "struct":
        b = _enc_layout(STRUCTS[ent[2]], v, ent[2])
      elif typ == "bytes":
        b = expand_bytes(v)
      elif typ == "actions":
        b = b"".join(encode(a) for a in expand_list(v))
      elif typ == "props":
        b = b"".join(encode(a) for a in expand_list(v))
      elif typ == "list":
        b = b"".join(encode({"k": ent[2], "f": x}) for x in expand_list(v))
      else:
        raise RefError("bad layout entry %r" % (ent,))
    out.append(b)
    pos += len(b)
  extra = set(f) - used
  if extra:
    raise RefError("%s: unknown fields %s" % (what, sorted(extra)))
  data = b"".join(out)
  if lenpos is not None:
    if len(data) > 0xffff:
      raise RefError("%s: %d octets do not fit the 16-bit length field" % (what, len(data)))
    data = data[:lenpos] + struct.pack("!H", len(data)) + data[lenpos + 2:]
  return data


def _dec_layout(layout, data, off, end, what, start=None):
  """Decode layout from data[off:end].  `start` is where the enclosing TLV/message began (for "len").
  Returns (fields, new offset, declared_len or None)."""
  f = {}
  declared = None
  if start is None:
    start = off
  for ent in layout:
    name, typ = ent[0], ent[1]

    def need(n):
      if end - off < n:
        raise RefError("%s: truncated at %s" % (what, name))
    if typ == "pad":
      need(ent[2])
      off += ent[2]               # padding content is not interpreted
    elif typ == "const":
      fmt, bits = _INT[ent[2]]
      need(bits // 8)
      v, = struct.unpack_from("!" + fmt, data, off)
      if v != ent[3]:
        raise RefError("%s.%s is %r, expected %r" % (what, name, v, ent[3]))
      off += bits // 8
    elif typ == "len":
      need(2)
      declared, = struct.unpack_from("!H", data, off)
      off += 2
      if start + declared > end or start + declared < off:
        raise RefError("%s: declared length %d does not fit" % (what, declared))
      end = start + declared
    elif typ in _INT:
      fmt, bits = _INT[typ]
      need(bits // 8)
      f[name], = struct.unpack_from("!" + fmt, data, off)
      off += bits // 8
    elif typ == "mac":
      need(6)
      f[name] = bytes(data[off:off + 6])
      off += 6
    elif typ == "str":
      need(ent[2])
      f[name] = bytes(data[off:off + ent[2]]).split(b"\0", 1)[0].decode("latin-1")
      off += ent[2]
    elif typ == "match":
      need(40)
      f[name], off = _dec_match(data, off)
    elif typ == "struct":
      f[name], off, _ = _dec_layout(STRUCTS[ent[2]], data, off, end, ent[2])
    elif typ == "bytes":
      f[name] = bytes(data[off:end])
      off = end
    elif typ == "actions":
      f[name], off = _dec_tlvs(data, off, end, _dec_action)
    elif typ == "props":
      f[name], off = _dec_tlvs(data, off, end, _dec_prop)
    elif typ == "list":
      items = []
      while off < end:
        x, off = _dec_kind(ent[2], data, off, end)
        items.append(x)
      f[name] = items
    else:
      raise RefError("bad layout entry %r" % (ent,))
  return f, off, declared


def _dec_tlvs(data, off, end, one):
  out = []
  while off < end:
    frag, off = one(data, off, end)
    out.append(frag)
  return out, off


def _dec_action(data, off, end):
  if end - off < 4:
    raise RefError("truncated action header")
  t, ln = struct.unpack_from("!HH", data, off)
  if ln < 4 or off + ln > end:
    raise RefError("action length %d" % ln)
  kind = _ACTION_BY_TYPE.get(t)
  if kind is None:
    return {"k": "ofp_action_generic", "f": {"type": t, "data": bytes(data[off + 4:off + ln])}}, off + ln
  f, o2, _ = _dec_layout([("type", "u16"), ("$len", "len")] + ACTIONS[kind][1], data, off, off + ln, kind, start=off)
  if o2 != off + ln:
    raise RefError("%s: length %d does not match its layout" % (kind, ln))
  if len(ACTIONS[kind][0]) == 1:
    del f["type"]
  return {"k": kind, "f": f}, o2


def _dec_prop(data, off, end):
  if end - off < 4:
    raise RefError("truncated queue property header")
  t, ln = struct.unpack_from("!HH", data, off)
  # (the specification pads properties to 8 octets; the length field is what delimits them, and the library lets
  # a caller build generic properties of any length >= 4)
  if ln < 4 or off + ln > end:
    raise RefError("queue property length %d" % ln)
  for kind, (code, layout) in QUEUE_PROPS.items():
    if code == t and kind != "ofp_queue_prop_none":
      f, o2, _ = _dec_layout([("$property", "const", "u16", code), ("$len", "len"), (None, "pad", 4)] + layout,
                             data, off, off + ln, kind, start=off)
      if o2 != off + ln:
        raise RefError("%s: length %d does not match its layout" % (kind, ln))
      return {"k": kind, "f": f}, o2
  kind = "ofp_queue_prop_none" if t == 0 else "ofp_queue_prop_generic"
  f = {"data": bytes(data[off + 4:off + ln])}
  if kind == "ofp_queue_prop_generic":
    f["property"] = t
  return {"k": kind, "f": f}, off + ln


def _dec_kind(kind, data, off, end):
  """fixed-layout structs used inside lists"""
  if kind == "ofp_phy_port":
    f, off, _ = _dec_layout(PHY_PORT, data, off, end, kind)
    return f, off
  if kind == "ofp_packet_queue":
    f, o2, declared = _dec_layout(PACKET_QUEUE, data, off, end, kind, start=off)
    return f, o2
  if kind == "ofp_flow_stats":
    f, o2, declared = _dec_layout(FLOW_STATS, data, off, end, kind, start=off)
    return f, o2
  if kind in STATS_REPLY:
    f, o2, _ = _dec_layout(STATS_REPLY[kind][2], data, off, end, kind)
    return f, o2
  raise RefError("no list decoder for %s" % kind)


# --------------------------------------------------------------------------- learn / bundle (Nicira)
# flow_mod_spec header: src(1 bit, 13) dst(2 bits, 11..12) n_bits(11 bits).
#   src 0 = field: nxm header(4) ofs(2);  src 1 = immediate: ceil(n_bits/16)*2 octets
#   dst 0 = match / 1 = load: nxm header(4) ofs(2);  dst 2 = output: nothing

def _enc_learn_spec(s):
  n_bits = s["n_bits"]
  if not (0 < n_bits < 1024):         # NX_LEARN_N_BITS_MASK 0x3ff
    raise RefError("n_bits")
  src, dst = s["src"], s["dst"]
  srcv = {"field": 0, "immediate": 1}[src["t"]]
  dstv = {"match": 0, "load": 1, "output": 2}[dst["t"]]
  out = struct.pack("!H", (srcv << 13) | (dstv << 11) | n_bits)
  if srcv == 0:
    out += struct.pack("!LH", nxm_header(src["field"]), src["ofs"])
  else:
    v = expand_bytes(src["data"])
    if len(v) != (n_bits + 15) // 16 * 2:
      raise RefError("immediate length")
    out += v
  if dstv in (0, 1):
    out += struct.pack("!LH", nxm_header(dst["field"]), dst["ofs"])
  return out


def _dec_learn_specs(data, off, end):
  specs = []
  while end - off >= 2:
    h, = struct.unpack_from("!H", data, off)
    if h == 0:
      break
    off += 2
    srcv, dstv, n_bits = (h >> 13) & 1, (h >> 11) & 3, h & 0x3ff
    if h & 0xc400:
      raise RefError("reserved bits set in a flow_mod_spec header")
    if srcv == 0:
      if end - off < 6:
        raise RefError("truncated learn src")
      hh, ofs = struct.unpack_from("!LH", data, off)
      off += 6
      src = {"t": "field", "field": _nxm_name(hh), "ofs": ofs}
    else:
      n = (n_bits + 15) // 16 * 2
      if end - off < n:
        raise RefError("truncated learn immediate")
      src = {"t": "immediate", "data": bytes(data[off:off + n])}
      off += n
    if dstv in (0, 1):
      if end - off < 6:
        raise RefError("truncated learn dst")
      hh, ofs = struct.unpack_from("!LH", data, off)
      off += 6
      dst = {"t": "match" if dstv == 0 else "load", "field": _nxm_name(hh), "ofs": ofs}
    elif dstv == 2:
      dst = {"t": "output"}
    else:
      raise RefError("learn dst type 3")
    specs.append({"n_bits": n_bits, "src": src, "dst": dst})
  if any(data[off:end]):
    raise RefError("non-zero learn padding")
  return specs


def _nxm_name(h):
  name = _NXM_BY_CODE.get((h >> 16, (h >> 9) & 0x7f))
  if name is None or (h >> 8) & 1 or (h & 0xff) != NXM_FIELDS[name][2]:
    raise RefError("bad nxm header word %08x" % h)
  return name


LEARN_FIXED = [("idle_timeout", "u16"), ("hard_timeout", "u16"), ("priority", "u16"), ("cookie", "u64"),
               ("flags", "u16"), ("table_id", "u8"), (None, "pad", 1), ("fin_idle_timeout", "u16"),
               ("fin_hard_timeout", "u16")]
BUNDLE_FIXED = [("algorithm", "u16"), ("fields", "u16"), ("basis", "u16"), ("slave_type", "u32"),
                ("n_slaves", "u16"), ("ofs_nbits", "u16"), ("dst", "u32"), (None, "pad", 4)]


def _finish_action(body_after_len, t):
  total = 4 + len(body_after_len)
  if total % 8:
    raise RefError("action length %d is not a multiple of 8" % total)
  if total > 0xffff:
    raise RefError("action too long")
  return struct.pack("!HH", t, total) + body_after_len


# --------------------------------------------------------------------------- public API

def kinds():
  ks = list(MESSAGES) + ["ofp_packet_out", "ofp_stats_request", "ofp_stats_reply"] + list(ACTIONS) + \
      ["ofp_action_generic"] + list(STATS_REQUEST) + list(STATS_REPLY) + ["ofp_flow_stats"] + \
      list(QUEUE_PROPS) + ["ofp_queue_prop_generic", "ofp_packet_queue", "ofp_match", "ofp_phy_port"] + \
      list(NX_MESSAGES) + ["nx_flow_mod", "nxt_packet_in"] + list(NX_ACTIONS) + \
      ["nx_action_learn", "nx_action_bundle", "nx_match", "nxm_entry"]
  seen, out = set(), []
  for k in ks:
    if k not in seen:
      seen.add(k)
      out.append(k)
  return out


def is_message(kind):
  return kind in MESSAGES or kind in NX_MESSAGES or kind in ("ofp_packet_out", "ofp_stats_request",
                                                             "ofp_stats_reply", "nx_flow_mod", "nxt_packet_in",
                                                             "ofp_flow_mod_table_id")


def int_fields(kind):
  """[(field name, bits)] of the top-level unsigned integer fields of a kind (for boundary grids)."""
  lay = layout_of(kind)
  return [(e[0], _INT[e[1]][1]) for e in lay if e[0] is not None and e[1] in _INT]


def layout_of(kind):
  if kind in MESSAGES:
    return [("xid", "u32")] + MESSAGES[kind][1]
  if kind in NX_MESSAGES:
    return [("xid", "u32")] + NX_MESSAGES[kind][1]
  if kind == "ofp_flow_mod_table_id":
    return [("xid", "u32")] + [e for e in MESSAGES["ofp_flow_mod"][1]] + [("table_id", "u8")]
  if kind == "ofp_packet_out":
    return [("xid", "u32"), ("buffer_id", "u32"), ("in_port", "u16"), ("actions", "actions"), ("data", "bytes")]
  if kind in ("ofp_stats_request", "ofp_stats_reply"):
    return [("xid", "u32"), ("type", "u16"), ("flags", "u16"), ("body", "body")]
  if kind == "nx_flow_mod":
    return [("xid", "u32"), ("cookie", "u64"), ("command", "u8"), ("table_id", "u8"), ("idle_timeout", "u16"),
            ("hard_timeout", "u16"), ("priority", "u16"), ("buffer_id", "u32"), ("out_port", "u16"),
            ("flags", "u16"), ("match", "nx_match"), ("actions", "actions")]
  if kind == "nxt_packet_in":
    return [("xid", "u32"), ("buffer_id", "u32"), ("total_len", "u16"), ("reason", "u8"), ("table_id", "u8"),
            ("cookie", "u64"), ("match", "nx_match"), ("data", "bytes")]
  if kind in ACTIONS:
    codes, lay = ACTIONS[kind]
    return ([("type", "u16")] if len(codes) > 1 else []) + lay
  if kind == "ofp_action_generic":
    return [("type", "u16"), ("data", "bytes")]
  if kind in NX_ACTIONS:
    codes, lay = NX_ACTIONS[kind]
    return ([("subtype", "u16")] if len(codes) > 1 else []) + lay
  if kind == "nx_action_learn":
    return LEARN_FIXED + [("spec", "specs")]
  if kind == "nx_action_bundle":
    return [("subtype", "u16"), ("algorithm", "u16"), ("fields", "u16"), ("basis", "u16"), ("slave_type", "u32"),
            ("ofs_nbits", "u16"), ("dst", "u32"), ("slaves", "u16list")]
  if kind == "ofp_flow_stats":
    return FLOW_STATS
  if kind in STATS_REPLY:
    return STATS_REPLY[kind][2]
  if kind in STATS_REQUEST:
    return STATS_REQUEST[kind][1]
  if kind == "ofp_generic_stats_body":
    return [("data", "bytes")]
  if kind == "ofp_queue_prop_none":
    return [("data", "bytes")]
  if kind == "ofp_queue_prop_generic":
    return [("property", "u16"), ("data", "bytes")]
  if kind in QUEUE_PROPS:
    return QUEUE_PROPS[kind][1]
  if kind == "ofp_packet_queue":
    return PACKET_QUEUE
  if kind == "ofp_phy_port":
    return PHY_PORT
  if kind == "ofp_match":
    return [(n, "u%d" % b) for n, b in MATCH_INT_FIELDS]
  raise RefError("unknown kind %r" % (kind,))


def stats_type_of(body_kind, reply):
  if reply:
    if body_kind == "ofp_flow_stats":
      return 1
    return STATS_REPLY[body_kind][0]
  return STATS_REQUEST[body_kind][0]


def stats_reply_is_array(t):
  return _STATS_REP_ARRAY.get(t)


def encode(frag, fields=None):
  """encode({"k":..,"f":..}) or encode(kind, fields)"""
  if fields is not None:
    kind, f = frag, fields
  else:
    kind, f = frag["k"], frag["f"]
  if kind in MESSAGES:
    t, lay = MESSAGES[kind]
    return _enc_layout(_HDR(t) + lay, f, kind)
  if kind in NX_MESSAGES:
    sub, lay = NX_MESSAGES[kind]
    return _enc_layout(_NXHDR(sub) + lay, f, kind)
  if kind == "ofp_flow_mod_table_id":
    # NXT_FLOW_MOD_TABLE_ID: the high octet of `command` carries the table
    g = dict(f)
    tid = g.pop("table_id")
    if not (0 <= g["command"] <= 0xff and 0 <= tid <= 0xff):
      raise RefError("command/table_id range")
    g["command"] |= tid << 8
    return _enc_layout(_HDR(14) + MESSAGES["ofp_flow_mod"][1], g, kind)
  if kind == "ofp_packet_out":
    acts = b"".join(encode(a) for a in expand_list(f["actions"]))
    g = {"xid": f["xid"], "buffer_id": f["buffer_id"], "in_port": f["in_port"], "actions_len": len(acts),
         "rest": acts + expand_bytes(f["data"])}
    if set(f) - {"xid", "buffer_id", "in_port", "actions", "data"}:
      raise RefError("ofp_packet_out: unknown fields")
    return _enc_layout(_HDR(OFPT_PACKET_OUT) + [("buffer_id", "u32"), ("in_port", "u16"), ("actions_len", "u16"),
                                                ("rest", "bytes")], g, kind)
  if kind in ("ofp_stats_request", "ofp_stats_reply"):
    reply = kind == "ofp_stats_reply"
    body = f["body"]
    if isinstance(body, list):
      bb = b"".join(encode(x) for x in expand_list(body))
    elif isinstance(body, dict) and "k" in body:
      bb = encode(body)
    else:
      bb = expand_bytes(body)
    g = {"xid": f["xid"], "type": f["type"], "flags": f["flags"], "body": bb}
    return _enc_layout(_HDR(OFPT_STATS_REPLY if reply else OFPT_STATS_REQUEST) +
                       [("type", "u16"), ("flags", "u16"), ("body", "bytes")], g, kind)
  if kind == "nx_flow_mod":
    m = enc_nx_match(f["match"])
    g = dict(f)
    g.pop("match")
    tid = g.pop("table_id")
    if not (0 <= g["command"] <= 0xff and 0 <= tid <= 0xff):
      raise RefError("command/table_id range")
    g["command"] = g["command"] | (tid << 8)
    g["match_len"] = len(m)
    g["rest"] = m + b"\0" * _pad8(len(m)) + b"".join(encode(a) for a in expand_list(g.pop("actions")))
    return _enc_layout(_NXHDR(NXT_FLOW_MOD) + [("cookie", "u64"), ("command", "u16"), ("idle_timeout", "u16"),
                       ("hard_timeout", "u16"), ("priority", "u16"), ("buffer_id", "u32"), ("out_port", "u16"),
                       ("flags", "u16"), ("match_len", "u16"), (None, "pad", 6), ("rest", "bytes")], g, kind)
  if kind == "nxt_packet_in":
    m = enc_nx_match(f["match"])
    g = dict(f)
    g.pop("match")
    g["match_len"] = len(m)
    g["rest"] = m + b"\0" * _pad8(len(m)) + b"\0\0" + expand_bytes(g.pop("data"))
    return _enc_layout(_NXHDR(NXT_PACKET_IN) + [("buffer_id", "u32"), ("total_len", "u16"), ("reason", "u8"),
                       ("table_id", "u8"), ("cookie", "u64"), ("match_len", "u16"), (None, "pad", 6),
                       ("rest", "bytes")], g, kind)
  if kind in ACTIONS:
    codes, lay = ACTIONS[kind]
    if len(codes) == 1:
      return _enc_layout(_AHDR(codes[0]) + lay, f, kind)
    if f.get("type") not in codes:
      raise RefError("%s: type must be one of %s" % (kind, codes))
    return _enc_layout([("type", "u16"), ("$len", "len")] + lay, f, kind)
  if kind == "ofp_action_generic":
    return _enc_layout([("type", "u16"), ("$len", "len"), ("data", "bytes")], f, kind)
  if kind in NX_ACTIONS:
    codes, lay = NX_ACTIONS[kind]
    if len(codes) == 1:
      return _enc_layout(_NXAHDR(codes[0]) + lay, f, kind)
    if f.get("subtype") not in codes:
      raise RefError("%s: subtype must be one of %s" % (kind, codes))
    return _enc_layout(_AHDR(0xffff) + [("$vendor", "const", "u32", NX_VENDOR_ID), ("subtype", "u16")] + lay, f, kind)
  if kind == "nx_action_learn":
    g = dict(f)
    specs = b"".join(_enc_learn_spec(s) for s in g.pop("spec"))
    body = _enc_layout([("$vendor", "const", "u32", NX_VENDOR_ID), ("$subtype", "const", "u16", NXAST_LEARN)] +
                       LEARN_FIXED, g, kind) + specs
    body += b"\0" * _pad8(4 + len(body))
    return _finish_action(body, 0xffff)
  if kind == "nx_action_bundle":
    g = dict(f)
    slaves = g.pop("slaves")
    if g.get("subtype") not in (NXAST_BUNDLE, NXAST_BUNDLE_LOAD):
      raise RefError("bundle subtype")
    g["n_slaves"] = len(slaves)
    body = _enc_layout([("$vendor", "const", "u32", NX_VENDOR_ID), ("subtype", "u16")] + BUNDLE_FIXED, g, kind)
    body += b"".join(_pk("u16", s, "slave") for s in slaves)
    body += b"\0" * _pad8(4 + len(body))
    return _finish_action(body, 0xffff)
  if kind == "ofp_flow_stats":
    return _enc_layout(FLOW_STATS, f, kind)
  if kind in STATS_REPLY:
    return _enc_layout(STATS_REPLY[kind][2], f, kind)
  if kind in STATS_REQUEST:
    return _enc_layout(STATS_REQUEST[kind][1], f, kind)
  if kind == "ofp_generic_stats_body":
    return _enc_layout([("data", "bytes")], f, kind)
  if kind == "ofp_queue_prop_none":
    return _enc_layout([("$property", "const", "u16", 0), ("$len", "len"), ("data", "bytes")], f, kind)
  if kind == "ofp_queue_prop_generic":
    return _enc_layout([("property", "u16"), ("$len", "len"), ("data", "bytes")], f, kind)
  if kind in QUEUE_PROPS:
    code, lay = QUEUE_PROPS[kind]
    return _enc_layout([("$property", "const", "u16", code), ("$len", "len"), (None, "pad", 4)] + lay, f, kind)
  if kind == "ofp_packet_queue":
    return _enc_layout(PACKET_QUEUE, f, kind)
  if kind == "ofp_phy_port":
    return _enc_layout(PHY_PORT, f, kind)
  if kind == "ofp_match":
    return _enc_match(f)
  if kind == "nx_match":
    return enc_nx_match(f["entries"])
  if kind == "nxm_entry":
    return _enc_nxm(f)
  raise RefError("unknown kind %r" % (kind,))


def _dec_stats_body(t, reply, data):
  if reply:
    kind = _STATS_REP_BY_TYPE.get(t)
    if kind is None:
      return data
    if _STATS_REP_ARRAY[t]:
      out, off = [], 0
      while off < len(data):
        x, off = _dec_kind(kind, data, off, len(data))
        out.append({"k": kind, "f": x})
      return out
    x, off = _dec_kind(kind, data, 0, len(data))
    if off != len(data):
      raise RefError("%s: %d trailing octets in the statistics body" % (kind, len(data) - off))
    return {"k": kind, "f": x}
  kind = _STATS_REQ_BY_TYPE.get(t)
  if kind is None:
    return data
  x, off, _ = _dec_layout(STATS_REQUEST[kind][1], data, 0, len(data), kind)
  if off != len(data):
    raise RefError("%s: %d trailing octets in the statistics body" % (kind, len(data) - off))
  return {"k": kind, "f": x}


def _dec_message_frame(data, off, expect_type):
  if len(data) - off < 8:
    raise RefError("short header")
  ver, t, ln, xid = struct.unpack_from("!BBHL", data, off)
  if ver != OFP_VERSION:
    raise RefError("version %d" % ver)
  if t != expect_type:
    raise RefError("message type %d, expected %d" % (t, expect_type))
  if ln < 8 or off + ln > len(data):
    raise RefError("header length %d" % ln)
  return off + ln


def decode(kind, data, offset=0):
  """-> (fields, consumed).  Extra data after the declared length is left alone."""
  data = bytes(data)
  off = offset
  if kind in MESSAGES or kind in NX_MESSAGES:
    if kind in MESSAGES:
      t, lay = MESSAGES[kind]
      lay = _HDR(t) + lay
    else:
      sub, lay = NX_MESSAGES[kind]
      lay = _NXHDR(sub) + lay
      t = 4
    end = _dec_message_frame(data, off, t)
    f, o2, _ = _dec_layout(lay, data, off, end, kind, start=off)
    if o2 != end:
      raise RefError("%s: header length %d but the layout ends at %d" % (kind, end - off, o2 - off))
    return f, end - offset
  if kind == "ofp_flow_mod_table_id":
    f, n = decode("ofp_flow_mod", data, offset)
    f["table_id"] = f["command"] >> 8
    f["command"] &= 0xff
    return f, n
  if kind == "ofp_packet_out":
    end = _dec_message_frame(data, off, OFPT_PACKET_OUT)
    g, o2, _ = _dec_layout(_HDR(OFPT_PACKET_OUT) + [("buffer_id", "u32"), ("in_port", "u16"), ("actions_len", "u16")],
                           data, off, end, kind, start=off)
    if o2 + g["actions_len"] > end:
      raise RefError("actions_len overruns the message")
    acts, o3 = _dec_tlvs(data, o2, o2 + g["actions_len"], _dec_action)
    return {"xid": g["xid"], "buffer_id": g["buffer_id"], "in_port": g["in_port"], "actions": acts,
            "data": data[o3:end]}, end - offset
  if kind in ("ofp_stats_request", "ofp_stats_reply"):
    reply = kind == "ofp_stats_reply"
    t = OFPT_STATS_REPLY if reply else OFPT_STATS_REQUEST
    end = _dec_message_frame(data, off, t)
    g, o2, _ = _dec_layout(_HDR(t) + [("type", "u16"), ("flags", "u16"), ("body", "bytes")], data, off, end, kind,
                           start=off)
    g["body"] = _dec_stats_body(g["type"], reply, g["body"])
    return g, end - offset
  if kind in ("nx_flow_mod", "nxt_packet_in"):
    end = _dec_message_frame(data, off, 4)
    if kind == "nx_flow_mod":
      fixed = [("cookie", "u64"), ("command", "u16"), ("idle_timeout", "u16"), ("hard_timeout", "u16"),
               ("priority", "u16"), ("buffer_id", "u32"), ("out_port", "u16"), ("flags", "u16"),
               ("match_len", "u16"), (None, "pad", 6)]
      sub = NXT_FLOW_MOD
    else:
      fixed = [("buffer_id", "u32"), ("total_len", "u16"), ("reason", "u8"), ("table_id", "u8"), ("cookie", "u64"),
               ("match_len", "u16"), (None, "pad", 6)]
      sub = NXT_PACKET_IN
    g, o2, _ = _dec_layout(_NXHDR(sub) + fixed, data, off, end, kind, start=off)
    ml = g.pop("match_len")
    g["match"] = dec_nx_match(data[:end], o2, ml)
    o3 = o2 + ml + _pad8(ml)
    if kind == "nx_flow_mod":
      g["table_id"] = g["command"] >> 8
      g["command"] &= 0xff
      g["actions"], _ = _dec_tlvs(data, o3, end, _dec_action_nx)
    else:
      if o3 + 2 > end:
        raise RefError("nxt_packet_in: no room for the 2 pad octets")
      g["data"] = data[o3 + 2:end]
    return g, end - offset
  if kind in ACTIONS or kind == "ofp_action_generic":
    frag, o2 = _dec_action(data, off, len(data))
    if frag["k"] != kind:
      raise RefError("decoded %s, expected %s" % (frag["k"], kind))
    return frag["f"], o2 - offset
  if kind in NX_ACTIONS or kind in ("nx_action_learn", "nx_action_bundle"):
    frag, o2 = _dec_action_nx(data, off, len(data))
    if frag["k"] != kind:
      raise RefError("decoded %s, expected %s" % (frag["k"], kind))
    return frag["f"], o2 - offset
  if kind in ("ofp_flow_stats", "ofp_packet_queue", "ofp_phy_port") or kind in STATS_REPLY:
    if kind == "ofp_vendor_stats_generic":
      f, o2, _ = _dec_layout(STATS_REPLY[kind][2], data, off, len(data), kind)
      return f, o2 - offset
    f, o2 = _dec_kind(kind, data, off, len(data))
    return f, o2 - offset
  if kind in STATS_REQUEST or kind == "ofp_generic_stats_body":
    lay = [("data", "bytes")] if kind == "ofp_generic_stats_body" else STATS_REQUEST[kind][1]
    f, o2, _ = _dec_layout(lay, data, off, len(data), kind)
    return f, o2 - offset
  if kind in QUEUE_PROPS or kind == "ofp_queue_prop_generic":
    frag, o2 = _dec_prop(data, off, len(data))
    if frag["k"] != kind:
      raise RefError("decoded %s, expected %s" % (frag["k"], kind))
    return frag["f"], o2 - offset
  if kind == "ofp_match":
    m, o2 = _dec_match(data, off)
    return m, 40
  if kind == "nxm_entry":
    e, o2 = _dec_nxm(data, off, len(data))
    return e, o2 - offset
  if kind == "nx_match":
    return {"entries": dec_nx_match(data, off, len(data) - off)}, len(data) - off
  raise RefError("unknown kind %r" % (kind,))


_NXA_BY_SUB = {}
for _k, (_codes, _l) in NX_ACTIONS.items():
  for _c in _codes:
    _NXA_BY_SUB[_c] = _k


def _dec_action_nx(data, off, end):
  """Like _dec_action but resolves Nicira vendor actions to their kinds."""
  if end - off < 4:
    raise RefError("truncated action header")
  t, ln = struct.unpack_from("!HH", data, off)
  if t != 0xffff or ln < 16 or off + ln > end:
    return _dec_action(data, off, end)
  vendor, sub = struct.unpack_from("!LH", data, off + 4)
  if vendor != NX_VENDOR_ID:
    return _dec_action(data, off, end)
  aend = off + ln
  if sub in _NXA_BY_SUB:
    kind = _NXA_BY_SUB[sub]
    codes, lay = NX_ACTIONS[kind]
    f, o2, _ = _dec_layout(_AHDR(0xffff) + [("$vendor", "const", "u32", NX_VENDOR_ID), ("subtype", "u16")] + lay,
                           data, off, aend, kind, start=off)
    if o2 != aend:
      raise RefError("%s: length %d does not match its layout" % (kind, ln))
    if len(codes) == 1:
      del f["subtype"]
    return {"k": kind, "f": f}, aend
  if sub == NXAST_LEARN:
    f, o2, _ = _dec_layout(_AHDR(0xffff) + [("$vendor", "const", "u32", NX_VENDOR_ID),
                                           ("$subtype", "const", "u16", NXAST_LEARN)] + LEARN_FIXED,
                           data, off, aend, "nx_action_learn", start=off)
    f["spec"] = _dec_learn_specs(data, o2, aend)
    if ln % 8:
      raise RefError("learn length not a multiple of 8")
    return {"k": "nx_action_learn", "f": f}, aend
  if sub in (NXAST_BUNDLE, NXAST_BUNDLE_LOAD):
    f, o2, _ = _dec_layout(_AHDR(0xffff) + [("$vendor", "const", "u32", NX_VENDOR_ID), ("subtype", "u16")] +
                           BUNDLE_FIXED, data, off, aend, "nx_action_bundle", start=off)
    n = f.pop("n_slaves")
    if o2 + 2 * n > aend or ln % 8 or aend - (o2 + 2 * n) >= 8:
      raise RefError("bundle slave array does not fit its length")
    f["slaves"] = list(struct.unpack_from("!%dH" % n, data, o2))
    if any(data[o2 + 2 * n:aend]):
      raise RefError("non-zero bundle padding")
    return {"k": "nx_action_bundle", "f": f}, aend
  return _dec_action(data, off, end)


# Numeric values of the enums and macros of openflow.h 1.0.0 that appear on the wire.
SPEC_CONSTANTS = {
  "OFP_VERSION": 0x01, "OFP_MAX_TABLE_NAME_LEN": 32, "OFP_MAX_PORT_NAME_LEN": 16, "DESC_STR_LEN": 256, "SERIAL_NUM_LEN": 32,
  "OFP_DEFAULT_MISS_SEND_LEN": 128, "OFP_DEFAULT_PRIORITY": 0x8000, "OFP_VLAN_NONE": 0xffff, "OFPQ_ALL": 0xffffffff,
  "OFP_DL_TYPE_ETH2_CUTOFF": 0x0600, "OFP_DL_TYPE_NOT_ETH_TYPE": 0x05ff, "OFP_FLOW_PERMANENT": 0, "OFPQ_MIN_RATE_UNCFG": 0xffff,
  # enum ofp_type
  "OFPT_HELLO": 0, "OFPT_ERROR": 1, "OFPT_ECHO_REQUEST": 2, "OFPT_ECHO_REPLY": 3, "OFPT_VENDOR": 4, "OFPT_FEATURES_REQUEST": 5,
  "OFPT_FEATURES_REPLY": 6, "OFPT_GET_CONFIG_REQUEST": 7, "OFPT_GET_CONFIG_REPLY": 8, "OFPT_SET_CONFIG": 9, "OFPT_PACKET_IN": 10,
  "OFPT_FLOW_REMOVED": 11, "OFPT_PORT_STATUS": 12, "OFPT_PACKET_OUT": 13, "OFPT_FLOW_MOD": 14, "OFPT_PORT_MOD": 15,
  "OFPT_STATS_REQUEST": 16, "OFPT_STATS_REPLY": 17, "OFPT_BARRIER_REQUEST": 18, "OFPT_BARRIER_REPLY": 19,
  "OFPT_QUEUE_GET_CONFIG_REQUEST": 20, "OFPT_QUEUE_GET_CONFIG_REPLY": 21,
  # enum ofp_port
  "OFPP_MAX": 0xff00, "OFPP_IN_PORT": 0xfff8, "OFPP_TABLE": 0xfff9, "OFPP_NORMAL": 0xfffa, "OFPP_FLOOD": 0xfffb,
  "OFPP_ALL": 0xfffc, "OFPP_CONTROLLER": 0xfffd, "OFPP_LOCAL": 0xfffe, "OFPP_NONE": 0xffff,
  # enum ofp_action_type
  "OFPAT_OUTPUT": 0, "OFPAT_SET_VLAN_VID": 1, "OFPAT_SET_VLAN_PCP": 2, "OFPAT_STRIP_VLAN": 3, "OFPAT_SET_DL_SRC": 4,
  "OFPAT_SET_DL_DST": 5, "OFPAT_SET_NW_SRC": 6, "OFPAT_SET_NW_DST": 7, "OFPAT_SET_NW_TOS": 8, "OFPAT_SET_TP_SRC": 9,
  "OFPAT_SET_TP_DST": 10, "OFPAT_ENQUEUE": 11, "OFPAT_VENDOR": 0xffff,
  # enum ofp_stats_types, ofp_stats_reply_flags
  "OFPST_DESC": 0, "OFPST_FLOW": 1, "OFPST_AGGREGATE": 2, "OFPST_TABLE": 3, "OFPST_PORT": 4, "OFPST_QUEUE": 5,
  "OFPST_VENDOR": 0xffff, "OFPSF_REPLY_MORE": 1,
  # enum ofp_queue_properties
  "OFPQT_NONE": 0, "OFPQT_MIN_RATE": 1,
  # enum ofp_flow_wildcards
  "OFPFW_IN_PORT": 1 << 0, "OFPFW_DL_VLAN": 1 << 1, "OFPFW_DL_SRC": 1 << 2, "OFPFW_DL_DST": 1 << 3, "OFPFW_DL_TYPE": 1 << 4,
  "OFPFW_NW_PROTO": 1 << 5, "OFPFW_TP_SRC": 1 << 6, "OFPFW_TP_DST": 1 << 7, "OFPFW_NW_SRC_SHIFT": 8, "OFPFW_NW_SRC_BITS": 6,
  "OFPFW_NW_SRC_MASK": 63 << 8, "OFPFW_NW_SRC_ALL": 32 << 8, "OFPFW_NW_DST_SHIFT": 14, "OFPFW_NW_DST_BITS": 6,
  "OFPFW_NW_DST_MASK": 63 << 14, "OFPFW_NW_DST_ALL": 32 << 14, "OFPFW_DL_VLAN_PCP": 1 << 20, "OFPFW_NW_TOS": 1 << 21,
  "OFPFW_ALL": (1 << 22) - 1,
  # enum ofp_flow_mod_command / flags
  "OFPFC_ADD": 0, "OFPFC_MODIFY": 1, "OFPFC_MODIFY_STRICT": 2, "OFPFC_DELETE": 3, "OFPFC_DELETE_STRICT": 4,
  "OFPFF_SEND_FLOW_REM": 1, "OFPFF_CHECK_OVERLAP": 2, "OFPFF_EMERG": 4,
  # reasons
  "OFPR_NO_MATCH": 0, "OFPR_ACTION": 1, "OFPRR_IDLE_TIMEOUT": 0, "OFPRR_HARD_TIMEOUT": 1, "OFPRR_DELETE": 2,
  "OFPPR_ADD": 0, "OFPPR_DELETE": 1, "OFPPR_MODIFY": 2,
  # enum ofp_config_flags
  "OFPC_FRAG_NORMAL": 0, "OFPC_FRAG_DROP": 1, "OFPC_FRAG_REASM": 2, "OFPC_FRAG_MASK": 3,
  # enum ofp_capabilities
  "OFPC_FLOW_STATS": 1 << 0, "OFPC_TABLE_STATS": 1 << 1, "OFPC_PORT_STATS": 1 << 2, "OFPC_STP": 1 << 3, "OFPC_RESERVED": 1 << 4,
  "OFPC_IP_REASM": 1 << 5, "OFPC_QUEUE_STATS": 1 << 6, "OFPC_ARP_MATCH_IP": 1 << 7,
  # enum ofp_port_config / state / features
  "OFPPC_PORT_DOWN": 1 << 0, "OFPPC_NO_STP": 1 << 1, "OFPPC_NO_RECV": 1 << 2, "OFPPC_NO_RECV_STP": 1 << 3, "OFPPC_NO_FLOOD": 1 << 4,
  "OFPPC_NO_FWD": 1 << 5, "OFPPC_NO_PACKET_IN": 1 << 6,
  "OFPPS_LINK_DOWN": 1 << 0, "OFPPS_STP_LISTEN": 0 << 8, "OFPPS_STP_LEARN": 1 << 8, "OFPPS_STP_FORWARD": 2 << 8,
  "OFPPS_STP_BLOCK": 3 << 8, "OFPPS_STP_MASK": 3 << 8,
  "OFPPF_10MB_HD": 1 << 0, "OFPPF_10MB_FD": 1 << 1, "OFPPF_100MB_HD": 1 << 2, "OFPPF_100MB_FD": 1 << 3, "OFPPF_1GB_HD": 1 << 4,
  "OFPPF_1GB_FD": 1 << 5, "OFPPF_10GB_FD": 1 << 6, "OFPPF_COPPER": 1 << 7, "OFPPF_FIBER": 1 << 8, "OFPPF_AUTONEG": 1 << 9,
  "OFPPF_PAUSE": 1 << 10, "OFPPF_PAUSE_ASYM": 1 << 11,
  # enum ofp_error_type and codes
  "OFPET_HELLO_FAILED": 0, "OFPET_BAD_REQUEST": 1, "OFPET_BAD_ACTION": 2, "OFPET_FLOW_MOD_FAILED": 3, "OFPET_PORT_MOD_FAILED": 4,
  "OFPET_QUEUE_OP_FAILED": 5,
  "OFPHFC_INCOMPATIBLE": 0, "OFPHFC_EPERM": 1,
  "OFPBRC_BAD_VERSION": 0, "OFPBRC_BAD_TYPE": 1, "OFPBRC_BAD_STAT": 2, "OFPBRC_BAD_VENDOR": 3, "OFPBRC_BAD_SUBTYPE": 4,
  "OFPBRC_EPERM": 5, "OFPBRC_BAD_LEN": 6, "OFPBRC_BUFFER_EMPTY": 7, "OFPBRC_BUFFER_UNKNOWN": 8,
  "OFPBAC_BAD_TYPE": 0, "OFPBAC_BAD_LEN": 1, "OFPBAC_BAD_VENDOR": 2, "OFPBAC_BAD_VENDOR_TYPE": 3, "OFPBAC_BAD_OUT_PORT": 4,
  "OFPBAC_BAD_ARGUMENT": 5, "OFPBAC_EPERM": 6, "OFPBAC_TOO_MANY": 7, "OFPBAC_BAD_QUEUE": 8,
  "OFPFMFC_ALL_TABLES_FULL": 0, "OFPFMFC_OVERLAP": 1, "OFPFMFC_EPERM": 2, "OFPFMFC_BAD_EMERG_TIMEOUT": 3,
  "OFPFMFC_BAD_COMMAND": 4, "OFPFMFC_UNSUPPORTED": 5,
  "OFPPMFC_BAD_PORT": 0, "OFPPMFC_BAD_HW_ADDR": 1,
  "OFPQOFC_BAD_PORT": 0, "OFPQOFC_BAD_QUEUE": 1, "OFPQOFC_EPERM": 2,
}


def selftest():
  """encode/decode consistency on one fragment of every fixed kind (used by the harness at start-up)."""
  m = {"in_port": 3, "dl_type": 0x800, "nw_proto": 6, "nw_src": [0x0a000001, 24], "tp_dst": 80}
  frags = [
    {"k": "ofp_flow_mod", "f": {"xid": 7, "match": m, "cookie": 1, "command": 0, "idle_timeout": 2, "hard_timeout": 3,
                                "priority": 4, "buffer_id": 5, "out_port": 6, "flags": 1,
                                "actions": [{"k": "ofp_action_output", "f": {"port": 1, "max_len": 0}},
                                            {"k": "ofp_action_dl_addr", "f": {"type": 5, "dl_addr": b"\1\2\3\4\5\6"}}]}},
    {"k": "ofp_packet_out", "f": {"xid": 1, "buffer_id": 0xffffffff, "in_port": 0xfffd,
                                  "actions": [{"k": "ofp_action_generic", "f": {"type": 77, "data": b"abcd"}}],
                                  "data": b"xyz"}},
    {"k": "ofp_stats_reply", "f": {"xid": 1, "type": 1, "flags": 0, "body": [{"k": "ofp_flow_stats", "f": {
        "table_id": 1, "match": {}, "duration_sec": 1, "duration_nsec": 2, "priority": 3, "idle_timeout": 4,
        "hard_timeout": 5, "cookie": 6, "packet_count": 7, "byte_count": 8, "actions": []}}]}},
    {"k": "ofp_queue_get_config_reply", "f": {"xid": 1, "port": 2, "queues": [{"queue_id": 1, "properties": [
        {"k": "ofp_queue_prop_min_rate", "f": {"rate": 5}}, {"k": "ofp_queue_prop_none", "f": {"data": b"\0\0\0\0"}}]}]}},
    {"k": "nx_flow_mod", "f": {"xid": 1, "cookie": 0, "command": 0, "table_id": 2, "idle_timeout": 0, "hard_timeout": 0,
                               "priority": 1, "buffer_id": 0xffffffff, "out_port": 0xffff, "flags": 0,
                               "match": [{"field": "NXM_OF_ETH_TYPE", "value": b"\x08\x00", "mask": None},
                                         {"field": "NXM_OF_IP_SRC", "value": b"\x0a\0\0\0", "mask": b"\xff\0\0\0"}],
                               "actions": [{"k": "nx_action_resubmit", "f": {"subtype": 14, "in_port": 1, "table": 2}},
                                           {"k": "nx_action_learn", "f": {
                                               "idle_timeout": 1, "hard_timeout": 2, "priority": 3, "cookie": 4,
                                               "flags": 0, "table_id": 1, "fin_idle_timeout": 0, "fin_hard_timeout": 0,
                                               "spec": [{"n_bits": 12, "src": {"t": "field", "field": "NXM_OF_VLAN_TCI", "ofs": 0},
                                                         "dst": {"t": "match", "field": "NXM_OF_VLAN_TCI", "ofs": 0}},
                                                        {"n_bits": 16, "src": {"t": "field", "field": "NXM_OF_IN_PORT", "ofs": 0},
                                                         "dst": {"t": "output"}}]}},
                                           {"k": "nx_action_bundle", "f": {"subtype": 12, "algorithm": 0, "fields": 0, "basis": 0,
                                                                           "slave_type": nxm_header("NXM_OF_IN_PORT"),
                                                                           "ofs_nbits": 0, "dst": 0, "slaves": [1, 2, 3]}}]}},
  ]
  for fr in frags:
    b = encode(fr)
    f, n = decode(fr["k"], b + b"\xee" * 5)
    if n != len(b) or f != fr["f"]:
      raise AssertionError("reference self-test failed for %s: %r != %r" % (fr["k"], f, fr["f"]))
    if is_message(fr["k"]) and struct.unpack_from("!H", b, 2)[0] != len(b):
      raise AssertionError("reference self-test: header length")
  return True
