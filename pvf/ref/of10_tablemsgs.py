"""The few OpenFlow 1.0 messages the flow-table checks (C03, C04) exchange with a switch, as
struct code written from openflow.h 1.0.0; imports nothing from pox.

Builders return bytes; `parse_stream(bytes)` splits a byte stream of switch-to-controller
messages and decodes flow_removed / error / stats_reply(flow, aggregate) / packet_in /
barrier_reply; anything else is returned as {"type": n, "xid": x, "raw": bytes}.
"""
import struct

from . import of10_match as M

OFP_VERSION = 1
OFPT_HELLO, OFPT_ERROR, OFPT_ECHO_REQUEST, OFPT_ECHO_REPLY, OFPT_VENDOR = 0, 1, 2, 3, 4
OFPT_PACKET_IN = 10
OFPT_FLOW_REMOVED = 11
OFPT_PORT_STATUS = 12
OFPT_PACKET_OUT = 13
OFPT_FLOW_MOD = 14
OFPT_STATS_REQUEST = 16
OFPT_STATS_REPLY = 17
OFPT_BARRIER_REQUEST = 18
OFPT_BARRIER_REPLY = 19

OFPFC_ADD, OFPFC_MODIFY, OFPFC_MODIFY_STRICT, OFPFC_DELETE, OFPFC_DELETE_STRICT = 0, 1, 2, 3, 4
OFPFF_SEND_FLOW_REM, OFPFF_CHECK_OVERLAP, OFPFF_EMERG = 1, 2, 4
OFPRR_IDLE_TIMEOUT, OFPRR_HARD_TIMEOUT, OFPRR_DELETE = 0, 1, 2
OFPET_BAD_ACTION = 2
OFPBAC_BAD_TYPE = 0
OFPET_FLOW_MOD_FAILED = 3
OFPFMFC_UNSUPPORTED = 5
OFPFMFC_ALL_TABLES_FULL, OFPFMFC_OVERLAP, OFPFMFC_EPERM, OFPFMFC_BAD_EMERG_TIMEOUT = 0, 1, 2, 3
OFPST_FLOW, OFPST_AGGREGATE = 1, 2
OFPP_NONE = 0xffff
NO_BUFFER = 0xffffffff
OFPAT_OUTPUT = 0


def header(typ, length, xid):
  return struct.pack("!BBHL", OFP_VERSION, typ, length, xid & 0xffffffff)


def action_output(port, max_len=0):
  return struct.pack("!HHHH", OFPAT_OUTPUT, 8, port, max_len)


def action_vendor(vendor=0x00badbad, body=b""):
  """struct ofp_action_vendor_header: type 0xffff, len, vendor(4) (+ body, padded by the caller to 8n)"""
  return struct.pack("!HHL", 0xffff, 8 + len(body), vendor) + bytes(body)


def action_strip_vlan():
  """struct ofp_action_header with type OFPAT_STRIP_VLAN (3): type, len 8, pad(4)"""
  return struct.pack("!HH4x", 3, 8)


def flow_mod(match40, command, priority=0x8000, idle=0, hard=0, cookie=0, flags=0, out_port=OFPP_NONE,
             actions=b"", buffer_id=NO_BUFFER, xid=0):
  """struct ofp_flow_mod: header, match, cookie(8), command(2), idle(2), hard(2), priority(2),
  buffer_id(4), out_port(2), flags(2), actions[]"""
  body = bytes(match40) + struct.pack("!QHHHHLHH", cookie, command, idle, hard, priority, buffer_id, out_port, flags) \
      + bytes(actions)
  return header(OFPT_FLOW_MOD, 8 + len(body), xid) + body


def stats_request_flow(match40, out_port=OFPP_NONE, table_id=0xff, aggregate=False, xid=0):
  """struct ofp_stats_request {header, type(2), flags(2)} + ofp_flow_stats_request /
  ofp_aggregate_stats_request {match, table_id(1), pad(1), out_port(2)}"""
  body = struct.pack("!HH", OFPST_AGGREGATE if aggregate else OFPST_FLOW, 0) + bytes(match40) \
      + struct.pack("!BxH", table_id, out_port)
  return header(OFPT_STATS_REQUEST, 8 + len(body), xid) + body


def barrier_request(xid=0):
  return header(OFPT_BARRIER_REQUEST, 8, xid)


def parse_actions(b):
  """-> list of ("output", port, max_len) | ("other", type, raw)"""
  out = []
  off = 0
  while off + 4 <= len(b):
    t, l = struct.unpack_from("!HH", b, off)
    if l < 8 or off + l > len(b):
      out.append(("bad", t, bytes(b[off:])))
      break
    if t == OFPAT_OUTPUT and l == 8:
      port, ml = struct.unpack_from("!HH", b, off + 4)
      out.append(("output", port, ml))
    else:
      out.append(("other", t, bytes(b[off:off + l])))
    off += l
  return out


def parse_stream(data):
  """-> (messages, leftover bytes).  Each message is a dict with "type", "xid", "len" and decoded
  fields for the types listed in the module docstring."""
  msgs = []
  off = 0
  n = len(data)
  while off + 8 <= n:
    ver, typ, ln, xid = struct.unpack_from("!BBHL", data, off)
    if ln < 8 or off + ln > n:
      break
    raw = bytes(data[off:off + ln])
    m = {"type": typ, "xid": xid, "len": ln, "version": ver}
    try:
      _decode(m, raw)
    except struct.error as e:
      m["malformed"] = str(e)
      m["raw"] = raw
    msgs.append(m)
    off += ln
  return msgs, bytes(data[off:])


def _decode(m, raw):
  typ = m["type"]
  if typ == OFPT_FLOW_REMOVED:
    # header, match(40), cookie(8), priority(2), reason(1), pad(1), duration_sec(4), duration_nsec(4),
    # idle_timeout(2), pad(2), packet_count(8), byte_count(8)  == 88 bytes
    if len(raw) != 88:
      m["malformed"] = "flow_removed length %d" % len(raw)
    m["match"] = M.unpack_match(raw, 8)
    (m["cookie"], m["priority"], m["reason"], m["duration_sec"], m["duration_nsec"], m["idle_timeout"],
     m["packet_count"], m["byte_count"]) = struct.unpack_from("!QHBxLLHxxQQ", raw, 48)
    m["kind"] = "flow_removed"
  elif typ == OFPT_ERROR:
    m["etype"], m["code"] = struct.unpack_from("!HH", raw, 8)
    m["data"] = raw[12:]
    m["kind"] = "error"
  elif typ == OFPT_STATS_REPLY:
    m["stype"], m["flags"] = struct.unpack_from("!HH", raw, 8)
    body = raw[12:]
    m["kind"] = "stats_reply"
    if m["stype"] == OFPST_FLOW:
      flows = []
      off = 0
      while off + 88 <= len(body):
        # length(2) table_id(1) pad(1) match(40) duration_sec(4) duration_nsec(4) priority(2) idle(2) hard(2)
        # pad(6) cookie(8) packet_count(8) byte_count(8) actions[]
        ln, table_id = struct.unpack_from("!HBx", body, off)
        if ln < 88 or off + ln > len(body):
          m["malformed"] = "flow stats entry length %d at %d" % (ln, off)
          break
        f = {"table_id": table_id, "match": M.unpack_match(body, off + 4)}
        (f["duration_sec"], f["duration_nsec"], f["priority"], f["idle_timeout"], f["hard_timeout"], f["cookie"],
         f["packet_count"], f["byte_count"]) = struct.unpack_from("!LLHHH6xQQQ", body, off + 44)
        f["actions"] = parse_actions(body[off + 88:off + ln])
        flows.append(f)
        off += ln
      if off != len(body) and "malformed" not in m:
        m["malformed"] = "trailing %d bytes in flow stats body" % (len(body) - off)
      m["flows"] = flows
    elif m["stype"] == OFPST_AGGREGATE:
      if len(body) != 24:
        m["malformed"] = "aggregate body length %d" % len(body)
      m["packet_count"], m["byte_count"], m["flow_count"] = struct.unpack_from("!QQL4x", body, 0)
    else:
      m["body"] = body
  elif typ == OFPT_PACKET_IN:
    # header, buffer_id(4), total_len(2), in_port(2), reason(1), pad(1), data
    m["buffer_id"], m["total_len"], m["in_port"], m["reason"] = struct.unpack_from("!LHHBx", raw, 8)
    m["data"] = raw[18:]
    m["kind"] = "packet_in"
  elif typ == OFPT_BARRIER_REPLY:
    m["kind"] = "barrier_reply"
  else:
    m["kind"] = "other"
    m["raw"] = raw
