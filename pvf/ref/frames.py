"""Independent byte-level builders and dissectors for the frames used by the checks.

Written from the standards (IEEE 802.3 / 802.1Q / 802.2, RFC 826, RFC 791, RFC 793, RFC 768,
RFC 792, RFC 1071); imports nothing from pox.

Conventions
-----------
* MAC addresses are 6-byte `bytes`; `mac("00:11:22:33:44:55")` / `mac(int)` convert.
* IPv4 addresses are unsigned 32-bit `int`s in host order (0x0a000001 == 10.0.0.1);
  `ip("10.0.0.1")` / `ip(bytes4)` convert, `ip_str(int)` prints.  Builders accept int, dotted
  text or 4 raw bytes.
* All builders return `bytes`.  A checksum / length argument left at None is computed
  correctly; passing an int forces that value (to build corrupt frames).

Builders (each returns bytes)
-----------------------------
  build_eth(dst, src, ethertype, payload, vlan=None, pad=False)
      Ethernet II.  vlan = None | (pcp, cfi, vid) | [(pcp, cfi, vid), ...] (outermost first,
      TPID 0x8100).  pad=True pads the frame to 60 bytes with zeros.
  build_8023(dst, src, payload, dsap=0x42, ssap=0x42, ctrl=3, snap=None, vlan=None, length=None)
      IEEE 802.3 length-field frame with an 802.2 LLC header; snap=(oui_bytes3, ethertype)
      makes it LLC/SNAP (dsap=ssap=0xAA, ctrl=3 forced).
  build_arp(op, sha, spa, tha, tpa, htype=1, ptype=0x0800, hlen=6, plen=4)   (28 bytes body)
  build_ipv4(src, dst, proto, payload, tos=0, ident=0, df=False, mf=False, frag=0, ttl=64,
             options=b"", checksum=None, total_len=None, version=4, ihl=None)
      `options` is padded with zeros to a multiple of 4; `frag` is in units of 8 bytes.
  build_tcp(src_ip, dst_ip, sport, dport, payload=b"", seq=0, ack=0, flags=0x02, window=8192,
            urg=0, options=b"", checksum=None)
  build_udp(src_ip, dst_ip, sport, dport, payload=b"", checksum=None, length=None)
      (a computed checksum of 0 is sent as 0xffff, RFC 768)
  build_icmp(type, code, payload=b"", rest=b"\\0\\0\\0\\0", checksum=None)
  echo(type=8, ident=0, seq=0, payload=b"")   -> ICMP echo request/reply body

Checksums
---------
  checksum(data, initial=0) -> int      RFC 1071 Internet checksum of `data` (complemented)
  ones_sum(data, initial=0) -> int      the un-complemented folded 16-bit one's complement sum
  pseudo_header(src_ip, dst_ip, proto, length) -> bytes     RFC 793 / 768 pseudo header
  l4_checksum(src_ip, dst_ip, proto, segment) -> int        checksum over pseudo header + segment
                                                            (checksum field inside `segment` must be 0)

Dissector
---------
  dissect(frame) -> dict.  Never raises on any bytes input.  Keys (present only when the
  layer is present and complete enough to read its fixed header):

    "len"        total number of bytes
    "eth"        {"dst","src": bytes6, "type": int (the 16-bit type/length field after the
                  addresses, i.e. 0x8100 for a tagged frame), "off": 0}
    "vlan"       list of {"pcp","cfi","vid","tci","type","off"} outermost first ("type" is the
                  16-bit field following the tag); absent when untagged
    "llc"        {"dsap","ssap","ctrl","off","length"}; present for 802.3 length frames (the control
                  field is read as one byte, i.e. U-format frames such as UI = 3)
    "snap"       {"oui": bytes3, "type": int, "off"}
    "ethertype"  effective EtherType after VLAN tags / SNAP (None for 802.3 without SNAP)
    "l3_off"     offset of the first byte after the link-layer headers
    "arp"        {"htype","ptype","hlen","plen","op","sha","spa","tha","tpa","off"}; spa/tpa are
                  ints and sha/tha bytes6 when hlen==6 and plen==4, else raw bytes
    "ipv4"       {"version","ihl","hlen","tos","dscp","ecn","total_len","id","flags","df","mf",
                  "frag","ttl","proto","checksum","src","dst","options": bytes,"off",
                  "checksum_ok": bool, "payload_off", "payload_len" (bounded by total_len and
                  by the bytes present)}
    "tcp"        {"sport","dport","seq","ack","doff","hlen","flags","window","checksum","urg",
                  "options","off","payload_off","checksum_ok"}
    "udp"        {"sport","dport","length","checksum","off","payload_off","checksum_ok"}
    "icmp"       {"type","code","checksum","rest": bytes4,"off","payload_off","checksum_ok"}
    "payload_off" offset of the innermost undissected payload
    "truncated"  name of the first layer that could not be read completely (else absent)
    "foff"       {"layer.field": (offset, length)} absolute byte positions of the fields above
                  that occupy whole bytes, e.g. foff["ipv4.src"] == (26, 4) for an untagged frame

  Transport headers are dissected only for the first fragment (fragment offset 0); with MF set
  and offset 0 they are still dissected (checksum_ok is then None: cannot be verified).
"""
import struct

ETH_IP = 0x0800
ETH_ARP = 0x0806
ETH_VLAN = 0x8100
ETH_IPV6 = 0x86dd
ETH_LLDP = 0x88cc
PROTO_ICMP = 1
PROTO_TCP = 6
PROTO_UDP = 17


# --------------------------------------------------------------------------- addresses

def mac(x):
  """6 raw bytes from bytes / 'aa:bb:cc:dd:ee:ff' / int."""
  if isinstance(x, (bytes, bytearray)):
    if len(x) != 6:
      raise ValueError("MAC needs 6 bytes")
    return bytes(x)
  if isinstance(x, int):
    return x.to_bytes(6, "big")
  parts = x.replace("-", ":").split(":")
  if len(parts) != 6:
    raise ValueError("bad MAC text %r" % (x,))
  return bytes(int(p, 16) for p in parts)


def mac_str(b):
  return ":".join("%02x" % c for c in b)


def ip(x):
  """Unsigned 32-bit int from int / 4 bytes / dotted text."""
  if isinstance(x, int):
    return x & 0xffffffff
  if isinstance(x, (bytes, bytearray)):
    if len(x) != 4:
      raise ValueError("IPv4 needs 4 bytes")
    return int.from_bytes(x, "big")
  parts = x.split(".")
  if len(parts) != 4:
    raise ValueError("bad IPv4 text %r" % (x,))
  v = 0
  for p in parts:
    n = int(p, 10)
    if not 0 <= n <= 255:
      raise ValueError("bad IPv4 text %r" % (x,))
    v = (v << 8) | n
  return v


def ip_bytes(x):
  return ip(x).to_bytes(4, "big")


def ip_str(x):
  x = ip(x)
  return "%d.%d.%d.%d" % (x >> 24, (x >> 16) & 255, (x >> 8) & 255, x & 255)


# --------------------------------------------------------------------------- RFC 1071

def ones_sum(data, initial=0):
  """Folded 16-bit one's complement sum of big-endian 16-bit words; an odd trailing byte is
  padded on the right with a zero byte (RFC 1071 section 4.1)."""
  s = initial
  n = len(data)
  i = 0
  while i + 1 < n:
    s += (data[i] << 8) | data[i + 1]
    i += 2
  if i < n:
    s += data[i] << 8
  while s >> 16:
    s = (s & 0xffff) + (s >> 16)      # end-around carry
  return s


def checksum(data, initial=0):
  return (~ones_sum(data, initial)) & 0xffff


_csum = checksum      # builders have a parameter called `checksum`


def pseudo_header(src_ip, dst_ip, proto, length):
  return ip_bytes(src_ip) + ip_bytes(dst_ip) + struct.pack("!BBH", 0, proto & 0xff, length & 0xffff)


def l4_checksum(src_ip, dst_ip, proto, segment):
  return checksum(pseudo_header(src_ip, dst_ip, proto, len(segment)) + bytes(segment))


# --------------------------------------------------------------------------- builders

def _tags(vlan):
  if vlan is None:
    return []
  if isinstance(vlan, (list, tuple)) and vlan and isinstance(vlan[0], (list, tuple)):
    return [tuple(v) for v in vlan]
  if isinstance(vlan, (list, tuple)) and len(vlan) == 0:
    return []
  return [tuple(vlan)]


def _tci(pcp, cfi, vid):
  return ((pcp & 7) << 13) | ((cfi & 1) << 12) | (vid & 0xfff)


def build_eth(dst, src, ethertype, payload=b"", vlan=None, pad=False):
  out = mac(dst) + mac(src)
  for (pcp, cfi, vid) in _tags(vlan):
    out += struct.pack("!HH", ETH_VLAN, _tci(pcp, cfi, vid))
  out += struct.pack("!H", ethertype & 0xffff) + bytes(payload)
  if pad and len(out) < 60:
    out += bytes(60 - len(out))
  return out


def build_8023(dst, src, payload=b"", dsap=0x42, ssap=0x42, ctrl=3, snap=None, vlan=None, length=None):
  if snap is not None:
    oui, et = snap
    body = bytes([0xaa, 0xaa, 3]) + bytes(oui)[:3].rjust(3, b"\0") + struct.pack("!H", et & 0xffff)
  else:
    body = bytes([dsap & 0xff, ssap & 0xff, ctrl & 0xff])
  body += bytes(payload)
  ln = len(body) if length is None else length
  out = mac(dst) + mac(src)
  for (pcp, cfi, vid) in _tags(vlan):
    out += struct.pack("!HH", ETH_VLAN, _tci(pcp, cfi, vid))
  return out + struct.pack("!H", ln & 0xffff) + body


def build_arp(op, sha, spa, tha, tpa, htype=1, ptype=ETH_IP, hlen=6, plen=4):
  return (struct.pack("!HHBBH", htype, ptype, hlen, plen, op & 0xffff)
          + mac(sha) + ip_bytes(spa) + mac(tha) + ip_bytes(tpa))


def build_ipv4(src, dst, proto, payload=b"", tos=0, ident=0, df=False, mf=False, frag=0, ttl=64,
               options=b"", checksum=None, total_len=None, version=4, ihl=None):
  options = bytes(options)
  if len(options) % 4:
    options += bytes(4 - len(options) % 4)
  hl = 20 + len(options)
  if ihl is None:
    ihl = hl // 4
  if total_len is None:
    total_len = hl + len(payload)
  ff = ((0x4000 if df else 0) | (0x2000 if mf else 0) | (frag & 0x1fff))
  def hdr(c):
    return (struct.pack("!BBHHHBBH", ((version & 15) << 4) | (ihl & 15), tos & 0xff, total_len & 0xffff,
                        ident & 0xffff, ff, ttl & 0xff, proto & 0xff, c)
            + ip_bytes(src) + ip_bytes(dst) + options)
  if checksum is None:
    checksum = _csum(hdr(0))
  return hdr(checksum & 0xffff) + bytes(payload)


def build_tcp(src_ip, dst_ip, sport, dport, payload=b"", seq=0, ack=0, flags=0x02, window=8192,
              urg=0, options=b"", checksum=None):
  options = bytes(options)
  if len(options) % 4:
    options += bytes(4 - len(options) % 4)
  doff = (20 + len(options)) // 4
  def seg(c):
    return (struct.pack("!HHLLHHHH", sport & 0xffff, dport & 0xffff, seq & 0xffffffff, ack & 0xffffffff,
                        ((doff & 15) << 12) | (flags & 0x1ff), window & 0xffff, c, urg & 0xffff)
            + options + bytes(payload))
  if checksum is None:
    checksum = l4_checksum(src_ip, dst_ip, PROTO_TCP, seg(0))
  return seg(checksum & 0xffff)


def build_udp(src_ip, dst_ip, sport, dport, payload=b"", checksum=None, length=None):
  ln = 8 + len(payload) if length is None else length
  def seg(c):
    return struct.pack("!HHHH", sport & 0xffff, dport & 0xffff, ln & 0xffff, c) + bytes(payload)
  if checksum is None:
    checksum = l4_checksum(src_ip, dst_ip, PROTO_UDP, seg(0))
    if checksum == 0:
      checksum = 0xffff
  return seg(checksum & 0xffff)


def build_icmp(type, code, payload=b"", rest=b"\0\0\0\0", checksum=None):
  rest = bytes(rest)[:4].ljust(4, b"\0")
  def msg(c):
    return struct.pack("!BBH", type & 0xff, code & 0xff, c) + rest + bytes(payload)
  if checksum is None:
    checksum = _csum(msg(0))
  return msg(checksum & 0xffff)


def echo(type=8, ident=0, seq=0, payload=b""):
  return build_icmp(type, 0, payload, rest=struct.pack("!HH", ident & 0xffff, seq & 0xffff))


# --------------------------------------------------------------------------- dissector

def dissect(frame):
  frame = bytes(frame)
  n = len(frame)
  d = {"len": n, "foff": {}}
  foff = d["foff"]
  if n < 14:
    d["truncated"] = "eth"
    return d
  t = (frame[12] << 8) | frame[13]
  d["eth"] = {"dst": frame[0:6], "src": frame[6:12], "type": t, "off": 0}
  foff["eth.dst"] = (0, 6)
  foff["eth.src"] = (6, 6)
  foff["eth.type"] = (12, 2)
  off = 14
  tags = []
  while t == ETH_VLAN:
    if n < off + 4:
      d["truncated"] = "vlan"
      if tags:
        d["vlan"] = tags
      return d
    tci = (frame[off] << 8) | frame[off + 1]
    t = (frame[off + 2] << 8) | frame[off + 3]
    k = len(tags)
    tags.append({"pcp": tci >> 13, "cfi": (tci >> 12) & 1, "vid": tci & 0xfff, "tci": tci,
                 "type": t, "off": off - 2})
    foff["vlan%d.tci" % k] = (off, 2)
    foff["vlan%d.type" % k] = (off + 2, 2)
    off += 4
  if tags:
    d["vlan"] = tags
  ethertype = t
  if t < 0x0600:
    # IEEE 802.3 length field followed by 802.2 LLC
    ethertype = None
    if n < off + 3:
      d["truncated"] = "llc"
      d["ethertype"] = None
      d["l3_off"] = off
      return d
    d["llc"] = {"dsap": frame[off], "ssap": frame[off + 1], "ctrl": frame[off + 2], "off": off, "length": t}
    foff["llc.dsap"] = (off, 1)
    foff["llc.ssap"] = (off + 1, 1)
    foff["llc.ctrl"] = (off + 2, 1)
    if frame[off] == 0xaa and frame[off + 1] == 0xaa and frame[off + 2] == 3:
      if n < off + 8:
        d["truncated"] = "snap"
        d["ethertype"] = None
        d["l3_off"] = off + 3
        return d
      st = (frame[off + 6] << 8) | frame[off + 7]
      d["snap"] = {"oui": frame[off + 3:off + 6], "type": st, "off": off + 3}
      foff["snap.oui"] = (off + 3, 3)
      foff["snap.type"] = (off + 6, 2)
      off += 8
      if frame[off - 5:off - 2] == b"\0\0\0":
        ethertype = st
    else:
      off += 3
  d["ethertype"] = ethertype
  d["l3_off"] = off
  d["payload_off"] = off
  if ethertype == ETH_ARP:
    _arp(frame, off, d)
  elif ethertype == ETH_IP:
    _ipv4(frame, off, d)
  return d


def _arp(frame, off, d):
  n = len(frame)
  foff = d["foff"]
  if n < off + 8:
    d["truncated"] = "arp"
    return
  htype, ptype, hlen, plen, op = struct.unpack_from("!HHBBH", frame, off)
  need = 8 + 2 * hlen + 2 * plen
  if n < off + need:
    d["truncated"] = "arp"
    return
  p = off + 8
  sha = frame[p:p + hlen]; p += hlen
  spa = frame[p:p + plen]; p += plen
  tha = frame[p:p + hlen]; p += hlen
  tpa = frame[p:p + plen]; p += plen
  a = {"htype": htype, "ptype": ptype, "hlen": hlen, "plen": plen, "op": op,
       "sha": sha, "spa": spa, "tha": tha, "tpa": tpa, "off": off}
  if plen == 4:
    a["spa"] = int.from_bytes(spa, "big")
    a["tpa"] = int.from_bytes(tpa, "big")
  foff["arp.op"] = (off + 6, 2)
  foff["arp.sha"] = (off + 8, hlen)
  foff["arp.spa"] = (off + 8 + hlen, plen)
  foff["arp.tha"] = (off + 8 + hlen + plen, hlen)
  foff["arp.tpa"] = (off + 8 + 2 * hlen + plen, plen)
  d["arp"] = a
  d["payload_off"] = p


def _ipv4(frame, off, d):
  n = len(frame)
  foff = d["foff"]
  if n < off + 20:
    d["truncated"] = "ipv4"
    return
  vihl, tos, tl, ident, ff, ttl, proto, csum = struct.unpack_from("!BBHHHBBH", frame, off)
  ihl = vihl & 15
  hlen = ihl * 4
  i = {"version": vihl >> 4, "ihl": ihl, "hlen": hlen, "tos": tos, "dscp": tos >> 2, "ecn": tos & 3,
       "total_len": tl, "id": ident, "flags": ff >> 13, "df": bool(ff & 0x4000), "mf": bool(ff & 0x2000),
       "frag": ff & 0x1fff, "ttl": ttl, "proto": proto, "checksum": csum,
       "src": int.from_bytes(frame[off + 12:off + 16], "big"),
       "dst": int.from_bytes(frame[off + 16:off + 20], "big"), "off": off, "options": b""}
  for name, o, l in (("tos", 1, 1), ("total_len", 2, 2), ("id", 4, 2), ("flags_frag", 6, 2), ("ttl", 8, 1),
                     ("proto", 9, 1), ("checksum", 10, 2), ("src", 12, 4), ("dst", 16, 4)):
    foff["ipv4." + name] = (off + o, l)
  d["ipv4"] = i
  if i["version"] != 4 or ihl < 5 or n < off + hlen:
    d["truncated"] = "ipv4"
    i["checksum_ok"] = None
    return
  i["options"] = frame[off + 20:off + hlen]
  i["checksum_ok"] = ones_sum(frame[off:off + hlen]) == 0xffff
  poff = off + hlen
  end = min(n, off + tl) if tl >= hlen else poff
  i["payload_off"] = poff
  i["payload_len"] = max(0, end - poff)
  d["payload_off"] = poff
  if i["frag"] != 0:
    return
  seg = frame[poff:end]
  whole = (not i["mf"]) and (off + tl <= n) and tl >= hlen
  if proto == PROTO_TCP:
    if len(seg) < 20:
      d["truncated"] = "tcp"
      return
    sport, dport, seq, ack, offfl, win, c, urg = struct.unpack_from("!HHLLHHHH", seg, 0)
    doff = offfl >> 12
    t = {"sport": sport, "dport": dport, "seq": seq, "ack": ack, "doff": doff, "hlen": doff * 4,
         "flags": offfl & 0x1ff, "window": win, "checksum": c, "urg": urg, "off": poff,
         "options": seg[20:doff * 4] if doff >= 5 else b"",
         "payload_off": poff + max(20, doff * 4),
         "checksum_ok": (ones_sum(pseudo_header(i["src"], i["dst"], proto, len(seg)) + seg) == 0xffff) if whole else None}
    for name, o, l in (("sport", 0, 2), ("dport", 2, 2), ("seq", 4, 4), ("ack", 8, 4), ("window", 14, 2),
                       ("checksum", 16, 2), ("urg", 18, 2)):
      foff["tcp." + name] = (poff + o, l)
    d["tcp"] = t
    d["payload_off"] = t["payload_off"]
  elif proto == PROTO_UDP:
    if len(seg) < 8:
      d["truncated"] = "udp"
      return
    sport, dport, ln, c = struct.unpack_from("!HHHH", seg, 0)
    ok = None
    if whole:
      if c == 0:
        ok = True                       # checksum not used (RFC 768)
      else:
        ok = ones_sum(pseudo_header(i["src"], i["dst"], proto, len(seg)) + seg) == 0xffff
    u = {"sport": sport, "dport": dport, "length": ln, "checksum": c, "off": poff,
         "payload_off": poff + 8, "checksum_ok": ok}
    for name, o, l in (("sport", 0, 2), ("dport", 2, 2), ("length", 4, 2), ("checksum", 6, 2)):
      foff["udp." + name] = (poff + o, l)
    d["udp"] = u
    d["payload_off"] = poff + 8
  elif proto == PROTO_ICMP:
    if len(seg) < 4:
      d["truncated"] = "icmp"
      return
    ic = {"type": seg[0], "code": seg[1], "checksum": (seg[2] << 8) | seg[3],
          "rest": seg[4:8], "off": poff, "payload_off": poff + min(8, len(seg)),
          "checksum_ok": (ones_sum(seg) == 0xffff) if whole else None}
    foff["icmp.type"] = (poff, 1)
    foff["icmp.code"] = (poff + 1, 1)
    foff["icmp.checksum"] = (poff + 2, 2)
    d["icmp"] = ic
    d["payload_off"] = ic["payload_off"]
