"""The OpenFlow 1.0 flow table as a state machine over a virtual clock (reference for C04).

Written from OpenFlow Switch Specification 1.0.0 section 4.6 "Flow Table Modification Messages",
section 3.2/3.3 (counters, timeouts), section 5.3.3 (ofp_flow_mod), 5.3.5 (flow / aggregate
statistics) and 5.4.2 (ofp_flow_removed).  Imports nothing from pox.

  t = RefTable(max_entries=None)
  t.flow_mod(now, fm) -> [expected message, ...]
        fm: dict(command, match (of10_match dict), priority, idle, hard, cookie, flags, out_port,
                 actions (bytes), xid)
  t.candidates(pkt) -> [entry, ...]     the matching entries of highest priority (any may win)
  t.touch(entry, nbytes, now)
  t.expiry(now) -> (must, may)           entries a sweep at `now` has to remove / may remove
                                         (timeout reached exactly: "no earlier than the timeout")
  t.remove_expired(now, entries) -> [expected flow_removed, ...]
  t.flow_stats(match, out_port, now) -> [expected flow stats entry, ...]
  t.aggregate(match, out_port) -> (packets, bytes, flows)

Expected messages are dicts: {"kind": "error", "xid", "etype", "codes": set|None, "optional": bool}
or {"kind": "flow_removed", "key", "match", "priority", "cookies": set, "reasons": set,
"duration": float, "idle_timeout", "packet_count", "byte_count"}.

Rules implemented (section 4.6):
  ADD      CHECK_OVERLAP: refuse (OFPFMFC_OVERLAP) when an existing entry of the same priority overlaps
           (a single packet may match both); between an exact-match and a wildcarded entry with equal
           priority fields either verdict is accepted (field or rank?), whatever other entries exist; else an entry with identical match and priority is
           replaced (counters cleared, no flow-removed); else inserted; ALL_TABLES_FULL when full.
           EMERG with a non-zero timeout: OFPFMFC_BAD_EMERG_TIMEOUT; other EMERG adds never touch the
           normal table (a switch without an emergency table answers with some FLOW_MOD_FAILED error).
  MODIFY   non-strict: every entry the description subsumes gets the new actions; strict: the entry
           with identical match and priority; counters and timers untouched; if none: acts as ADD.
           (Whether the cookie is updated is not specified in 1.0: both accepted.)
  DELETE   non-strict / strict as above, additionally filtered by out_port; every removed entry with
           SEND_FLOW_REM yields one flow-removed with reason DELETE.  out_port is ignored by ADD/MODIFY.
  timeout  idle: no packet for idle_timeout seconds; hard: hard_timeout seconds since insertion; a packet
           refreshes the idle clock only.
"""
import copy

from . import of10_match as M
from . import of10_tablemsgs as W

INF = 0x10001


class Entry(object):
  __slots__ = ("match", "canon", "priority", "actions", "idle", "hard", "cookies", "flags", "created",
               "touched", "packets", "bytes")

  def __init__(self, fm, now):
    self.match = fm["match"]
    self.canon = M.canon(fm["match"])
    self.priority = fm["priority"]
    self.actions = bytes(fm["actions"])
    self.idle = fm["idle"]
    self.hard = fm["hard"]
    self.cookies = {fm["cookie"]}
    self.flags = fm["flags"]
    self.created = now
    self.touched = now
    self.packets = 0
    self.bytes = 0

  @property
  def key(self):
    return (self.canon, self.priority)

  @property
  def effective_priority(self):
    return INF if M.is_exact(self.match) else self.priority

  def action_list(self):
    """[port | ("other", type)] in order"""
    return [a[1] if a[0] == "output" else ("other", a[1]) for a in W.parse_actions(self.actions)]

  def outputs_to(self, port):
    return any(a[0] == "output" and a[1] == port for a in W.parse_actions(self.actions))


class RefTable(object):
  def __init__(self, max_entries=None):
    self.entries = []
    self.max_entries = max_entries

  def by_key(self):
    return {e.key: e for e in self.entries}

  # ------------------------------------------------------------------ flow_mod
  def _select(self, fm, strict, use_out_port):
    out = []
    for e in self.entries:
      if strict:
        if not (e.canon == M.canon(fm["match"]) and e.priority == fm["priority"]):
          continue
      elif not M.subsumes(fm["match"], e.match):
        continue
      if use_out_port and fm["out_port"] != W.OFPP_NONE and not e.outputs_to(fm["out_port"]):
        continue
      out.append(e)
    return out

  def _add(self, now, fm, skip_overlap=False, refused=False):
    if fm["flags"] & W.OFPFF_EMERG:
      if fm["idle"] != 0 or fm["hard"] != 0:
        return [{"kind": "error", "xid": fm["xid"], "etype": W.OFPET_FLOW_MOD_FAILED,
                 "codes": {W.OFPFMFC_BAD_EMERG_TIMEOUT}, "optional": False}]
      return [{"kind": "error", "xid": fm["xid"], "etype": W.OFPET_FLOW_MOD_FAILED, "codes": None, "optional": True}]
    if (fm["flags"] & W.OFPFF_CHECK_OVERLAP) and not skip_overlap:
      new_exact = M.is_exact(fm["match"])
      unsettled = False
      for e in self.entries:
        if e.priority != fm["priority"] or not M.overlaps(e.match, fm["match"]):
          continue
        if M.is_exact(e.match) != new_exact:
          # an exact-match entry and a wildcarded one with equal priority FIELDS: the specification
          # does not say whether "the same priority" means the field or the rank (an exact entry
          # outranks everything): a refusal is accepted, and so is an installation
          unsettled = True
          continue
        if e.canon == M.canon(fm["match"]):
          how = "identical"
        elif M.subsumes(e.match, fm["match"]) or M.subsumes(fm["match"], e.match):
          how = "nested"
        else:
          how = "partial"
        return [{"kind": "error", "xid": fm["xid"], "etype": W.OFPET_FLOW_MOD_FAILED,
                 "codes": {W.OFPFMFC_OVERLAP}, "optional": False, "detail": how}]
      if unsettled and refused:
        return [{"kind": "error", "xid": fm["xid"], "etype": W.OFPET_FLOW_MOD_FAILED,
                 "codes": {W.OFPFMFC_OVERLAP}, "optional": False, "detail": "exact-vs-wildcard"}]
    new = Entry(fm, now)
    same = [e for e in self.entries if e.key == new.key]
    if not same and self.max_entries is not None and len(self.entries) >= self.max_entries:
      return [{"kind": "error", "xid": fm["xid"], "etype": W.OFPET_FLOW_MOD_FAILED,
               "codes": {W.OFPFMFC_ALL_TABLES_FULL}, "optional": False}]
    self.entries = [e for e in self.entries if e.key != new.key]
    self.entries.append(new)
    return []

  def flow_mod(self, now, fm, skip_overlap=False, refused=False):
    """skip_overlap: apply the command as if the overlap check had passed (used by a harness that has
    recorded a switch's failure to refuse and wants to keep following it).
    refused: the switch answered this command with OFPFMFC_OVERLAP; only consulted where the
    specification leaves the overlap verdict open (exact-match vs wildcarded entry with equal priority
    fields), so that the model follows the switch there."""
    cmd = fm["command"]
    if fm.get("bad_action"):
      # the action list contains a type the switch cannot execute: the flow_mod must be refused
      # (OFPET_BAD_ACTION/OFPBAC_BAD_TYPE, or OFPET_FLOW_MOD_FAILED/OFPFMFC_UNSUPPORTED) and change
      # nothing.  Which error wins when the command is also wrong for another reason is not specified.
      # DELETE carries no actions to validate: the switch may ignore them, or refuse (bad_refused).
      if cmd in (W.OFPFC_DELETE, W.OFPFC_DELETE_STRICT) and not fm.get("bad_refused"):
        pass
      else:
        alts = [(W.OFPET_BAD_ACTION, {W.OFPBAC_BAD_TYPE}), (W.OFPET_FLOW_MOD_FAILED, {W.OFPFMFC_UNSUPPORTED})]
        saved = copy.deepcopy(self.entries)
        plain = dict(fm)
        plain["bad_action"] = False
        for x in self.flow_mod(now, plain, skip_overlap, refused):
          if x["kind"] == "error":
            alts.append((x["etype"], x["codes"]))
        self.entries = saved
        return [{"kind": "error", "xid": fm["xid"], "etype": alts[0][0], "codes": alts[0][1], "alts": alts,
                 "optional": False, "detail": "bad-action"}]
    if cmd == W.OFPFC_ADD:
      return self._add(now, fm, skip_overlap, refused)
    if cmd in (W.OFPFC_MODIFY, W.OFPFC_MODIFY_STRICT):
      hit = self._select(fm, cmd == W.OFPFC_MODIFY_STRICT, False)
      if not hit:
        return self._add(now, fm, skip_overlap, refused)
      for e in hit:
        e.actions = bytes(fm["actions"])
        e.cookies = e.cookies | {fm["cookie"]}
      return []
    if cmd in (W.OFPFC_DELETE, W.OFPFC_DELETE_STRICT):
      hit = self._select(fm, cmd == W.OFPFC_DELETE_STRICT, True)
      return self._remove(hit, now, {W.OFPRR_DELETE})
    raise ValueError("unknown flow_mod command %r" % (cmd,))

  def _remove(self, hit, now, reasons, reason_of=None):
    msgs = []
    gone = set(id(e) for e in hit)
    for e in hit:
      if (e.flags & W.OFPFF_SEND_FLOW_REM) and not (e.flags & W.OFPFF_EMERG):
        msgs.append({"kind": "flow_removed", "key": e.key, "match": e.match, "priority": e.priority,
                     "cookies": set(e.cookies), "reasons": set(reason_of(e)) if reason_of else set(reasons),
                     "duration": now - e.created, "idle_timeout": e.idle,
                     "packet_count": e.packets, "byte_count": e.bytes})
    self.entries = [e for e in self.entries if id(e) not in gone]
    return msgs

  # ------------------------------------------------------------------ packets
  def candidates(self, pkt):
    hit = [e for e in self.entries if M.matches(e.match, pkt)]
    if not hit:
      return []
    top = max(e.effective_priority for e in hit)
    return [e for e in hit if e.effective_priority == top]

  def touch(self, entry, nbytes, now):
    entry.packets += 1
    entry.bytes += nbytes
    entry.touched = now

  # ------------------------------------------------------------------ timeouts
  @staticmethod
  def _reasons(e, now, strict):
    r = set()
    if e.idle > 0 and ((now - e.touched > e.idle) if strict else (now - e.touched >= e.idle)):
      r.add(W.OFPRR_IDLE_TIMEOUT)
    if e.hard > 0 and ((now - e.created > e.hard) if strict else (now - e.created >= e.hard)):
      r.add(W.OFPRR_HARD_TIMEOUT)
    return r

  def expiry(self, now):
    must = [e for e in self.entries if self._reasons(e, now, True)]
    may = [e for e in self.entries if not self._reasons(e, now, True) and self._reasons(e, now, False)]
    return must, may

  def remove_expired(self, now, entries):
    return self._remove(entries, now, None, reason_of=lambda e: self._reasons(e, now, False))

  # ------------------------------------------------------------------ statistics
  def _stats_select(self, match, out_port):
    return [e for e in self.entries if M.subsumes(match, e.match) and
            (out_port == W.OFPP_NONE or e.outputs_to(out_port))]

  def flow_stats(self, match, out_port, now):
    return [{"key": e.key, "priority": e.priority, "idle_timeout": e.idle, "hard_timeout": e.hard,
             "cookies": set(e.cookies), "packet_count": e.packets, "byte_count": e.bytes,
             "duration": now - e.created, "actions": W.parse_actions(e.actions)}
            for e in self._stats_select(match, out_port)]

  def aggregate(self, match, out_port):
    sel = self._stats_select(match, out_port)
    return sum(e.packets for e in sel), sum(e.bytes for e in sel), len(sel)


def split_duration(d):
  """seconds (dyadic float) -> (duration_sec, duration_nsec)"""
  sec = int(d)
  return sec, int(round((d - sec) * 1e9))
