import sys
from pvf.runner import main
sys.exit(main())
