"""pvf runner: ./check <ID> [quick|thorough] [--replay FILE] [--collect N] [--jobs N]

Exit codes: 0 property held on everything explored (KNOWN-FINDING lines allowed),
            1 with "VIOLATION property=<id> replay=<path>" for an unlisted violation,
            2 harness error (never prints VIOLATION).

A property module (pvf/props/cNN.py) provides
  ID, LEVEL, TECHNIQUE, RULE, ASSUMPTIONS
  setup()                      -- idempotent per-process initialisation
  run_case(case) -> Outcome    -- pure function of the case and the code under test
  plan(tier) -> [Enum|Hyp|Custom]
"""
import argparse
import collections
import hashlib
import importlib
import json
import multiprocessing as mp
import os
import sys
import time
import traceback

from . import case as casemod

VERIF_DIR = os.path.dirname(os.path.dirname(os.path.abspath(__file__)))
REPO_ROOT = os.path.realpath(os.environ.get("VERIF_REPO_ROOT", "/repo"))
if REPO_ROOT not in sys.path:
  sys.path.insert(0, REPO_ROOT)
os.environ.setdefault("NOXREPO_POX_VERIF", "1")


class HarnessError(Exception):
  """The harness itself is wrong or could not run; never a verdict about POX."""


class Outcome(object):
  __slots__ = ("violations", "nontrivial", "labels", "info")

  def __init__(self):
    self.violations = []
    self.nontrivial = False
    self.labels = []
    self.info = None

  def fail(self, clause, msg, **key):
    k = {"clause": clause}
    k.update(key)
    self.violations.append({"key": k, "msg": str(msg)[:2000]})
    return self

  def label(self, *labels):
    self.labels.extend(labels)
    return self


class Enum(object):
  """Exhaustive enumeration of a finite sub-space.  gen() yields cases."""
  def __init__(self, name, gen, shards=16, budget_s=None, exhaustive=True):
    self.name, self.gen, self.shards = name, gen, shards
    self.budget_s, self.exhaustive = budget_s, exhaustive


class Hyp(object):
  """Hypothesis-generated cases.  strategy() returns a strategy of cases."""
  def __init__(self, name, strategy, examples, shards=8, max_shrink_s=40):
    self.name, self.strategy, self.examples = name, strategy, examples
    self.shards, self.max_shrink_s = shards, max_shrink_s


class Custom(object):
  """fn(ctx) does whatever it wants with ctx.execute(case)."""
  def __init__(self, name, fn, shards=1):
    self.name, self.fn, self.shards = name, fn, shards


# ---------------------------------------------------------------------------
# exception triage

def innermost_frames(exc):
  tb = exc.__traceback__
  frames = []
  while tb is not None:
    co = tb.tb_frame.f_code
    frames.append((os.path.realpath(co.co_filename), co.co_name, tb.tb_lineno))
    tb = tb.tb_next
  return frames


def repo_frame(exc):
  """(relative file, function) of the innermost frame if it lies inside the
  repository under test, else None."""
  frames = innermost_frames(exc)
  if not frames:
    return None
  fn, func, _ = frames[-1]
  if fn.startswith(REPO_ROOT + os.sep):
    return os.path.relpath(fn, REPO_ROOT), func
  return None


def innermost_repo_frame(exc):
  """Innermost frame that lies inside the repository, even if deeper frames
  are in the standard library (struct.error raised inside struct.pack etc.)."""
  for fn, func, _ in reversed(innermost_frames(exc)):
    if fn.startswith(REPO_ROOT + os.sep):
      return os.path.relpath(fn, REPO_ROOT), func
  return None


def exc_key(exc, clause="unexpected-exception", **extra):
  fr = innermost_repo_frame(exc)
  k = {"clause": clause, "exc": type(exc).__name__,
       "where": ("%s:%s" % fr) if fr else "?"}
  k.update(extra)
  return k


def exc_is_from_harness(exc):
  """True when no frame of the repository is deeper than the deepest pvf frame."""
  frames = innermost_frames(exc)
  last_repo = last_pvf = -1
  for i, (fn, _, _) in enumerate(frames):
    if fn.startswith(REPO_ROOT + os.sep):
      last_repo = i
    elif fn.startswith(VERIF_DIR + os.sep):
      last_pvf = i
  return last_repo < last_pvf or last_repo < 0


# ---------------------------------------------------------------------------
# known findings

class Findings(object):
  def __init__(self, prop):
    self.prop = prop
    self.open = []
    self.fixed = []
    path = os.path.join(VERIF_DIR, "known_findings.json")
    if os.path.exists(path):
      with open(path) as f:
        data = json.load(f)
      for e in data.get("findings", []):
        if e.get("property") != prop:
          continue
        if e.get("status") == "open":
          self.open.append(e)
        else:
          self.fixed.append(e)
    self.session = []   # keys excluded for this session only (--collect)

  @staticmethod
  def _match(pattern, key):
    for k, v in pattern.items():
      if key.get(k) != v:
        return False
    return True

  def match_open(self, key):
    for e in self.open:
      if self._match(e["key"], key):
        return e["id"]
    return None

  def match_session(self, key):
    for p in self.session:
      if self._match(p, key):
        return True
    return False


# ---------------------------------------------------------------------------
# statistics

class Stats(object):
  MAX_VIOL = 40

  def __init__(self):
    self.evaluations = 0
    self.nontrivial = set()
    self.labels = collections.Counter()
    self.first_samples = []
    self.low_samples = []     # (digest, case) with the smallest digests
    self.known_hits = collections.Counter()
    self.violations = []      # {"case","key","msg","driver"}
    self._vkeys = set()
    self.per_driver = collections.Counter()
    self.notes = []
    self.harness_errors = []
    self.completed = collections.Counter()   # driver -> shards completed
    self.budget_hit = []

  def note_case(self, case, out):
    self.evaluations += 1
    for l in out.labels:
      self.labels[l] += 1
    if out.nontrivial:
      d = casemod.digest(case)
      if d not in self.nontrivial:
        self.nontrivial.add(d)
        self.labels["nontrivial_distinct"] += 1
        if len(self.first_samples) < 3:
          self.first_samples.append(casemod.short(case))
        if len(self.low_samples) < 3 or d < self.low_samples[-1][0]:
          self.low_samples.append((d, casemod.short(case)))
          self.low_samples.sort(key=lambda t: t[0])
          del self.low_samples[3:]

  def add_violation(self, case, v, driver):
    ks = json.dumps(v["key"], sort_keys=True)
    if ks in self._vkeys or len(self.violations) >= self.MAX_VIOL:
      return
    self._vkeys.add(ks)
    self.violations.append({"case": casemod.to_jsonable(case), "key": v["key"],
                            "msg": v["msg"], "driver": driver})

  def merge(self, o):
    self.evaluations += o.evaluations
    self.nontrivial |= o.nontrivial
    self.labels.update(o.labels)
    for s in o.first_samples:
      if len(self.first_samples) < 3:
        self.first_samples.append(s)
    self.low_samples = sorted(self.low_samples + o.low_samples, key=lambda t: t[0])[:3]
    self.known_hits.update(o.known_hits)
    for v in o.violations:
      ks = json.dumps(v["key"], sort_keys=True)
      if ks not in self._vkeys and len(self.violations) < self.MAX_VIOL:
        self._vkeys.add(ks)
        self.violations.append(v)
    self.per_driver.update(o.per_driver)
    self.notes.extend(o.notes)
    self.harness_errors.extend(o.harness_errors)
    self.completed.update(o.completed)
    self.budget_hit.extend(o.budget_hit)


class Ctx(object):
  """What a driver sees while it runs inside one worker process."""
  def __init__(self, mod, tier, seed, findings, shard=0, nshards=1, driver="?"):
    self.mod, self.tier, self.seed, self.findings = mod, tier, seed, findings
    self.shard, self.nshards, self.driver = shard, nshards, driver
    self.stats = Stats()

  def subseed(self, *parts):
    h = hashlib.sha256(repr((self.seed, self.driver, self.shard) + parts).encode()).digest()
    return int.from_bytes(h[:8], "big")

  def execute(self, case):
    """Run one case; returns the list of violations that are not known."""
    try:
      out = self.mod.run_case(case)
    except HarnessError:
      raise
    except (KeyboardInterrupt, SystemExit):
      raise
    except BaseException as e:
      if exc_is_from_harness(e):
        raise HarnessError("harness exception in run_case on case %s:\n%s" % (
            casemod.dumps(casemod.short(case)), "".join(traceback.format_exception(e)))) from e
      out = Outcome()
      out.violations.append({"key": exc_key(e), "msg": "exception escaped the operation: %r\n%s" % (
          e, "".join(traceback.format_exception(e))[-1500:])})
    self.stats.per_driver[self.driver] += 1
    self.stats.note_case(case, out)
    new = []
    for v in out.violations:
      fid = self.findings.match_open(v["key"])
      if fid is not None:
        self.stats.known_hits[fid] += 1
        continue
      if self.findings.match_session(v["key"]):
        self.stats.known_hits["session-excluded"] += 1
        continue
      new.append(v)
    return new


class _PropertyViolation(Exception):
  pass


def _derive(seed, *parts):
  h = hashlib.sha256(repr((seed,) + parts).encode()).digest()
  return int.from_bytes(h[:8], "big")


def _run_enum(ctx, drv):
  t0 = time.time()
  n = 0
  if getattr(drv.gen, "sharded", False):
    it = ((ctx.shard, c) for c in drv.gen(ctx.shard, ctx.nshards))    # the generator shards itself
  else:
    it = enumerate(drv.gen())
  for i, c in it:
    if i % ctx.nshards != ctx.shard:
      continue
    new = ctx.execute(c)
    for v in new:
      ctx.stats.add_violation(c, v, drv.name)
    n += 1
    if drv.budget_s is not None and (n & 63) == 0 and time.time() - t0 > drv.budget_s:
      ctx.stats.budget_hit.append("%s shard %d stopped by budget after %d cases" % (drv.name, ctx.shard, n))
      return
  ctx.stats.completed[drv.name] += 1


def _run_hyp(ctx, drv):
  import hypothesis
  from hypothesis import given, settings, Phase, HealthCheck
  import hypothesis.internal.conjecture.engine as engine
  engine.MAX_SHRINKING_SECONDS = drv.max_shrink_s
  examples = drv.examples
  per = max(1, examples // ctx.nshards)
  last = {}

  @hypothesis.seed(_derive(ctx.seed, drv.name, ctx.shard))
  @settings(max_examples=per, database=None, deadline=None, derandomize=False,
            report_multiple_bugs=False, phases=[Phase.generate, Phase.shrink],
            suppress_health_check=[HealthCheck.too_slow, HealthCheck.data_too_large,
                                   HealthCheck.large_base_example],
            verbosity=hypothesis.Verbosity.quiet)
  @given(drv.strategy())
  def t(c):
    new = ctx.execute(c)
    if new:
      last["case"], last["v"] = c, new[0]
      raise _PropertyViolation(json.dumps(new[0]["key"], sort_keys=True))

  try:
    t()
  except _PropertyViolation:
    ctx.stats.add_violation(last["case"], last["v"], drv.name)
  except hypothesis.errors.FlakyFailure as e:
    if "case" in last:
      ctx.stats.notes.append("hypothesis reported flaky behaviour while shrinking (%s); keeping the last failing case" % type(e).__name__)
      ctx.stats.add_violation(last["case"], last["v"], drv.name)
    else:
      raise HarnessError("hypothesis Flaky without a failing case: %r" % (e,))
  except hypothesis.errors.HypothesisException as e:
    if isinstance(getattr(e, "__cause__", None), HarnessError):
      raise e.__cause__
    raise HarnessError("hypothesis error in driver %s: %s: %s" % (drv.name, type(e).__name__, e))
  ctx.stats.completed[drv.name] += 1


def _job(args):
  (modname, tier, seed, didx, shard, nshards, session) = args
  mod = importlib.import_module(modname)
  findings = Findings(mod.ID)
  findings.session = session
  drv = _plan(mod, tier)[didx]
  ctx = Ctx(mod, tier, seed, findings, shard, nshards, drv.name)
  try:
    if hasattr(mod, "setup"):
      mod.setup()
    if isinstance(drv, Enum):
      _run_enum(ctx, drv)
    elif isinstance(drv, Hyp):
      _run_hyp(ctx, drv)
    else:
      drv.fn(ctx)
      ctx.stats.completed[drv.name] += 1
  except HarnessError as e:
    ctx.stats.harness_errors.append("%s[%d]: %s" % (drv.name, shard, e))
  except BaseException as e:
    ctx.stats.harness_errors.append("%s[%d]: %s" % (drv.name, shard, "".join(traceback.format_exception(e))))
  return ctx.stats


_PLAN_CACHE = {}


def _plan(mod, tier):
  k = (mod.__name__, tier)
  if k not in _PLAN_CACHE:
    _PLAN_CACHE[k] = mod.plan(tier)
  return _PLAN_CACHE[k]


def _replay_cases(prop):
  d = os.path.join(VERIF_DIR, "replays", prop)
  out = []
  if os.path.isdir(d):
    for fn in sorted(os.listdir(d)):
      if fn.endswith(".json"):
        with open(os.path.join(d, fn)) as f:
          j = json.load(f)
        out.append((fn, casemod.from_jsonable(j["case"] if isinstance(j, dict) and "case" in j else j)))
  return out


def _replay_job(args):
  modname, tier, seed = args
  mod = importlib.import_module(modname)
  findings = Findings(mod.ID)
  ctx = Ctx(mod, tier, seed, findings, 0, 1, "replays")
  try:
    if hasattr(mod, "setup"):
      mod.setup()
    for fn, c in _replay_cases(mod.ID):
      for v in ctx.execute(c):
        ctx.stats.add_violation(c, v, "replays/" + fn)
    ctx.stats.completed["replays"] += 1
  except HarnessError as e:
    ctx.stats.harness_errors.append("replays: %s" % (e,))
  except BaseException as e:
    ctx.stats.harness_errors.append("replays: %s" % ("".join(traceback.format_exception(e)),))
  return ctx.stats


def write_evidence(mod, tier, seed, stats, wall, exhaustive, plan_desc, findings):
  evdir = os.environ.get("VERIF_EVIDENCE_DIR") or os.path.join(VERIF_DIR, "evidence")
  os.makedirs(evdir, exist_ok=True)
  samples = list(stats.first_samples)
  for d, s in stats.low_samples:
    if s not in samples:
      samples.append(s)
  cov = {
    "evaluations": stats.evaluations,
    "distinct_nontrivial": len(stats.nontrivial),
    "rule": mod.RULE,
    "samples": samples,
    "classes": dict(sorted(stats.labels.items())),
    "per_driver": dict(sorted(stats.per_driver.items())),
    "drivers": plan_desc,
    "known_finding_hits": dict(sorted(stats.known_hits.items())),
    "open_known_findings": [e["id"] for e in findings.open],
    "budget_hit": stats.budget_hit,
    "notes": stats.notes,
  }
  if exhaustive is not None:
    cov["exhaustive"] = bool(exhaustive) and not stats.budget_hit
    cov["exhaustive_scope"] = getattr(mod, "EXHAUSTIVE_SCOPE", {}).get(tier, "the Enum drivers listed under 'drivers' ran to completion")
  ev = {
    "property_id": mod.ID, "tier": tier, "seed": seed, "level": mod.LEVEL,
    "coverage": cov, "assumptions": list(getattr(mod, "ASSUMPTIONS", [])),
    "wall_s": round(wall, 2), "violations": len(stats.violations),
    "technique": getattr(mod, "TECHNIQUE", ""),
    "repo_root": REPO_ROOT,
  }
  path = os.path.join(evdir, "%s.json" % mod.ID)
  tmp = path + ".tmp"
  with open(tmp, "w") as f:
    json.dump(ev, f, indent=1, sort_keys=True)
    f.write("\n")
  os.replace(tmp, path)
  return path


def _child_main(fn, arg, conn):
  try:
    res = fn(arg)
  except BaseException as e:      # the job functions catch what they can judge; anything else is a harness error
    res = Stats()
    res.harness_errors.append("worker failed: %r\n%s" % (e, traceback.format_exc()[-1500:]))
  try:
    conn.send(res)
  finally:
    conn.close()


def _run_processes(ctxm, calls, nproc, limit):
  """One fresh (forked) process per job, at most nproc at a time; results in job order.
  Unlike multiprocessing.Pool this notices a worker that dies without delivering a result (killed from outside, out of
  memory): the job is run once more, and a second death is a harness error -- never a silent wait."""
  import multiprocessing.connection as mpc
  results = [None] * len(calls)
  pending = [(i, 0) for i in range(len(calls))]
  running = {}            # index -> (process, read end, start time, attempt)
  while pending or running:
    while pending and len(running) < nproc:
      i, attempt = pending.pop(0)
      r, w = ctxm.Pipe(duplex=False)
      pr = ctxm.Process(target=_child_main, args=(calls[i][0], calls[i][1], w))
      pr.daemon = False
      pr.start()
      w.close()
      running[i] = (pr, r, time.time(), attempt)
    mpc.wait([v[1] for v in running.values()] + [v[0].sentinel for v in running.values()], timeout=1.0)
    for i, (pr, r, t0, attempt) in list(running.items()):
      got = False
      if r.poll():
        try:
          results[i] = r.recv()
          got = True
        except (EOFError, OSError):
          got = False
      if got:
        r.close()
        pr.join()
        del running[i]
      elif not pr.is_alive():
        r.close()
        pr.join()
        del running[i]
        if attempt == 0:
          pending.append((i, 1))
        else:
          s = Stats()
          s.harness_errors.append("a worker process died twice without a result (exit code %r)" % (pr.exitcode,))
          results[i] = s
      elif time.time() - t0 > limit:
        pr.kill()
        pr.join()
        r.close()
        del running[i]
        s = Stats()
        s.harness_errors.append("a worker did not finish within %.0f s" % limit)
        results[i] = s
  return results



def main(argv=None):
  ap = argparse.ArgumentParser()
  ap.add_argument("prop")
  ap.add_argument("tier", nargs="?", default=None, choices=["quick", "thorough"])
  ap.add_argument("--tier", dest="tier2", default=None, choices=["quick", "thorough"])
  ap.add_argument("--replay", default=None)
  ap.add_argument("--collect", type=int, default=0, help="re-run generated drivers up to N times, excluding root causes already found")
  ap.add_argument("--jobs", type=int, default=int(os.environ.get("VERIF_JOBS", "16")))
  ap.add_argument("--only", default=None, help="run only drivers whose name contains this")
  a = ap.parse_args(argv)
  tier = a.tier or a.tier2 or os.environ.get("VERIF_TIER") or "quick"
  if tier not in ("quick", "thorough"):
    tier = "quick"
  try:
    seed = int(os.environ.get("VERIF_SEED", "1"))
  except ValueError:
    seed = 1
  prop = a.prop.upper()
  modname = "pvf.props.%s" % prop.lower()
  t0 = time.time()
  try:
    mod = importlib.import_module(modname)
  except BaseException:
    traceback.print_exc()
    print("HARNESS-ERROR property=%s cannot import %s" % (prop, modname))
    return 2
  findings = Findings(mod.ID)

  if a.replay:
    return _do_replay(mod, a.replay, findings)

  plan = _plan(mod, tier)
  if a.only:
    plan_idx = [i for i, d in enumerate(plan) if a.only in d.name]
  else:
    plan_idx = list(range(len(plan)))
  total = Stats()
  ctxm = mp.get_context("fork")
  rounds = 0
  session = []
  while True:
    jobs = []
    for i in plan_idx:
      d = plan[i]
      if rounds > 0 and not isinstance(d, Hyp):
        continue
      n = max(1, min(d.shards, a.jobs if not isinstance(d, Custom) else d.shards))
      for s in range(n):
        jobs.append((modname, tier, seed, i, s, n, session))
    results = []
    calls = []
    if rounds == 0 and not a.only:
      calls.append((_replay_job, (modname, tier, seed)))
    for j in jobs:
      calls.append((_job, j))
    limit = float(os.environ.get("VERIF_JOB_TIMEOUT", "14400"))
    results = _run_processes(ctxm, calls, max(1, min(a.jobs, len(calls))), limit)
    before = len(total.violations)
    for s in results:
      total.merge(s)
    rounds += 1
    newkeys = [v["key"] for v in total.violations[before:]]
    if rounds > a.collect or not newkeys:
      break
    session = session + newkeys

  wall = time.time() - t0
  enum_drivers = [plan[i] for i in plan_idx if isinstance(plan[i], Enum) and plan[i].exhaustive]
  exhaustive = None
  if enum_drivers:
    exhaustive = all(total.completed[d.name] >= max(1, min(d.shards, a.jobs)) for d in enum_drivers)
  plan_desc = []
  for i in plan_idx:
    d = plan[i]
    plan_desc.append({"name": d.name, "kind": type(d).__name__,
                      "examples": getattr(d, "examples", None),
                      "cases_run": total.per_driver.get(d.name, 0)})
  evpath = write_evidence(mod, tier, seed, total, wall, exhaustive, plan_desc, findings)

  for e in findings.open:
    print("KNOWN-FINDING: property=%s %s [id=%s hits=%d]" % (mod.ID, e["what"], e["id"], total.known_hits.get(e["id"], 0)))
  print("%s tier=%s seed=%d evaluations=%d distinct_nontrivial=%d violations=%d wall=%.1fs evidence=%s" % (
      mod.ID, tier, seed, total.evaluations, len(total.nontrivial), len(total.violations), wall, evpath))
  for n in total.budget_hit:
    print("NOTE budget: " + n)
  if total.harness_errors:
    for h in total.harness_errors[:5]:
      print("HARNESS-ERROR property=%s %s" % (mod.ID, h))
    if not total.violations:
      return 2
  if total.violations:
    os.makedirs(os.path.join(VERIF_DIR, "out", "replay"), exist_ok=True)
    for v in total.violations:
      p = os.path.join(VERIF_DIR, "out", "replay", "%s-%s.json" % (mod.ID, hashlib.sha1(
          (json.dumps(v["case"], sort_keys=True) + json.dumps(v["key"], sort_keys=True)).encode()).hexdigest()[:12]))
      with open(p, "w") as f:
        json.dump({"property": mod.ID, "case": v["case"], "key": v["key"], "msg": v["msg"],
                   "driver": v["driver"], "seed": seed, "tier": tier}, f, indent=1, sort_keys=True)
      print("VIOLATION property=%s replay=%s" % (mod.ID, p))
      print("  key=%s" % json.dumps(v["key"], sort_keys=True))
      print("  driver=%s msg=%s" % (v["driver"], v["msg"].strip().replace("\n", "\n    ")[:1200]))
    return 1
  if len(total.nontrivial) < 2 and not a.only:
    print("HARNESS-ERROR property=%s fewer than 2 distinct non-trivial cases: generator is vacuous" % mod.ID)
    return 2
  return 0


def _do_replay(mod, path, findings):
  with open(path) as f:
    j = json.load(f)
  c = casemod.from_jsonable(j["case"] if isinstance(j, dict) and "case" in j else j)
  if hasattr(mod, "setup"):
    mod.setup()
  ctx = Ctx(mod, "quick", 0, findings, 0, 1, "replay")
  # show everything, known or not
  try:
    out = mod.run_case(c)
    vs = out.violations
  except HarnessError:
    traceback.print_exc()
    return 2
  except BaseException as e:
    if exc_is_from_harness(e):
      traceback.print_exc()
      return 2
    vs = [{"key": exc_key(e), "msg": "".join(traceback.format_exception(e))}]
  rc = 0
  for v in vs:
    fid = findings.match_open(v["key"])
    if fid:
      print("KNOWN-FINDING: property=%s [id=%s] key=%s" % (mod.ID, fid, json.dumps(v["key"], sort_keys=True)))
    else:
      rc = 1
      print("VIOLATION property=%s replay=%s" % (mod.ID, os.path.abspath(path)))
      print("  key=%s" % json.dumps(v["key"], sort_keys=True))
    print("  msg=%s" % v["msg"].strip().replace("\n", "\n    "))
  if not vs:
    print("%s replay %s: no violation" % (mod.ID, path))
  return rc


if __name__ == "__main__":
  sys.exit(main())
