"""C15 -- parsing untrusted frames never fails.

Inputs: a corpus of valid frames for every parser (built by the independent reference builder in
pvf/ref/pktdissect.py, never by POX), every truncation and five single-byte corruptions at every offset
(exhaustive), structure-aware mutations located by the reference dissector, splices and random bytes.

Oracle (from the property text): PacketIn(con, ofp).parsed returns; the .next chain terminates in bytes or
None; every layer exposes a boolean `parsed`; where parsing stopped the remainder is still there as bytes
taken from the input; str(), dump() and pack() of the result return; the read-only use packet-in handlers of the
repository make of a parse result (every public property of every layer, among them effective_ethertype; find() by
name and class; addresses; ofp_match.from_packet) returns ("cannot make an event handler fail").
Exception keys of the phases behind the parse carry the reference dissector's verdict on the input ("ref"), so that
"well-formed content cannot be written back" and "a malformed structure was accepted" are different root causes.
"""
import itertools

from hypothesis import strategies as st

from ..runner import Outcome, Enum, Hyp, HarnessError, exc_key
from ..ref import pktdissect as P

ID = "C15"
LEVEL = "fault_enumeration"
TECHNIQUE = ("exhaustive single-fault enumeration (every truncation, 5-value corruption of every byte) over a reference-built corpus of every "
             "protocol, plus Hypothesis structure-aware mutation (dissector-located fields, checksum repair, splices) and random bytes; every "
             "parse result is walked, printed, re-serialised and read the way the stock packet-in handlers read it")
LEVEL_TEXT = ("Fault enumeration: for a fixed corpus of valid frames covering every parser, every truncation length and every single-byte "
              "corruption with the values {0, 0xff, b^1, b^0x80, b+1} is executed (thorough: all 256 values on header bytes); beyond one fault "
              "the space is sampled with structure-aware Hypothesis mutation. Totality over all byte strings is not established.")
LEVEL_NOTE = "the corpus is built by an independent reference builder; frames longer than the corpus frames and multi-fault inputs are only sampled"
RULE = ("a case is one byte string offered as an Ethernet frame inside a packet-in; non-trivial when its link-layer header selects a POX parser "
        "below Ethernet (ethertype in POX's table or an 802.3 length) and it differs from every corpus frame; distinct by SHA-1 of the bytes")
ASSUMPTIONS = [
  "a packet-in handler does at most: event.parsed, walk .next, read .parsed, str()/dump() for logging, pack() for re-emission, and read-only "
  "access in the style of the stock components (public properties of the layer classes, find(), Ethernet addresses, ofp_match.from_packet); "
  "option / TLV objects inside a layer are not exercised beyond what str() and pack() of the layer do",
  "the number of layers is bounded by len(frame)//4 + 8 (nested encapsulations such as MPLS/GRE legitimately produce deep chains)",
  "an unparsed last layer must still hold the remainder as bytes in .raw or .next; byte-exact re-serialisation is not demanded here (C14)",
]
EXHAUSTIVE_SCOPE = {
  "quick": "reference corpus (one frame per protocol/message kind with a 6- and a 7-byte payload, ten of them also with 41 bytes, eleven with none): each frame itself, every truncation length, and the "
           "values {0, 0xff, b^1, b^0x80, b+1} at every byte offset; each of these faults once as is and once followed by a repair of all "
           "checksums the reference dissector locates; every option/TLV/record slot the dissector locates (TCP and IPv4 options, "
           "DHCP options, LLDP TLVs, ND options, IPv6 extension headers, IGMPv3 records, GRE source route entries) rewritten to every kind "
           "POX parses (plus an unknown one) x length {0,1,2,3,exact,exact+1,max}, also with the input ending at the slot; every "
           "demultiplexing field set to every value that selects a POX parser; every length / count field (EAP length, EAPOL body length, IPv4 total length "
           "and IHL, UDP length, TCP data offset, IPv6 payload length and extension header lengths, ARP address lengths, DNS counts and rdlength, IGMPv3 "
           "counts, GRE offset, 802.3 length) set to {0, 1, header size-1, header size, header size+1, exact-1, exact+1, exact+2, max}, each also "
           "followed by 1, 2 and 46 padding octets; option slots additionally with lengths exact-8/-4/-2/+2/+4 and, for MPTCP DSS, every flag "
           "combination with the lengths RFC 6824 implies (with and without checksum); every LLC header with DSAP x SSAP x control format (SNAP / other "
           "SAPs, U-/I-/S-format) cut at each of its first ten octets; the text-bearing fields (DNS labels/TXT, LLDP strings, DHCP string options, "
           "sname/file, EAP identity) filled with valid 2-/3-/4-byte UTF-8 sequences and with malformed UTF-8; TCP option areas against the header / "
           "payload boundary: data offset {6,7,10,14,15} x well-formed fill (NOPs / timestamps) x a last option starting 1,2,3,4,6,10 octets before "
           "the boundary x every kind POX has a class for (and an unknown one, and an MPTCP subtype without a class) x length octet {0,1,2, short of, "
           "exactly at, and 1,2,4,8,16,38 octets or up to 255 beyond the boundary} x payload {0,8,40,256} octets, over IPv4 and (data offset 15) IPv6; "
           "SNAP headers additionally with the OUIs {0, 00-00-0c, 00-80-c2, 00-00-01, ff-ff-ff} x every protocol id that selects a POX parser (and four that select none)",
  "thorough": "as quick, plus all 256 values at every byte offset that the reference dissector attributes to a header (not to the innermost payload)",
}

_M = None


class _Con(object):
  dpid = 1


def setup():
  global _M
  if _M is None:
    import logging
    logging.disable(logging.CRITICAL)
    import pox.openflow as O
    import pox.openflow.libopenflow_01 as of
    from pox.lib.packet.packet_base import packet_base
    _M = (O, of, packet_base)


_CORPUS = None


def corpus():
  global _CORPUS
  if _CORPUS is None:
    _CORPUS = P.corpus()
  return _CORPUS


_CORPUS_SET = None


def _corpus_set():
  global _CORPUS_SET
  if _CORPUS_SET is None:
    _CORPUS_SET = set(f for _, f in corpus())
  return _CORPUS_SET


def _ethclass(raw):
  if len(raw) < 14:
    return "short"
  t = (raw[12] << 8) | raw[13]
  if t < 1536:
    return "802.3"
  return {0x8100: "vlan", 0x0806: "arp", 0x8035: "rarp", 0x0800: "ipv4", 0x86dd: "ipv6", 0x88cc: "lldp", 0x888e: "eapol",
          0x8847: "mpls", 0x8848: "mpls"}.get(t, "other")


def _lib_frame(e):
  """innermost frame inside pox/lib/packet (the parser at fault), else the innermost repository frame"""
  import os
  from ..runner import innermost_frames, REPO_ROOT
  pk = os.path.join(REPO_ROOT, "pox", "lib", "packet") + os.sep
  frames = innermost_frames(e)
  for fn, func, _ in reversed(frames):
    if fn.startswith(pk):
      return "%s:%s" % (os.path.relpath(fn, REPO_ROOT), func)
  return None


_CUR = [b""]


def _ref_verdict(raw):
  """what the independent reference dissector says about the structure of the input: 'well-formed', 'truncated', or the first
  structural error it meets ('tcp option length', 'ipv4 version/ihl', ...)"""
  err = P.dissect(raw).error
  if err is None:
    return "well-formed"
  return "truncated" if err.startswith("short") else err


def _exc(out, e, phase, **extra):
  import traceback
  k = exc_key(e, clause=phase, **extra)
  w = _lib_frame(e)
  if w is not None:
    k["where"] = w
  if phase in ("pack", "print", "access"):
    # the parse went through: "re-serialising / reading what was parsed from a well-formed frame fails" and "the parser accepted
    # a malformed structure that cannot be written / read back" are different root causes behind the same innermost frame
    k["ref"] = _ref_verdict(_CUR[0])
  out.violations.append({"key": k, "msg": "%s raised %r\n%s" % (phase, e, "".join(traceback.format_exception(e))[-1200:])})


def run_case(case):
  setup()
  O, of, packet_base = _M
  raw = case["raw"]
  if not isinstance(raw, bytes):
    raise HarnessError("case without bytes")
  if case.get("fix"):
    # the fault is followed by a repair of every checksum the reference dissector can locate, so that
    # parsers guarded by a checksum (ICMPv6, IGMP) still see the damaged structure
    raw = P.fix_checksums(raw)
  _CUR[0] = raw
  out = Outcome()
  out.label("src:" + case.get("src", "?").split(":")[0])
  out.label("eth:" + _ethclass(raw))
  if case.get("cls"):
    out.label(case["cls"])
  out.nontrivial = P.reaches_parser(raw) and raw not in _corpus_set()

  # phase 1: the lazy parse of a packet-in event
  try:
    ev = O.PacketIn(_Con(), of.ofp_packet_in(in_port=1, data=raw))
    p = ev.parsed
  except Exception as e:
    _exc(out, e, "parse")
    out.label("parse-raised")
    return out
  if ev.parse() is not p:
    out.fail("parse-not-cached", "PacketIn.parse() returned a different object on the second call")

  # phase 2: the chain
  layers = []
  seen = set()
  x = p
  bound = len(raw) // 4 + 8
  while isinstance(x, packet_base):
    if id(x) in seen:
      out.fail("chain-cycle", "the .next chain revisits a %s" % type(x).__name__, layer=type(x).__name__)
      break
    seen.add(id(x))
    layers.append(x)
    if len(layers) > bound:
      out.fail("chain-too-long", "more than %d layers for %d bytes" % (bound, len(raw)))
      break
    try:
      flag = x.parsed
    except Exception as e:
      _exc(out, e, "parsed-flag", layer=type(x).__name__)
      flag = None
    else:
      if flag is not True and flag is not False:
        out.fail("parsed-flag", "%s.parsed is %r, not a boolean" % (type(x).__name__, flag), layer=type(x).__name__)
    try:
      x = x.next
    except Exception as e:
      _exc(out, e, "next", layer=type(x).__name__)
      x = None
      break
  end = x
  if end is not None and not isinstance(end, (bytes, packet_base)):
    out.fail("chain-end", "the chain ends in a %s, neither bytes nor None" % type(end).__name__, type=type(end).__name__)
  if isinstance(end, bytes) and end not in raw:
    out.fail("remainder-invented", "trailing bytes %s... are not a slice of the input" % end[:16].hex(), layer=type(layers[-1]).__name__)
  if end is None and layers:
    last = layers[-1]
    try:
      lp = last.parsed
    except Exception:
      lp = None
    if lp is False:
      r = getattr(last, "raw", None)
      if not isinstance(r, bytes) or r not in raw:
        out.fail("remainder-lost", "unparsed %s keeps no remainder (.raw is %s)" % (type(last).__name__, type(r).__name__),
                 layer=type(last).__name__)
  out.label("depth:%d" % min(len(layers), 8))
  if layers:
    try:
      allp = all(l.parsed is True for l in layers)
    except Exception:
      allp = False
    out.label("all-parsed" if allp else "stopped-early")
    out.label("inner:" + type(layers[-1]).__name__)

  # phase 3: printing and re-serialising
  try:
    str(p)
  except Exception as e:
    _exc(out, e, "print")
  for l in layers[1:]:
    try:
      str(l)
    except Exception as e:
      _exc(out, e, "print")
  try:
    p.dump()
  except Exception as e:
    _exc(out, e, "print")
  try:
    b = p.pack()
    if not isinstance(b, bytes):
      out.fail("pack-type", "pack() returned a %s" % type(b).__name__)
  except Exception as e:
    _exc(out, e, "pack")

  # phase 4: what packet-in handlers in the repository do with a parse result before they decide anything
  _handler_access(out, p, layers, of)
  if out.violations:
    out.label("violating")
  return out


# names handlers pass to find(): every layer class the library can put into a chain, one it cannot
_FIND_NAMES = ("ethernet", "vlan", "llc", "arp", "ipv4", "ipv6", "tcp", "udp", "icmp", "icmpv6", "igmp", "gre", "vxlan", "mpls", "dhcp",
               "dns", "rip", "lldp", "eapol", "eap", "no_such_layer")
_ACC = {}


def _accessors(cls):
  """the documented read-only accessors of a layer class: every public `property` that the class or one of its bases inside
  pox.lib.packet defines (effective_ethertype, type, payload, has_snap, srcip / dstip of an ICMP error, the TCP flag bits, len ...)"""
  names = _ACC.get(cls)
  if names is None:
    s = set()
    for c in cls.__mro__:
      if (c.__module__ or "").startswith("pox.lib.packet"):
        s.update(n for n, v in vars(c).items() if isinstance(v, property) and not n.startswith("_"))
    names = _ACC[cls] = sorted(s)
  return names


def _handler_access(out, p, layers, of):
  """read-only use of the parse result in the style of l2_learning / l2_multi / discovery / l3_learning / host_tracker /
  arp_responder: the Ethernet addresses and type, truth value, every public property of every layer (among them
  effective_ethertype, which discovery and l2_multi read from EVERY packet-in), find() by name and by class from every layer.
  Nothing here writes to the packet.  Judged: none of it raises; find() gives a parsed layer of the asked class or None."""
  for l in layers:
    tn = type(l).__name__
    for name in _accessors(type(l)):
      try:
        getattr(l, name)
      except Exception as e:
        _exc(out, e, "access", accessor=name, layer=tn)
    try:
      bool(l)
    except Exception as e:
      _exc(out, e, "access", accessor="bool", layer=tn)
  if not layers:
    return
  try:
    p.src, p.dst, p.type
    p.dst.is_multicast, p.src.is_multicast, str(p.src), str(p.dst)
  except Exception as e:
    _exc(out, e, "access", accessor="addresses", layer=type(p).__name__)
  classes = tuple(dict.fromkeys(type(l) for l in layers))
  for start in layers:
    # by every name from the head of the chain (what handlers do); from the inner layers by the classes present and an absent one
    for key in (_FIND_NAMES + classes) if start is p else (classes + ("no_such_layer",)):
      kn = key if isinstance(key, str) else key.__name__
      try:
        r = start.find(key)
      except Exception as e:
        _exc(out, e, "access", accessor="find", layer=type(start).__name__)
        break
      if r is None:
        continue
      if type(r).__name__ != kn or r.parsed is not True or not any(r is l for l in layers):
        out.fail("find-result", "find(%r) from %s gave %s (parsed=%r)" % (kn, type(start).__name__, type(r).__name__, getattr(r, "parsed", None)),
                 asked=kn, got=type(r).__name__)
  if any(type(l).__name__ in ("vlan", "llc") for l in layers):
    out.label("access:effective-ethertype-through-" + "+".join(sorted(set(type(l).__name__ for l in layers if type(l).__name__ in ("vlan", "llc")))))
  # l2_learning / l2_multi / l3_learning / of_tutorial: a match built from the packet, for the flow entry they install
  try:
    of.ofp_match.from_packet(p, 1)
  except Exception as e:
    _exc(out, e, "access", accessor="ofp_match.from_packet")


# --------------------------------------------------------------------------- exhaustive single faults

_OPS = ("zero", "ff", "x1", "x80", "inc")


def _apply(b, op):
  return {"zero": 0, "ff": 0xff, "x1": b ^ 1, "x80": b ^ 0x80, "inc": (b + 1) & 0xff}[op]


def _header_offsets(frame):
  d = P.dissect(frame)
  if d.payload is None:
    return range(len(frame))
  lo, hi = d.payload
  return [i for i in range(len(frame)) if not (lo <= i < hi)]


def enum_faults(tier):
  for name, f in corpus():
    yield {"raw": f, "src": "valid:" + name}
    for n in range(len(f)):
      yield {"raw": f[:n], "src": "trunc:%s:%d" % (name, n)}
    for i in range(len(f)):
      done = {f[i]}
      for op in _OPS:
        v = _apply(f[i], op)
        if v in done:
          continue
        done.add(v)
        yield {"raw": f[:i] + bytes([v]) + f[i + 1:], "src": "corrupt:%s:%d:%s" % (name, i, op)}


_VERIFIED = {}


def _verifying(name, f):
  """True when the frame reaches a POX parser that verifies a checksum before going on (ICMPv6, IGMP): only there does a repaired
  checksum change what is parsed; elsewhere the repaired variant would only repeat the unrepaired one with other csum values"""
  if name not in _VERIFIED:
    _VERIFIED[name] = any(p in ("icmp6", "igmp") for p in P.dissect(f).protos())
  return _VERIFIED[name]


def enum_faults_repaired(tier):
  """the same single faults, each followed by a repair of the checksums (frames that carry one)"""
  for c in enum_faults(tier):
    if c["src"].startswith("valid:"):
      continue
    yield {"raw": c["raw"], "fix": True, "src": "repaired-" + c["src"]}


# kinds POX has a parser (or a special case) for in each container, plus one it does not know
_KINDS = {
  "tcpopt": [0, 1, 2, 3, 4, 5, 8, 30, 254],
  "ip4opt": [0, 1, 7, 68, 131, 137, 148, 254],
  "dhcpopt": [0, 1, 3, 4, 6, 12, 15, 28, 43, 50, 51, 52, 53, 54, 55, 56, 58, 59, 255, 200],
  "lldptlv": [0, 1, 2, 3, 4, 5, 6, 7, 8, 127, 9],
  "ndopt": [1, 2, 3, 5, 0, 200],
  "ext6": [0, 43, 44, 60, 6, 17, 58, 59, 253],
  "igmprec": [0, 1, 4, 6, 255],
  "gresre": [0, 0x0800, 0xffff],
}


def _slot_variants(container, f, off, size):
  """[(label, [(offset, bytes), ...])]: kind x length rewrites of one option / TLV / record header"""
  out = []
  kinds = _KINDS[container]
  if container == "lldptlv":
    for k in kinds:
      for ln in (0, 1, 2, 3, size - 2, size - 1, 511):
        out.append(("%d/%d" % (k, ln), [(off, (((k & 0x7f) << 9) | (ln & 0x1ff)).to_bytes(2, "big"))]))
    return out
  if container == "gresre":
    for k in kinds:
      for ln in (0, 1, 2, 3, size - 4, size - 3, 255):
        out.append(("%d/%d" % (k, ln), [(off, k.to_bytes(2, "big")), (off + 3, bytes([ln & 0xff]))]))
    return out
  if container == "igmprec":
    for k in kinds:
      for aux in (0, 1, 2, 3, 255):
        out.append(("%d/aux%d" % (k, aux), [(off, bytes([k, aux]))]))
      ns = (size - 8) // 4
      for n in (0, 1, 2, 3, ns, ns + 1, 0xffff, 0x0100):
        out.append(("%d/n%d" % (k, n), [(off, bytes([k])), (off + 2, (n & 0xffff).to_bytes(2, "big"))]))
    return out
  if container in ("ndopt", "ext6"):
    unit = size // 8
    exact = unit if container == "ndopt" else unit - 1
    lens = (0, 1, 2, 3, exact, exact + 1, 255, exact - 1, exact + 2)
  elif container == "dhcpopt":
    lens = (0, 1, 2, 3, size - 2, size - 1, 255) + tuple(size - 2 + dl for dl in (-2, -4, -8, 2, 4))
  else:                      # tcpopt, ip4opt: the length octet counts the two header octets
    lens = (0, 1, 2, 3, size, size + 1, 255) + tuple(size + dl for dl in (-2, -4, -8, 2, 4))
  lens = tuple(dict.fromkeys(ln for ln in lens if 0 <= ln <= 255))
  if container == "tcpopt" and size >= 4:
    out.extend(_mptcp_dss_variants(off, size))
  for k in kinds:
    for ln in lens:
      out.append(("%d/%d" % (k, ln), [(off, bytes([k, ln & 0xff]))]))
      if container == "tcpopt" and k == 30 and off + 2 < len(f):
        for st in (0, 1, 2, 3, 4, 5, 6, 7, 15):
          out.append(("30.%d/%d" % (st, ln), [(off, bytes([k, ln & 0xff, (st << 4) | (f[off + 2] & 0xf)]))]))
  return out


def _mptcp_dss_variants(off, size):
  """RFC 6824 section 3.3: every combination of the DSS flags (F, m, M, a, A) with the option length that combination implies,
  with and without the trailing checksum, and one octet less / more; the rest of the slot is filled with NOPs so that the
  option list stays well-formed"""
  out = []
  for fl in range(32):
    good = 4 + ((8 if fl & 2 else 4) if fl & 1 else 0)
    if fl & 4:
      good += (8 if fl & 8 else 4) + 4 + 2 + 2
    lens = [good, good - 1, good + 1]
    if fl & 4:
      lens += [good - 2, good - 3]               # DSS without the checksum (checksums not negotiated)
    for ln in lens:
      edits = [(off, bytes([30, ln, 0x20, fl]))]
      if ln < size:
        edits.append((off + ln, b"\x01" * (size - ln)))
      out.append(("dss.%02x/%d" % (fl, ln), edits))
  return out


def _apply_edits(f, edits):
  out = bytearray(f)
  for o, bs in edits:
    for i, v in enumerate(bs):
      if o + i < len(out):
        out[o + i] = v
  return bytes(out)


def enum_slots(tier):
  """structure-aware exhaustive driver: every option / TLV / record slot the reference dissector locates in a corpus frame gets
  every kind POX has a parser for (plus an unknown one) x length in {0,1,2,3,exact,exact+1,max}; each variant as is, with the
  frame cut right behind the rewritten header (1..3 octets: the slot ends the input) and right behind the slot, and each of
  those once more with all checksums repaired where a POX parser verifies one (ICMPv6, IGMP)."""
  for name, f in corpus():
    d = P.dissect(f)
    rep = _verifying(name, f)
    for container, off, size in d.slots:
      for label, edits in _slot_variants(container, f, off, size):
        m = _apply_edits(f, edits)
        cuts = [None, off + size]
        hdr_end = max(o + len(bs) for o, bs in edits)
        if hdr_end < off + size:
          cuts.append(hdr_end)
        for cut in cuts:
          raw = m if cut is None else m[:cut]
          src = "slot:%s:%s:%s%s" % (container, name, label, "" if cut is None else ":cut")
          yield {"raw": raw, "src": src}
          if rep:
            yield {"raw": raw, "fix": True, "src": "repaired-" + src}


# length / count fields: (proto, field) -> (header size in the field's unit, how the value is stored)
_LENGTHS = {
  ("eap", "length"): (4, "int"), ("eapol", "bodylen"): (4, "int"),
  ("ipv4", "totlen"): (20, "int"), ("ipv4", "vhl"): (5, "lo4"),
  ("udp", "len"): (8, "int"), ("tcp", "offres"): (5, "hi4"),
  ("ipv6", "plen"): (8, "int"), ("ipv6.ext0", "len"): (0, "int"), ("ipv6.ext43", "len"): (0, "int"), ("ipv6.ext60", "len"): (0, "int"),
  ("arp", "hwlen"): (6, "int"), ("arp", "protolen"): (4, "int"),
  ("dhcp", "hlen"): (6, "int"),
  ("dns", "qdcount"): (1, "int"), ("dns", "ancount"): (1, "int"), ("dns", "nscount"): (1, "int"), ("dns", "arcount"): (1, "int"),
  ("igmp", "nrec"): (1, "int"), ("gre", "route_offset"): (4, "int"),
}
_LENGTH_PREFIXES = (("dns", "rr", "_rdlen", 4), ("igmp", "rec", "_nsrc", 1), ("igmp", "rec", "_auxlen", 1))


def _length_field(proto, fname, f, off, size):
  """(header size, storage) when (proto, fname) is a length or count field"""
  if (proto, fname) in _LENGTHS:
    return _LENGTHS[(proto, fname)]
  for p, pre, suf, hs in _LENGTH_PREFIXES:
    if proto == p and fname.startswith(pre) and fname.endswith(suf):
      return (hs, "int")
  if proto in ("eth", "vlan") and fname == "type" and int.from_bytes(f[off:off + size], "big") < 1536:
    return (3, "int")                    # IEEE 802.3 length; 3 = LLC header
  return None


def enum_lengths(tier):
  """structure-aware exhaustive driver over LENGTH fields: every length / count field the reference dissector locates is set to
  {0, 1, header size - 1, header size, header size + 1, exact - 1, exact + 1, exact + 2, max} (and 8 = LLC+SNAP for 802.3 lengths);
  each variant as is and followed by 1, 2 and 46 padding octets (Ethernet minimum-size padding), each once more with the
  checksums repaired where a POX parser verifies one (ICMPv6, IGMP)"""
  for name, f in corpus():
    d = P.dissect(f)
    rep = _verifying(name, f)
    for li, proto, fname, off, size in d.fields():
      lf = _length_field(proto, fname, f, off, size)
      if lf is None:
        continue
      hs, how = lf
      cur = int.from_bytes(f[off:off + size], "big")
      if how == "lo4":
        exact, mx = cur & 0xf, 15
      elif how == "hi4":
        exact, mx = cur >> 4, 15
      else:
        exact, mx = cur, (1 << (8 * size)) - 1
      vals = [0, 1, hs - 1, hs, hs + 1, exact - 1, exact + 1, exact + 2, mx, mx - 1]
      if proto in ("eth", "vlan"):
        vals += [8, 9, 1500, 1535]
      if proto == "ipv4" and fname == "totlen":
        ihl = (f[off - 2] & 0xf) * 4
        vals += [ihl - 1, ihl, ihl + 1, ihl + 7, ihl + 8]
      for v in dict.fromkeys(v for v in vals if 0 <= v <= mx and v != exact):
        if how == "lo4":
          enc = bytes([(cur & 0xf0) | v])
        elif how == "hi4":
          enc = bytes([(v << 4) | (cur & 0x0f)])
        else:
          enc = v.to_bytes(size, "big")
        m = f[:off] + enc + f[off + size:]
        for pad in (0, 1, 2, 46):
          raw = m + b"\0" * pad
          src = "length:%s.%s:%s:%d%s" % (proto, fname.rstrip("0123456789"), name, v, (":pad%d" % pad) if pad else "")
          yield {"raw": raw, "src": src}
          if rep:
            yield {"raw": raw, "fix": True, "src": "repaired-" + src}
    # valid frames with Ethernet padding behind them
    for pad in (1, 2, 46):
      yield {"raw": f + b"\0" * pad, "src": "length:valid:%s:pad%d" % (name, pad)}


_DEMUX = {
  ("eth", "type"): list(P.POX_ETHERTYPES) + [0x88b5, 0, 3, 46, 1500, 1535],
  ("vlan", "type"): list(P.POX_ETHERTYPES) + [0x88b5, 0, 46, 1500],
  ("llc", "snap_type"): list(P.POX_ETHERTYPES) + [0x88b5, 0, 46],
  ("llc", "oui"): [0, 0x00000c, 0x0080c2, 0x000001, 0xffffff],        # SNAP: RFC 1042 encapsulation (zero) and organisation-specific
  ("ipv4", "proto"): [1, 2, 4, 6, 17, 41, 47, 253],
  ("ipv6", "nh"): list(P.POX_NH6) + [1, 2, 47, 253],
  ("icmp", "type"): [0, 3, 4, 5, 8, 11, 13, 255],
  ("icmp6", "type"): [1, 2, 3, 4, 128, 129, 130, 133, 134, 135, 136, 137, 255],
  ("udp", "sport"): list(P.UDP_APP_PORTS) + [0],
  ("udp", "dport"): list(P.UDP_APP_PORTS) + [0],
  ("gre", "ptype"): [0x0800, 0x6558, 0x86dd, 0],
  ("gre", "flags"): [0, 0x8000, 0x4000, 0x2000, 0x1000, 0xb000, 0xf000, 0xffff, 0x0007],
  ("eapol", "type"): [0, 1, 2, 3, 4, 255],
  ("eap", "code"): [0, 1, 2, 3, 4, 255],
  ("igmp", "type"): [0x11, 0x12, 0x16, 0x17, 0x22, 0],
  ("dns", "qdcount"): [0, 1, 2, 0xffff], ("dns", "ancount"): [0, 1, 2, 0xffff],
  ("dns", "nscount"): [0, 1, 0xffff], ("dns", "arcount"): [0, 1, 0xffff],
  ("dhcp", "hlen"): [0, 6, 16, 17, 255], ("dhcp", "magic"): [0x63825363, 0],
  ("tcp", "offres"): [0x00, 0x40, 0x50, 0x60, 0xa0, 0xf0, 0xff],
  ("ipv4", "vhl"): [0x40, 0x44, 0x45, 0x46, 0x4f, 0x55, 0x65],
  ("vxlan", "flags"): [0, 8, 0xff],
}


def enum_demux(tier):
  """every demultiplexing / format-selecting field the dissector locates is set to every value that selects a POX parser
  (plus ones that select none): any parser can be entered from any position of any corpus frame"""
  for name, f in corpus():
    d = P.dissect(f)
    for li, proto, fname, off, size in d.fields():
      vals = _DEMUX.get((proto, fname))
      if not vals:
        continue
      cur = int.from_bytes(f[off:off + size], "big")
      for v in vals:
        if v == cur:
          continue
        raw = f[:off] + v.to_bytes(size, "big") + f[off + size:]
        src = "demux:%s.%s:%s:%d" % (proto, fname, name, v)
        yield {"raw": raw, "src": src}
        yield {"raw": raw, "fix": True, "src": "repaired-" + src}


_LLC_SAPS = (0xaa, 0xab, 0x42, 0x00, 0xe0, 0xff)
_SNAP_OUIS = (b"\0\0\0", b"\0\0\x0c", b"\0\x80\xc2", b"\0\0\x01", b"\xff\xff\xff")
_LLC_CTRL = (0x03, 0x00, 0x01, 0x02, 0x7f, 0xff)      # U-, I-, S-, I-format, U (0x7f), U (0xff) by the two low bits


def enum_llc(tier):
  """802.2 header formats: every corpus frame with an LLC header gets DSAP x SSAP x first control octet (SNAP and non-SNAP
  SAPs; U-, I- and S-format control fields), each as is and cut at every length from the LLC start to 10 octets into it;
  every SNAP header additionally organisation code x protocol id"""
  for name, f in corpus():
    d = P.dissect(f)
    for l in d.layers:
      if l["p"] != "llc":
        continue
      off = l["off"]
      for ds in _LLC_SAPS:
        for ss in _LLC_SAPS:
          for c in _LLC_CTRL:
            m = f[:off] + bytes([ds, ss, c]) + f[off + 3:]
            yield {"raw": m, "src": "llc:%s:%02x/%02x/%02x" % (name, ds, ss, c)}
            for k in range(0, 11):
              if off + k < len(m):
                yield {"raw": m[:off + k], "src": "llc:%s:%02x/%02x/%02x:cut%d" % (name, ds, ss, c, k)}
      # SNAP (RFC 1042 / IEEE 802): organisation code x protocol id.  Only OUI 00-00-00 makes the protocol id an ethertype; POX keeps
      # the payload of every other OUI as bytes, whatever the protocol id says
      if "oui" in l["f"] and "snap_type" in l["f"]:
        oo, ot = l["f"]["oui"][0], l["f"]["snap_type"][0]
        for oui in _SNAP_OUIS:
          for ty in tuple(P.POX_ETHERTYPES) + (0x88b5, 0, 46, 0xffff):
            m = f[:oo] + oui + f[oo + 3:ot] + ty.to_bytes(2, "big") + f[ot + 2:]
            yield {"raw": m, "src": "llc:%s:snap:%s/%04x" % (name, oui.hex(), ty)}


def _inet_sum(b):
  if len(b) % 2:
    b += b"\0"
  s = sum((b[i] << 8) | b[i + 1] for i in range(0, len(b), 2))
  while s >> 16:
    s = (s & 0xffff) + (s >> 16)
  return (~s) & 0xffff


def tcp_segment_frame(carrier, doff, area, payload):
  """Ethernet / IPv4 or IPv6 / TCP frame written out octet by octet (RFC 791, 8200, 9293): the TCP header says `doff` 32-bit
  words, `area` is what stands behind the 20 fixed octets (normally (doff-5)*4 octets of options), then the payload.  Both
  checksums are correct, whatever the options say."""
  tcp = bytearray((40000).to_bytes(2, "big") + (80).to_bytes(2, "big") + (1000).to_bytes(4, "big") + (2000).to_bytes(4, "big")
                  + bytes([(doff & 0xf) << 4, 0x18]) + (8192).to_bytes(2, "big") + b"\0\0\0\0" + bytes(area) + bytes(payload))
  if carrier == "ipv6":
    pseudo = P.S1 + P.S2 + len(tcp).to_bytes(4, "big") + b"\0\0\0\x06"
    tcp[16:18] = _inet_sum(pseudo + bytes(tcp)).to_bytes(2, "big")
    ip = b"\x60\0\0\0" + len(tcp).to_bytes(2, "big") + b"\x06\x40" + P.S1 + P.S2
    return P.M2 + P.M1 + b"\x86\xdd" + ip + bytes(tcp)
  pseudo = P.A1 + P.A2 + b"\0\x06" + len(tcp).to_bytes(2, "big")
  tcp[16:18] = _inet_sum(pseudo + bytes(tcp)).to_bytes(2, "big")
  ip = bytearray(b"\x45\0" + (20 + len(tcp)).to_bytes(2, "big") + b"\0\x07\0\0\x40\x06\0\0" + P.A1 + P.A2)
  ip[10:12] = _inet_sum(bytes(ip)).to_bytes(2, "big")
  return P.M2 + P.M1 + b"\x08\x00" + bytes(ip) + bytes(tcp)


_TS_OPT = b"\x08\x0a\0\0\0\x01\0\0\0\x02"
_AREA_FILL = {
  "nop": lambda n: b"\x01" * n,
  "ts": lambda n: _TS_OPT * (n // 10) + b"\x01" * (n % 10),                       # timestamps, then NOPs
}


def enum_option_area(tier, shard=0, nshards=1):
  """The TCP option area against the header / payload boundary (RFC 9293 3.1: options occupy exactly the space the data offset
  leaves behind the fixed header).  For data offsets 6, 7, 10, 14 and 15 (the maximum: 40 option octets) the area is filled with
  well-formed options (NOPs / timestamps) up to the last r = 1, 2, 3, 4, 6 or 10 octets, where one more option of
  every kind POX has a class for (and an unknown one) starts whose length octet says: less than a header (0, 1), short of the
  boundary, exactly to the boundary, and 1, 2, 4, 8, 16, 38 octets or as far as 255 BEYOND the boundary into the payload
  (r = 1: the length octet itself is the first payload octet); payloads of 0, 8, 40 and 256 octets, so that the overrun ends
  inside the payload, at its end, and behind the end of the segment; over IPv4 and (largest data offset) IPv6."""
  kinds = _KINDS["tcpopt"]
  idx = -1
  for doff in (6, 7, 10, 14, 15):
    A = (doff - 5) * 4
    for carrier in (("ipv4", "ipv6") if doff == 15 else ("ipv4",)):
      for r in (1, 2, 3, 4, 6, 10):
        if r > A:
          continue
        for fill in (("nop", "ts") if A - r >= 10 else ("nop",)):
          head = _AREA_FILL[fill](A - r)
          for k in kinds:
            lens = [None] if k in (0, 1) else list(dict.fromkeys(v for v in (0, 1, 2, r - 1, r, r + 1, r + 2, r + 4, r + 8, r + 16, r + 38, 255)
                                                                 if 0 <= v <= 255))
            for ln in lens:
              for pay in (0, 8, 40, 256):
                idx += 1
                if idx % nshards != shard:          # the driver shards itself: frames are only built in the shard that runs them
                  continue
                body = (bytes([k]) if ln is None else bytes([k, ln])) + P.pattern(300, 7)
                if k == 30 and ln is not None:
                  body = bytes([k, ln, 0xf0]) + P.pattern(300, 7)      # MPTCP subtype without a class: any length is taken
                raw = tcp_segment_frame(carrier, doff, head + body[:r], body[r:r + pay])
                if ln is None:
                  cls = "single-octet-kind"
                elif ln < 2:
                  cls = "length-below-2"
                elif ln <= r:
                  cls = "ends-at-boundary" if ln == r else "ends-before-boundary"
                else:
                  cls = "overruns-into-payload" if ln - r <= pay else "overruns-past-segment"
                yield {"raw": raw, "cls": "optarea:" + cls, "src": "optarea:tcp:%s:doff%d:r%d:%s:%d/%s:pay%d" % (carrier, doff, r, fill, k, ln, pay)}


@st.composite
def _s_tcp_options(draw):
  """TCP segment whose option area is a drawn list of options; the data offset is drawn separately from the octets the options
  occupy (equal, one word less / more, maximum), and the last option's length octet may be re-drawn, so that options end before,
  at and behind the header / payload boundary"""
  opts = draw(st.lists(st.one_of(
      st.sampled_from([b"\x01", b"\x01\x01", b"\x02\x04\x05\xb4", b"\x03\x03\x07", b"\x04\x02", _TS_OPT, b"\x05\x0a" + b"\0" * 8,
                       b"\x05\x12" + b"\0" * 16, b"\x1e\x04\x20\x00", b"\x1e\x08\x20\x01\0\0\0\x09", b"\x1e\x0c\x00\x81" + b"\x11" * 8]),
      st.tuples(st.sampled_from(_KINDS["tcpopt"][2:] + [253, 255]), st.binary(max_size=12)).map(lambda t: bytes([t[0], 2 + len(t[1])]) + t[1])),
      max_size=12))
  area = b"".join(opts)[:40]
  words = (len(area) + 3) // 4
  area += b"\x01" * (words * 4 - len(area))
  if opts and len(opts[-1]) >= 2 and draw(st.booleans()):
    pos = len(b"".join(opts[:-1]))
    if pos + 1 < len(area):
      area = area[:pos + 1] + bytes([draw(st.one_of(st.integers(0, 60), st.integers(0, 255)))]) + area[pos + 2:]
  doff = draw(st.sampled_from([5 + words, 5 + words, 5 + words, 4 + words, 6 + words, 15, 5]))
  doff = max(0, min(15, doff))
  pay = draw(st.one_of(st.binary(max_size=48), st.integers(0, 300).map(lambda n: P.pattern(n, 5))))
  return {"raw": tcp_segment_frame(draw(st.sampled_from(["ipv4", "ipv4", "ipv6"])), doff, area, pay), "src": "tcpopts"}


def _text_variants():
  texts = list(P.UTF8_TEXTS)
  # the same code points as text that is NOT valid UTF-8 (Latin-1 / truncated sequences), for contrast
  texts += [b"caf\xe9", b"\xe2\x80", b"\xf0\x9f\x98", b"\xc0\xaf", b"\xed\xa0\x80", b"\xff\xfe"]
  # labels / strings at their length limits filled with multi-byte text
  texts += [("\u00e9" * 31).encode("utf-8"), ("\u2019" * 21).encode("utf-8"), ("\U0001f600" * 15).encode("utf-8"),
            ("\u65e5" * 85).encode("utf-8")]
  return texts


def enum_text(tier):
  """well-formed frames whose text-bearing fields (DNS labels / TXT, LLDP strings, DHCP string options and sname/file, EAP
  identity) hold valid 2-, 3- and 4-byte UTF-8 sequences, and malformed UTF-8 for contrast"""
  for i, t in enumerate(_text_variants()):
    for name, spec in P.text_catalog(t):
      yield {"raw": P.build(spec), "src": "text:%s:%d" % (name, i)}


def enum_all_values(tier):
  for name, f in corpus():
    if not (name.endswith("-6") or name.endswith("-41")):
      continue
    for i in _header_offsets(f):
      for v in range(256):
        if v != f[i]:
          yield {"raw": f[:i] + bytes([v]) + f[i + 1:], "src": "corrupt256:%s:%d" % (name, i)}


# --------------------------------------------------------------------------- Hypothesis

_DCACHE = {}


def _dis(frame):
  d = _DCACHE.get(frame)
  if d is None:
    if len(_DCACHE) > 4096:
      _DCACHE.clear()
    d = P.dissect(frame)
    _DCACHE[frame] = (d.fields(), [l["off"] for l in d.layers] + [l["end"] for l in d.layers])
    d = _DCACHE[frame]
  return d


def _utf8_text():
  """valid UTF-8 with 2-, 3- and 4-byte sequences"""
  chars = st.one_of(st.characters(min_codepoint=0x20, max_codepoint=0x7e), st.characters(min_codepoint=0x80, max_codepoint=0x7ff),
                    st.characters(min_codepoint=0x800, max_codepoint=0xffff, blacklist_categories=("Cs",)),
                    st.characters(min_codepoint=0x10000, max_codepoint=0x10ffff),
                    st.sampled_from(["\u00e9", "\u2019", "\u65e5", "\U0001f600", "\u0080", "\u07ff", "\u0800", "\uffff", "\U00010000", "\U0010ffff"]))
  return st.lists(chars, min_size=1, max_size=24).map(lambda cs: "".join(cs).replace(".", "-").encode("utf-8"))


def _text_frames():
  return st.tuples(_utf8_text(), st.integers(0, 5)).map(lambda t: P.build(P.text_catalog(t[0])[t[1]][1]))


_BASE = None


def _base_frames():
  global _BASE
  if _BASE is None:
    from ..gen import pktspec
    fixed = st.sampled_from([f for _, f in corpus()])
    built = pktspec.any_spec(64).map(P.build)
    _BASE = st.one_of(fixed, built, _text_frames())
  return _BASE


@st.composite
def _s_field(draw):
  f = draw(_base_frames())
  fields, _ = _dis(f)
  if not fields:
    return {"raw": f, "src": "field:none"}
  out = bytearray(f)
  n = draw(st.integers(1, 3))
  names = []
  for _ in range(n):
    li, proto, name, off, size = draw(st.sampled_from(fields))
    size = min(size, 8)
    cur = int.from_bytes(out[off:off + size], "big")
    m = (1 << (8 * size)) - 1
    v = draw(st.one_of(st.sampled_from([0, 1, m, m - 1, 1 << (8 * size - 1), (cur + 1) & m, (cur - 1) & m, cur ^ 1, cur >> 1, (cur << 1) & m]),
                       st.integers(0, m)))
    out[off:off + size] = v.to_bytes(size, "big")
    names.append("%s.%s" % (proto, name.split("_")[0].rstrip("0123456789")))
  raw = bytes(out)
  if draw(st.booleans()):
    raw = P.fix_checksums(raw)
  return {"raw": raw, "src": "field:" + ",".join(names)}


@st.composite
def _s_splice(draw):
  a, b = draw(_base_frames()), draw(_base_frames())
  _, ca = _dis(a)
  _, cb = _dis(b)
  i = draw(st.one_of(st.sampled_from(sorted(set(ca))) if ca else st.just(0), st.integers(0, len(a))))
  j = draw(st.one_of(st.sampled_from(sorted(set(cb))) if cb else st.just(0), st.integers(0, len(b))))
  raw = a[:i] + b[j:]
  if draw(st.booleans()):
    raw = P.fix_checksums(raw)
  return {"raw": raw[:1600], "src": "splice"}


@st.composite
def _s_multi(draw):
  f = bytearray(draw(_base_frames()))
  if not f:
    return {"raw": b"", "src": "multi"}
  for _ in range(draw(st.integers(2, 6))):
    i = draw(st.integers(0, len(f) - 1))
    f[i] = draw(st.integers(0, 255))
  raw = bytes(f)
  cut = draw(st.one_of(st.none(), st.integers(0, len(raw))))
  if cut is not None:
    raw = raw[:cut]
  if draw(st.booleans()):
    raw = P.fix_checksums(raw)
  return {"raw": raw, "src": "multi"}


@st.composite
def _s_tail(draw):
  """valid frame with bytes appended (Ethernet padding / trailer) or repeated"""
  f = draw(_base_frames())
  tail = draw(st.one_of(st.integers(1, 46).map(lambda n: b"\0" * n), st.binary(min_size=1, max_size=64)))
  return {"raw": f + tail, "src": "tail"}


@st.composite
def _s_random(draw):
  hdr = draw(st.binary(min_size=12, max_size=12))
  ty = draw(st.one_of(st.sampled_from(P.POX_ETHERTYPES + (0, 3, 46, 1500, 1535)), st.integers(0, 0xffff)))
  body = draw(st.binary(max_size=200))
  raw = hdr + ty.to_bytes(2, "big") + body
  if ty == 0x0800 and body and draw(st.booleans()):
    # plausible IPv4 start so that the random tail reaches a transport parser
    proto = draw(st.sampled_from([1, 2, 6, 17, 47]))
    body = bytes([0x45, 0]) + (len(body) + 20).to_bytes(2, "big") + b"\0\0\0\0\x40" + bytes([proto]) + b"\0\0" + b"\x0a\0\0\x01\x0a\0\0\x02" + body
    raw = P.fix_checksums(hdr + ty.to_bytes(2, "big") + body)
  elif ty == 0x86dd and draw(st.booleans()):
    nh = draw(st.sampled_from([0, 6, 17, 43, 44, 58, 59, 60]))
    body = b"\x60\0\0\0" + len(body).to_bytes(2, "big") + bytes([nh, 64]) + P.S1 + P.S2 + body
    raw = P.fix_checksums(hdr + ty.to_bytes(2, "big") + body)
  return {"raw": raw, "src": "random"}


def _strategy(tier):
  return st.one_of(_s_field(), _s_field(), _s_splice(), _s_multi(), _s_tail(), _s_random(), _s_tcp_options(),
                   _text_frames().map(lambda f: {"raw": f, "src": "text"}),
                   st.binary(max_size=64).map(lambda b: {"raw": b, "src": "random:short"}))


def _fuzz_drivers():
  try:
    from ..fuzz.driver import atheris_driver
  except Exception:
    return []
  return [atheris_driver("fuzz-frames", "pvf.props.c15", runs=600000, corpus="corpus/C15", max_len=1604, timeout_s=600)]


def _sharded(fn):
  fn.sharded = True
  return fn


def plan(tier):
  if tier == "quick":
    return [
      Enum("single-fault", lambda: enum_faults(tier), shards=16),
      Enum("single-fault-checksums-repaired", lambda: enum_faults_repaired(tier), shards=16),
      Enum("option-tlv-slots", lambda: enum_slots(tier), shards=16),
      Enum("demux-keys", lambda: enum_demux(tier), shards=4),
      Enum("length-fields", lambda: enum_lengths(tier), shards=8),
      Enum("llc-formats", lambda: enum_llc(tier), shards=8),
      Enum("utf8-text", lambda: enum_text(tier), shards=2),
      Enum("tcp-option-area-boundary", _sharded(lambda sh, n: enum_option_area(tier, sh, n)), shards=8),
      Hyp("mutation", lambda: _strategy(tier), examples=6000, shards=16),
    ]
  return [
    Enum("single-fault", lambda: enum_faults(tier), shards=16),
    Enum("single-fault-checksums-repaired", lambda: enum_faults_repaired(tier), shards=16),
    Enum("option-tlv-slots", lambda: enum_slots(tier), shards=16),
    Enum("demux-keys", lambda: enum_demux(tier), shards=4),
    Enum("length-fields", lambda: enum_lengths(tier), shards=8),
    Enum("llc-formats", lambda: enum_llc(tier), shards=8),
    Enum("utf8-text", lambda: enum_text(tier), shards=2),
    Enum("tcp-option-area-boundary", _sharded(lambda sh, n: enum_option_area(tier, sh, n)), shards=8),
    Enum("all-values-on-headers", lambda: enum_all_values(tier), shards=16),
    Hyp("mutation", lambda: _strategy(tier), examples=340000, shards=16),
  ] + _fuzz_drivers()


def case_from_bytes(data):
  """decode libFuzzer bytes into a case (used by pvf.fuzz.driver and pvf/fuzz/fuzz_frame.py).

  byte 0 selects the mode: bit0 set -> the rest is the frame as is; bit0 clear -> byte 1 picks a corpus frame and the
  rest is a list of (offset16, value8) edits applied to it (a small data-provider layer, because coverage feedback does
  not see through struct/checksum comparisons); bit1 -> repair all checksums afterwards."""
  if not data:
    return {"raw": b"", "src": "fuzz:raw"}
  mode = data[0]
  if mode & 1:
    return {"raw": bytes(data[1:1601]), "fix": bool(mode & 2), "src": "fuzz:raw"}
  frames = corpus()
  if len(data) < 2:
    return {"raw": b"", "src": "fuzz:raw"}
  f = bytearray(frames[data[1] % len(frames)][1])
  i = 2
  while i + 3 <= len(data) and f:
    off = ((data[i] << 8) | data[i + 1]) % len(f)
    f[off] = data[i + 2]
    i += 3
  if mode & 4 and i < len(data) and f:
    f = f[:data[i] % (len(f) + 1)]
  return {"raw": bytes(f), "fix": bool(mode & 2), "src": "fuzz:edit"}


def write_corpus(dirpath):
  """materialise the seed corpus for the atheris target (corpus/C15/): mode byte 0x01 + frame"""
  import os
  os.makedirs(dirpath, exist_ok=True)
  for name, f in corpus():
    with open(os.path.join(dirpath, name + ".bin"), "wb") as fh:
      fh.write(b"\x01" + f)
