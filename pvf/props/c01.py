"""C01 -- the OpenFlow 1.0 (and Nicira) wire codec is lossless and matches the specified layout.

For every object the library lets a caller construct (case = a JSON fragment, pvf/gen/of_msgs.py):
  pack() does not raise, returns len(obj) bytes, the header length field equals the byte count,
  the bytes equal the encoding of the caller's field values by an independent layout table
  (pvf/ref/of10_layout.py, written from openflow.h 1.0.0 / nicira-ext.h), decoding -- through the
  registry path the connections use -- consumes exactly those bytes also when other bytes precede
  and follow, the decoded object equals the original (==, and field by field through the public
  attributes against the reference decoder, because several __eq__ ignore fields), and re-encoding
  reproduces the bytes.
"""
import hashlib
import os
import struct

from hypothesis import strategies as st

from ..runner import Outcome, Enum, Hyp, HarnessError, REPO_ROOT
from ..ref import of10_layout as R
from ..gen import of_msgs as G

ID = "C01"
LEVEL = "exploration"
TECHNIQUE = ("property-based testing: exhaustive per-field boundary grid + Hypothesis-generated objects, judged against an "
             "independent OpenFlow 1.0 / Nicira layout table (differential encode/decode) and by round trip")
LEVEL_TEXT = ("Exploration by generated-input search over codec objects. Every class of the message, action, statistics and "
              "queue-property registries (and the Nicira classes) is exercised on an exhaustive boundary grid (every integer "
              "field at 0 / max / sign bit, strings at 0 and full width, size classes up to the 64 KiB limit) and on "
              "Hypothesis-drawn field values and list shapes; each object is judged by comparison with an independent "
              "layout table written from openflow.h 1.0.0 / nicira-ext.h and by decode/re-encode round trips with bytes "
              "before and after. The codec is pure and cheap (tens of microseconds per object) so dense sampling is the "
              "appropriate level; nothing is claimed outside the explored values.")
LEVEL_NOTE = ("trusts the layout table in pvf/ref/of10_layout.py (written from the specification, self-checked for "
              "encode/decode consistency); flow-mod wildcard bits of fields a switch ignores are compared modulo POX's "
              "documented normalisation; ofp_flow_mod.data 'magic' is not generated")
RULE = ("a case is one codec object given as a JSON fragment {kind, fields} plus bytes placed before and after its encoding "
        "(or such an object plus a change applied after a first pack(), or a pair of objects of one class where the bytes of "
        "the second are decoded into the first, or the name of one specification constant); cases flagged 'retry' also make "
        "pack()/unpack() fail once (a field or action not filled in, truncated buffers) and retry on the same object; "
        "cases come from an exhaustive grid (per kind: the default object, every integer field at 0 / max / sign bit, all "
        "fields at max, text fields empty and at full width, ofp_match fields one at a time with prerequisites, size classes "
        "> 32 KiB and at the 64 KiB limit) and from Hypothesis (boundary-biased integers, 0..6 actions, 0..4 list entries, "
        "payloads 0..1500). A case is non-trivial when at least one field differs from the default-constructed object of "
        "its class and, for kinds that contain a list, at least one list is non-empty; distinct by SHA-1 of the canonical "
        "JSON of the case")
ASSUMPTIONS = [
  "the layout tables in pvf/ref/of10_layout.py are a correct transcription of openflow.h 1.0.0 and nicira-ext.h",
  "values outside a field's wire range, text with NUL / non-latin-1 characters, and messages longer than 65535 octets are "
  "not cases (struct.pack rejects them by design)",
  "ofp_match: byte identity and equality are required for prerequisite-consistent matches; for others only: no exception, "
  "40 octets, idempotent normalisation",
  "in FLOW_MOD the wildcard bits of fields a switch ignores (OpenFlow 1.0.1 section 3.4) carry no information; POX clears "
  "them on the wire and sets them again when decoding, comparisons are made modulo these bits",
  "a fully wildcarded nw_src/nw_dst is written with bit count 32 (OFPFW_NW_*_ALL) rather than 63; both mean the same",
  "ofp_action_output.max_len is written as 0 unless the port is OFPP_CONTROLLER (documented normalisation in pack)",
  "statistics replies: array types carry a list body, single types a single body (the shorthand of a single body for an "
  "array type decodes to a one-element list and is not generated)",
  "an NXM entry whose mask is all ones is the same match as the entry without mask (written without mask)",
  "vendor actions inside a decoded container are ofp_action_vendor_generic (the library has no Nicira action dispatch); for "
  "such containers, for all-ones NXM masks and for the integer / entry-instance shorthands of nx_action_bundle.slaves and "
  "nx_reg_load.dst, == between decoded and original object is not demanded (bytes, consumed length and fields are)",
  "an object whose pack() raises is judged further on the bytes the reference table prescribes for it (decode clauses only)",
  "objects are mutable: one that was packed once and then changed by attribute assignment / list append must encode its new state",
  "unpack(raw, offset) on an existing instance is public API: an object that was packed / measured / decoded into before and "
  "then decodes other bytes must be indistinguishable from a fresh decode of those bytes",
  "a pack() that failed because a field or an action was not filled in yet (None), and an unpack() that failed on a truncated "
  "buffer, leave the object usable: the retry with good input behaves like a fresh object (None in xid / buffer_id / "
  "total_len / type / an output action's port are documented values, not transient errors, and are not used as the fault)",
]
EXHAUSTIVE_SCOPE = {
  "quick": "per kind (22 messages, 13 actions, 14 statistics bodies, 3 queue properties, packet queue, phy port, match, "
           "Nicira messages/actions/NXM entries): default object; each integer field at 0 / max / sign bit with the others "
           "default; all integer fields at max; text fields empty / full width; every ofp_match field alone (with its "
           "prerequisites) at 0 / max / sign bit in plain and flow-mod mode; every NXM field with and without mask at "
           "0 / all-ones / sign bit; each container at > 32 KiB and at the largest size that fits 65535 octets; every scalar "
           "field and list of every OF 1.0 message changed after a first pack(); 176 enum / macro values of openflow.h; per kind "
           "all ordered pairs of up to 6 grid objects (8 sizes for statistics messages) of equal and different encoded size, "
           "the second decoded into the first (three decodes in a row); retry after a failed pack / truncated unpack on every "
           "grid object",
  "thorough": "as quick (the grid is the same; the thorough tier adds Hypothesis volume)",
}

_NICIRA = True
_of = None
_nx = None
_NX_ERR = None


def setup():
  global _of, _nx, _NX_ERR
  if _of is None:
    import logging
    logging.disable(logging.CRITICAL)
    R.selftest()
    # pox.openflow.nicira imports pox.core, which creates a threaded core on import when unittest is loaded
    # (Hypothesis loads it); boot() creates the single-threaded one first, quietly.
    import contextlib
    import io
    from ..sim import world
    with contextlib.redirect_stdout(io.StringIO()):     # pox.core prints its banner when it is created
      world.boot()
    import pox.openflow.libopenflow_01 as of
    _of = of
    try:
      import pox.openflow.nicira as nx
      _nx = nx
    except Exception as e:          # import failure is judged per Nicira case, not as harness trouble
      _NX_ERR = e


# --------------------------------------------------------------------------- exception triage

def _repo_frames(exc):
  tb = exc.__traceback__
  frames = []
  while tb is not None:
    co = tb.tb_frame.f_code
    fn = os.path.realpath(co.co_filename)
    if fn.startswith(REPO_ROOT + os.sep):
      frames.append((os.path.relpath(fn, REPO_ROOT), getattr(co, "co_qualname", co.co_name), tb.tb_frame))
    tb = tb.tb_next
  return frames


def _in_harness(exc):
  """True when the innermost Python frame is harness code (then it is our bug, not a verdict)."""
  tb = exc.__traceback__
  last = None
  while tb is not None:
    last = os.path.realpath(tb.tb_frame.f_code.co_filename)
    tb = tb.tb_next
  return last is None or not last.startswith(REPO_ROOT + os.sep)


def _exc_key(exc, phase):
  frames = _repo_frames(exc)
  where, on = "?", "?"
  if frames:
    fn, qual, _ = frames[-1]
    where = "%s:%s" % (os.path.basename(fn), qual)
    for fn, qual, fr in reversed(frames):
      for name in ("self", "o", "a", "cls"):
        v = fr.f_locals.get(name)
        if v is not None:
          on = v.__name__ if isinstance(v, type) else type(v).__name__
          break
      if on != "?":
        break
  return {"clause": phase + "-raises", "exc": type(exc).__name__, "where": where, "on": on}


class _Stop(Exception):
  pass


# classes whose methods serve many concrete classes: an exception located there is told apart by the class it
# was working on
_SHARED = {"ofp_base", "ofp_header", "ofp_action_base", "ofp_action_vendor_base", "ofp_vendor_base", "nicira_base",
           "ofp_stats_body_base", "ofp_queue_prop_base", "nxm_entry", "nx_learn_spec", "_field_and_match",
           "_nxm_numeric", "_nxm_ip", "_nxm_ipv6", "_nxm_ether", "_nxm_raw", "_nxm_tcp_flags", "_empty_stats_request_body",
           "nx_match"}


def _exc_key(exc, phase):
  frames = _repo_frames(exc)
  key = {"clause": phase + "-raises", "exc": type(exc).__name__, "where": "?"}
  if frames:
    fn, qual, _ = frames[-1]
    key["where"] = "%s:%s" % (os.path.basename(fn), qual)
    owner = qual.split(".")[0] if "." in qual else None
    if owner is None or owner in _SHARED or "<locals>" in qual:
      on = "?"
      for fn, qual, fr in reversed(frames):
        for name in ("self", "o", "a", "e", "cls"):
          v = fr.f_locals.get(name)
          if v is not None and not isinstance(v, (int, str, bytes)):
            on = v.__name__ if isinstance(v, type) else type(v).__name__
            break
        if on != "?":
          break
      key["on"] = on
  return key


def _try(out, phase, fn):
  """-> (True, value) or (False, None) after recording the exception as a violation of `phase`."""
  try:
    return True, fn()
  except HarnessError:
    raise
  except (KeyboardInterrupt, SystemExit, MemoryError):
    raise
  except Exception as e:
    if _in_harness(e):
      raise
    import traceback
    out.violations.append({"key": _exc_key(e, phase),
                           "msg": "%s raised %r\n%s" % (phase, e, "".join(traceback.format_exception(e))[-1200:])})
    return False, None


def _guard(out, phase, fn):
  ok, v = _try(out, phase, fn)
  if not ok:
    raise _Stop()
  return v


# --------------------------------------------------------------------------- helpers

def _first_diff(a, b):
  """name of the first top-level field in which two field dicts differ"""
  if not isinstance(a, dict) or not isinstance(b, dict):
    return "?"
  for k in sorted(set(a) | set(b)):
    if a.get(k, _first_diff) != b.get(k, _first_diff):
      return k
  return "?"


def _short(x, n=300):
  s = repr(x)
  return s if len(s) <= n else s[:n] + "...(%d chars)" % len(s)


def _hexdiff(a, b):
  n = min(len(a), len(b))
  i = next((i for i in range(n) if a[i] != b[i]), n)
  lo = max(0, i - 8)
  return "lengths %d/%d, first difference at octet %d: got ...%s expected ...%s" % (
      len(a), len(b), i, a[lo:i + 16].hex(), b[lo:i + 16].hex())


_FM_KINDS = ("ofp_flow_mod", "ofp_flow_mod_table_id")


def _mask_wildcards(data, off, mask):
  if len(data) < off + 4:
    return data
  w, = struct.unpack_from("!L", data, off)
  return data[:off] + struct.pack("!L", w | mask) + data[off + 4:]


def _drop_ignored(m):
  """Remove from a semantic match the fields a switch ignores (their wildcard bits carry no information)."""
  ign = R.match_ignored_wildcards(m)
  out = {}
  for k, v in m.items():
    if k in R.OFPFW:
      if R.OFPFW[k] & ign:
        continue
    elif k == "nw_src" and ign & (63 << R.OFPFW_NW_SRC_SHIFT):
      continue
    elif k == "nw_dst" and ign & (63 << R.OFPFW_NW_DST_SHIFT):
      continue
    out[k] = v
  return out


def _category(kind):
  if kind.startswith("NXM") or kind in ("nx_match", "nxm_entry"):
    return "nxm"
  if kind in G.NX_MESSAGE_KINDS:
    return "nx-message"
  if kind in G.NX_ACTION_KINDS:
    return "nx-action"
  if R.is_message(kind):
    return "message"
  if kind in R.ACTIONS or kind == "ofp_action_generic":
    return "action"
  if kind in R.STATS_REQUEST or kind in R.STATS_REPLY or kind in ("ofp_flow_stats", "ofp_generic_stats_body"):
    return "stats-body"
  if kind.startswith("ofp_queue_prop") or kind == "ofp_packet_queue":
    return "queue"
  return "struct"


_LIST_FIELDS = ("actions", "ports", "queues", "properties", "spec", "slaves", "match", "entries")


def _nontrivial(cfrag, kind):
  f = cfrag["f"]
  dflt = dict(G.DEFAULTS.get(kind, {}))
  differs = False
  for k, v in f.items():
    d = dflt.get(k, None)
    if k == "xid":
      d = 0
    if d is G.REQUIRED or k in ("type", "total_len") and d is None:
      differs = differs or (k != "type" or kind in ("ofp_action_generic",))
      continue
    if isinstance(d, dict) and isinstance(v, dict) and k == "desc":
      if v != d:
        differs = True
      continue
    if v != d:
      differs = True
  lists = [f[k] for k in _LIST_FIELDS if isinstance(f.get(k), list)]
  if isinstance(f.get("body"), list):
    lists.append(f["body"])
  if lists and not any(len(l) for l in lists):
    return False
  return differs


# --------------------------------------------------------------------------- decoding through POX

def _decode(kind, cat, obj, buf, off, n, mode):
  """Decode n octets of kind at buf[off:] the way the library's users do.  -> (consumed, object)"""
  of = _of
  if cat in ("message", "nx-message"):
    cls = type(obj)
    if cat == "message" and kind != "ofp_flow_mod_table_id":
      cls = of._message_type_to_class[buf[off + 1]]          # the table of_01.unpackers is built from
    newoff, o = cls.unpack_new(buf, off)
    return newoff - off, o
  if cat == "action":
    newoff, lst = of._unpack_actions(buf, n, off)
    if len(lst) != 1:
      return newoff - off, lst
    return newoff - off, lst[0]
  if cat == "nx-action":
    newoff, o = type(obj).unpack_new(buf, off)
    return newoff - off, o
  if cat == "queue":
    if kind == "ofp_packet_queue":
      o = of.ofp_packet_queue()
      return o.unpack(buf, off) - off, o
    newoff, lst = of._unpack_queue_props(buf, n, off)
    if len(lst) != 1:
      return newoff - off, lst
    return newoff - off, lst[0]
  if cat == "stats-body":
    o = type(obj)()
    return o.unpack(buf, off, n) - off, o
  if kind == "ofp_phy_port":
    o = of.ofp_phy_port()
    return o.unpack(buf, off) - off, o
  if kind == "ofp_match":
    o = of.ofp_match()
    return o.unpack(buf, off, flow_mod=(mode == "flow_mod")) - off, o
  if kind == "nx_match":
    o = _nx.nx_match()
    return o.unpack(buf, off, n) - off, o
  if kind == "nxm_entry":
    newoff, o = _nx.nxm_entry.unpack_new(buf, off)
    return newoff - off, o
  raise HarnessError("no decoder for kind %s" % kind)


_UNPACKERS = None


def _unpacker_table():
  global _UNPACKERS
  if _UNPACKERS is None:
    from pox.openflow.util import make_type_to_unpacker_table
    _UNPACKERS = make_type_to_unpacker_table()
  return _UNPACKERS


# --------------------------------------------------------------------------- the oracle

def _check_object(out, case):
  frag = case["frag"]
  kind = frag["k"]
  cat = _category(kind)
  mode = case.get("mode", "plain")
  pre, trail = case.get("pre", b"") or b"", case.get("trail", b"") or b""
  out.label("kind:" + kind, "cat:" + cat)

  if cat in ("nxm", "nx-message", "nx-action") and _nx is None:
    out.fail("import", "pox.openflow.nicira cannot be imported: %r" % (_NX_ERR,), cls="nicira")
    return

  # ---- what the specification says the bytes are
  try:
    cfrag = G.complete(frag)
    exp = R.encode(cfrag)
    if kind in ("ofp_vendor_stats_generic", "ofp_generic_stats_body", "ofp_match", "nx_match"):
      nf = cfrag["f"]
    else:
      nf, n0 = R.decode(kind, exp)
      if n0 != len(exp) or R.encode(kind, nf) != exp:
        raise HarnessError("reference encode/decode disagree for %s" % (_short(cfrag),))
  except (R.RefError, ValueError, KeyError) as e:
    raise HarnessError("case outside the reference domain: %r for %s" % (e, _short(frag)))

  out.nontrivial = _nontrivial(cfrag, kind)
  if len(exp) > 32768:
    out.label("size:>32KiB")
  if len(exp) >= 65528:
    out.label("size:at-64KiB-limit")
  for lf in _LIST_FIELDS + ("body",):
    v = cfrag["f"].get(lf)
    if isinstance(v, list):
      ex = R.expand_list(v)
      n = len(ex)
      out.label("list:%s" % ("0" if n == 0 else "1" if n == 1 else "2-9" if n < 10 else "10+"))
      for ek in sorted({e["k"] for e in ex[:64] if isinstance(e, dict) and "k" in e}):
        out.label("contains:" + ek)
  # Equality is taken modulo two representation choices the library documents: vendor actions inside a
  # container decode as ofp_action_vendor_generic (there is no Nicira action dispatch), and an NXM entry given
  # with an all-ones mask is written, hence decoded, without mask.
  eq_exempt = False
  acts = cfrag["f"].get("actions")
  if isinstance(acts, list) and any(isinstance(a, dict) and a.get("k") in G.NX_ACTION_KINDS for a in R.expand_list(acts)):
    out.label("container-with-nicira-actions")
    eq_exempt = True
  raw_entries = []
  rf = frag["f"]
  if kind == "nxm_entry":
    raw_entries = [rf]
  elif kind == "nx_match":
    raw_entries = rf.get("entries", [])
  elif kind in ("nx_flow_mod", "nxt_packet_in"):
    raw_entries = rf.get("match", [])
  if any(e.get("mask") is not None and set(e["mask"]) == {0xff} for e in raw_entries):
    out.label("nxm:all-ones-mask")
    eq_exempt = True
  if kind == "nx_action_bundle" and rf.get("$form") == "int" and rf.get("slaves"):
    out.label("bundle:integer-slaves-shorthand")
    eq_exempt = True
  if kind == "ofp_stats_reply" and rf.get("$form") == "tuple-body":
    out.label("stats-reply:tuple-body")           # decodes to a list: equality not demanded, bytes and lengths are
    eq_exempt = True
  shorthand = False
  if kind == "nx_reg_load" and rf.get("$form") == "entry":
    out.label("reg_load:entry-instance-shorthand")     # decodes to (class, integer value): equality not demanded
    eq_exempt = shorthand = True
  consistent = True
  if kind == "ofp_match":
    consistent = R.match_consistent(cfrag["f"])
    out.label("match:" + ("consistent" if consistent else "inconsistent"), "match-mode:" + mode)

  # ---- construct, pack, len
  obj = _guard(out, "construct", lambda: G.build(frag))
  ok, twin = _try(out, "construct", lambda: G.build(frag))
  if ok:
    ok, eq = _try(out, "eq", lambda: ((obj == twin), (obj != twin)))
    if ok and eq != (True, False):
      out.fail("construct-eq", "two %s objects built from the same arguments compare (==, !=) = %s" % (kind, eq), cls=kind)
  skip_decode = False
  if kind == "nx_action_learn":
    # each part of a flow_mod_spec is its own little codec object: what it writes must be what it says it is long
    for sp in obj.spec:
      for part in (sp.src, sp.dst):
        ok, r = _try(out, "len", lambda: (len(part), len(part.pack())))
        if ok and r[0] != r[1]:
          out.fail("len", "len(%s) is %d but pack() returned %d octets" % (type(part).__name__, r[0], r[1]),
                   cls=type(part).__name__)
          skip_decode = True        # the decoder is driven by that length; nothing behind it can be judged
  if kind == "ofp_match":
    packed_ok, b = _try(out, "pack", lambda: obj.pack(flow_mod=(mode == "flow_mod")))
  else:
    packed_ok, b = _try(out, "pack", obj.pack)
  if packed_ok and not isinstance(b, bytes):
    out.fail("pack-type", "pack() of %s returned %s" % (kind, type(b).__name__), cls=kind)
    packed_ok = False
  len_ok, ln = _try(out, "len", lambda: len(obj))
  if kind == "ofp_stats_reply" and rf.get("$form") == "tuple-body" and packed_ok and len_ok:
    # pack() accepts any list-like body; the length must be taken from the same notion of "list-like"
    hl = struct.unpack_from("!H", b, 2)[0] if len(b) >= 4 else -1
    if ln != len(b) or hl != len(b):
      out.fail("list-like-body-length", "ofp_stats_reply with a tuple body: pack() wrote %d octets, len() is %d, header length %d" % (
          len(b), ln, hl), cls=kind)
      return
  if not packed_ok:
    # The class cannot be encoded (recorded above).  So that the search goes on behind this, the decoding
    # clauses are judged on the bytes the specification prescribes for the object.
    out.label("pack-broken:continued-with-reference-bytes")
    b = exp
    eq_exempt = True        # an object that cannot be encoded has no encoding to be equal modulo
  if packed_ok and len_ok and ln != len(b):
    out.fail("len", "len(%s) is %d but pack() returned %d octets" % (kind, ln, len(b)), cls=kind)
  if packed_ok and R.is_message(kind):
    if len(b) < 8:
      out.fail("header", "message shorter than a header", cls=kind)
      return
    ver, typ, hl, xid = struct.unpack_from("!BBHL", b, 0)
    if hl != len(b):
      out.fail("header-length", "%s: header length field %d, %d octets packed" % (kind, hl, len(b)), cls=kind)
    if ver != 1:
      out.fail("header-version", "%s: version octet %d" % (kind, ver), cls=kind)

  if kind == "ofp_match" and not consistent:
    if packed_ok:
      _check_inconsistent_match(out, obj, b, mode)
    return

  # ---- layout: the bytes are what the specification prescribes for the caller's values
  ign = 0
  moff = None
  if kind in _FM_KINDS:
    ign, moff = R.match_ignored_wildcards(cfrag["f"]["match"]), 8
  elif kind == "ofp_match" and mode == "flow_mod":
    ign, moff = R.match_ignored_wildcards(cfrag["f"]), 0
  cmp_b, cmp_exp = (b, exp) if moff is None else (_mask_wildcards(b, moff, ign), _mask_wildcards(exp, moff, ign))
  layout_ok = cmp_b == cmp_exp
  if packed_ok and not layout_ok:
    field = "?"
    try:
      got, _ = R.decode(kind, b) if kind != "ofp_vendor_stats_generic" else (None, 0)
      field = _first_diff(got, nf) if got is not None else "?"
    except R.RefError as e:
      field = "?"
    out.fail("layout", "%s: bytes differ from the specified layout (field %s): %s\n  fields: %s" % (
        kind, field, _hexdiff(b, exp), _short(nf)), cls=kind, field=field)

  # ---- the original object still holds what the caller gave (after pack's documented normalisation)
  ok, have = (False, None) if shorthand else _try(out, "attributes", lambda: G.fields_of(obj, kind))
  if not ok:
    have = nf
  want = nf
  if kind in ("ofp_stats_request", "ofp_stats_reply") and isinstance(have.get("body"), bytes):
    # the caller gave the body as raw octets; express it in the normal form of its statistics type
    try:
      have = dict(have, body=R._dec_stats_body(have.get("type"), kind == "ofp_stats_reply", have["body"]))
    except R.RefError as e:
      raise HarnessError("raw statistics body outside the reference domain: %r" % (e,))
  if have != want:
    fld = _first_diff(have, want)
    out.fail("attributes", "%s: public attributes after construction differ from the constructor arguments in %s: %s != %s" % (
        kind, fld, _short(have.get(fld) if isinstance(have, dict) else have), _short(want.get(fld) if isinstance(want, dict) else want)),
        cls=kind, field=fld)

  # ---- decode: exact buffer, and with other bytes before and after
  try:
    wire_fields, _ = R.decode(kind, b)
  except R.RefError:
    wire_fields = None            # malformed by the specification; already reported by the layout clause
  if wire_fields is not None and moff is not None:
    if kind == "ofp_match":
      wire_fields = _drop_ignored(wire_fields)
    else:
      wire_fields = dict(wire_fields, match=_drop_ignored(wire_fields["match"]))

  if skip_decode:
    out.label("decode-skipped:part-length-wrong")
    return
  variants = [("exact", b"", b"")]
  if pre or trail:
    variants.append(("embedded", pre, trail))
  for vname, p, t in variants:
    buf = p + b + t
    ok, r = _try(out, "unpack", lambda: _decode(kind, cat, obj, buf, len(p), len(b), mode))
    if not ok:
      return
    consumed, o2 = r
    if consumed != len(b):
      out.fail("consumed", "%s (%s buffer): decoding consumed %d of %d octets" % (kind, vname, consumed, len(b)),
               cls=kind, buffer=vname)
      continue
    if cat == "message" and kind != "ofp_flow_mod_table_id":
      # the registry path both connection classes use: make_type_to_unpacker_table()[type](buffer, offset)
      tbl = _unpacker_table()
      mtype = buf[len(p) + 1]
      fn = tbl[mtype] if mtype < len(tbl) else None
      if fn is None:
        out.fail("registry-missing", "%s: the type-to-unpacker table (%d entries) has no decoder for message type %d" % (
            kind, len(tbl), mtype), cls=kind)
        continue
      ok3, r3 = _try(out, "unpack-registry", lambda: fn(buf, len(p)))
      if not ok3:
        return
      if r3[0] - len(p) != len(b) or type(r3[1]) is not type(o2) or r3[1].pack() != o2.pack():
        out.fail("registry-decode", "%s (%s buffer): the unpacker table decodes differently from the class (consumed %d of %d, type %s)" % (
            kind, vname, r3[0] - len(p), len(b), type(r3[1]).__name__), cls=kind)
        continue
    if isinstance(o2, list):
      out.fail("decoded-count", "%s: decoded into %d objects" % (kind, len(o2)), cls=kind)
      continue
    if type(o2) is not type(obj):
      out.fail("decoded-type", "%s decoded as %s" % (kind, type(o2).__name__), cls=kind)
      continue
    ok, eq = (False, None) if eq_exempt else _try(out, "eq", lambda: ((o2 == obj), (obj == o2), (o2 != obj)))
    if ok and eq != (True, True, False):
      out.fail("roundtrip-eq", "%s (%s buffer): decoded object compares (==, reflected ==, !=) = %s to the original\n  fields: %s" % (
          kind, vname, eq, _short(nf)), cls=kind)
    if wire_fields is not None and not (eq_exempt and cat != "nxm" and kind != "nxt_packet_in" and "container-with-nicira-actions" in out.labels):
      try:
        ok, got = _try(out, "attributes", lambda: G.fields_of(o2, kind))
      except (AttributeError, TypeError, ValueError, KeyError, IndexError, struct.error, R.RefError) as e:
        # the decoded object is so malformed that its public attributes cannot even be read back
        ok = False
        out.fail("roundtrip-fields", "%s (%s buffer): attributes of the decoded object cannot be read: %r" % (kind, vname, e),
                 cls=kind, field="?")
      if ok and got != wire_fields:
        fld = _first_diff(got, wire_fields)
        out.fail("roundtrip-fields", "%s (%s buffer): decoded attribute %s is %s, the bytes say %s" % (
            kind, vname, fld, _short(got.get(fld) if isinstance(got, dict) else got),
            _short(wire_fields.get(fld) if isinstance(wire_fields, dict) else wire_fields)), cls=kind, field=fld)
    if not packed_ok:
      continue                    # re-encoding would only repeat the recorded pack failure
    if kind == "ofp_match":
      ok, b2 = _try(out, "pack", lambda: o2.pack(flow_mod=(mode == "flow_mod")))
    else:
      ok, b2 = _try(out, "pack", o2.pack)
    if ok and b2 != b:
      out.fail("reencode", "%s (%s buffer): re-encoding the decoded object gives different bytes: %s" % (
          kind, vname, _hexdiff(b2, b)), cls=kind)
    ok, l2 = _try(out, "len", lambda: len(o2))
    if ok and l2 != len(b):
      out.fail("len", "len(decoded %s) is %d, %d octets" % (kind, l2, len(b)), cls=kind)
  if case.get("retry") and packed_ok and not out.violations:
    _check_retry(out, kind, cat, frag, obj, b, mode)


def _check_inconsistent_match(out, obj, b, mode):
  """Outside the prerequisite-consistent domain POX documents a normalisation; require only that it is
  total (no exception, 40 octets) and idempotent."""
  of = _of
  fm = mode == "flow_mod"
  if len(b) != 40:
    out.fail("len", "ofp_match packed to %d octets" % len(b), cls="ofp_match")
    return

  def dec(x):
    m = of.ofp_match()
    n = m.unpack(x, 0, flow_mod=fm)
    if n != 40:
      out.fail("consumed", "ofp_match: decoding consumed %d of 40 octets" % n, cls="ofp_match", buffer="exact")
    return m
  m1 = _guard(out, "unpack", lambda: dec(b))
  b1 = _guard(out, "pack", lambda: m1.pack(flow_mod=fm))
  m2 = _guard(out, "unpack", lambda: dec(b1))
  b2 = _guard(out, "pack", lambda: m2.pack(flow_mod=fm))
  if b1 != b:
    out.label("match:inconsistent-not-wire-idempotent-1st-generation")
  if not (m2 == m1) or b2 != b1:
    out.fail("match-normalisation-idempotent", "inconsistent match (%s mode): dec(enc(dec(enc(m)))) != dec(enc(m)): %s / %s" % (
        mode, b1.hex(), b2.hex()), cls="ofp_match", mode=mode)


def _check_change(out, case):
  """Objects are mutable and POX's idiom is to build them up by attribute assignment and list appends.  An
  object that was already encoded (or measured) once and is then changed must encode its *new* state."""
  frag, change = case["frag"], case["then"]
  kind = frag["k"]
  out.label("kind:" + kind, "cat:change")
  f2 = dict(frag["f"])
  for k, v in change.get("set", {}).items():
    f2[k] = v
  for k, v in change.get("extend", {}).items():
    f2[k] = list(frag["f"].get(k, [])) + list(v)
  try:
    exp = R.encode(G.complete({"k": kind, "f": f2}))
  except (R.RefError, ValueError, KeyError) as e:
    raise HarnessError("change case outside the reference domain: %r for %s" % (e, _short(case)))
  out.nontrivial = True
  fields = sorted(set(change.get("set", {})) | set(change.get("extend", {})))
  obj = _guard(out, "construct", lambda: G.build(frag))
  ok, _ = _try(out, "pack", obj.pack)
  if not ok:
    return
  _try(out, "len", lambda: len(obj))
  donor_f = dict(_min_frag(kind))
  donor_f.update(change.get("set", {}))
  donor_f.update(change.get("extend", {}))
  donor = _guard(out, "construct", lambda: G.build({"k": kind, "f": donor_f}))
  for k in change.get("set", {}):
    setattr(obj, k, getattr(donor, k))
  for k in change.get("extend", {}):
    getattr(obj, k).extend(getattr(donor, k))
  ok, b = _try(out, "pack", obj.pack)
  if not ok:
    return
  ok, ln = _try(out, "len", lambda: len(obj))
  if kind in _FM_KINDS:
    ign = R.match_ignored_wildcards(G.complete({"k": kind, "f": f2})["f"]["match"])
    b, exp = _mask_wildcards(b, 8, ign), _mask_wildcards(exp, 8, ign)
  if b != exp or (ok and ln != len(b)) or (R.is_message(kind) and struct.unpack_from("!H", b, 2)[0] != len(b)):
    out.fail("repack-after-change", "%s: after changing %s on an object that had been packed, pack() does not encode the new "
             "state (len() %s, header length %s): %s" % (kind, fields, ln, struct.unpack_from("!H", b, 2)[0] if R.is_message(kind) else "-",
                                                         _hexdiff(b, exp)), cls=kind, field=fields[0] if fields else "?")


# --------------------------------------------------------------------------- encode, mutate in place, re-encode
_SCALAR = ("u8", "u16", "u32", "u64", "mac", "str", "bytes")
_MATCH_FIELDS = [(n, "u%d" % b) for n, b in R.MATCH_INT_FIELDS] + [("dl_src", "mac"), ("dl_dst", "mac"), ("nw_src", "addr"),
                                                                  ("nw_dst", "addr")]
_MUT_SKIP = None


def _mut_skip():
  global _MUT_SKIP
  if _MUT_SKIP is None:
    _MUT_SKIP = set(_GRID_SKIP) | {
      ("ofp_packet_out", "buffer_id"), ("ofp_packet_out", "data"),            # constructor contract ties the two
      ("ofp_packet_in", "total_len"), ("ofp_packet_in", "data"), ("nxt_packet_in", "total_len"), ("nxt_packet_in", "data"),
      ("ofp_action_output", "port"),          # pack() zeroes max_len for a non-controller port: documented, not reversible
    }
  return _MUT_SKIP


def _mut_candidates(kind, f, path=None, acc=None):
  """Every place of a fragment that can be changed in place on the built object:
  ("set", path, kind of the object at path, field, type) and ("nxm", path of the nx_match, index of the entry)."""
  path = [] if path is None else path
  acc = [] if acc is None else acc
  if kind == "ofp_match":
    for n, t in _MATCH_FIELDS:
      acc.append(("set", path, "ofp_match", n, t))
    return acc
  if kind == "nx_match":
    for i, e in enumerate(f.get("entries", [])):
      acc.append(("nxm", path, i))
    return acc
  if kind == "nxm_entry":
    return acc
  try:
    lay = R.layout_of(kind)
  except R.RefError:
    return acc
  for ent in lay:
    name, typ = ent[0], ent[1]
    if name is None or name.startswith("$"):
      continue
    v = f.get(name)
    if typ in _SCALAR:
      if (kind, name) not in _mut_skip():
        acc.append(("set", path, kind, name, typ if typ != "str" else ("str", ent[2])))
    elif typ == "match":
      _mut_candidates("ofp_match", v or {}, path + [name], acc)
    elif typ == "struct":
      _mut_candidates(ent[2], v or {}, path + [name], acc)
    elif typ in ("actions", "props") and isinstance(v, list):
      for i, el in enumerate(v):
        if isinstance(el, dict) and "k" in el:
          _mut_candidates(el["k"], el["f"], path + [name, i], acc)
    elif typ == "list" and isinstance(v, list):
      for i, el in enumerate(v):
        if isinstance(el, dict) and "$rep" not in el:
          _mut_candidates(ent[2], el, path + [name, i], acc)
    elif typ == "body":
      if isinstance(v, dict) and "k" in v:
        _mut_candidates(v["k"], v["f"], path + [name], acc)
      elif isinstance(v, list):
        for i, el in enumerate(v):
          if isinstance(el, dict) and "k" in el:
            _mut_candidates(el["k"], el["f"], path + [name, i], acc)
    elif typ == "nx_match" and isinstance(v, list):
      for i, e in enumerate(v):
        acc.append(("nxm", path + [name], i))
  return acc


def _mut_value(kind, name, typ, seed):
  if isinstance(typ, tuple):                      # ("str", width)
    return ("m%d" % (seed % 100000))[:typ[1]]
  if typ == "mac":
    return bytes(((seed >> (8 * i)) + i) & 0xff for i in range(6))
  if typ == "bytes":
    return bytes((seed + 3 * i) & 0xff for i in range(seed % 13))
  if typ == "addr":
    return [(seed * 2654435761) & 0xffffffff, 1 + seed % 32]
  bits = _GRID_RANGE.get((kind, name), int(typ[1:]))
  mx = (1 << bits) - 1
  return [seed & mx, 0, mx, 1 << (bits - 1), mx - 1, 1][seed % 6]


def _mut_nxm(entry, seed):
  """a new (value, mask) for an existing NXM entry and the way it is written, respecting the constructor contract"""
  name = entry["field"]
  n, maskable = R.NXM_FIELDS[name][2], R.NXM_FIELDS[name][3]
  old_v, old_m = R.expand_bytes(entry["value"]), entry.get("mask")
  rnd = bytes(((seed >> (i % 7)) + 37 * i + seed) & 0xff for i in range(n))
  rnd2 = bytes(((seed >> (i % 5)) * 3 + 11 * i) & 0xff for i in range(n))
  hows = ["attr", "entry"] + (["with_mask", "mask", "entry-mask"] if maskable else [])
  how = hows[seed % len(hows)]
  if how in ("attr", "entry"):
    v = rnd if old_m is None else bytes(a & b for a, b in zip(rnd, old_m))
    return how, v, old_m
  if name == "NXM_NX_TCP_FLAGS":
    rnd2 = bytes([rnd2[0] & 0x0f, rnd2[1]])
  if how == "with_mask":
    return how, bytes(a & b for a, b in zip(rnd, rnd2)), rnd2
  return how, old_v, bytes(a | b for a, b in zip(old_v, rnd2))


def _derive_mutation(frag, sel, seed):
  """pure: pick one candidate of the fragment by `sel` and a new value by `seed` -> the "mutate" record (or None)"""
  cands = _mut_candidates(frag["k"], frag["f"])
  if not cands:
    return None
  c = cands[sel % len(cands)]
  if c[0] == "set":
    _, path, tkind, name, typ = c
    return {"path": list(path), "kind": tkind, "field": name, "value": _mut_value(tkind, name, typ, seed)}
  _, path, idx = c
  cur = frag["f"]
  entries = cur["entries"] if frag["k"] == "nx_match" and not path else cur[path[0]]
  how, v, m = _mut_nxm(G._norm_nxm(entries[idx]), seed)
  return {"path": list(path), "kind": "nx_match", "index": idx, "how": how, "value": v, "mask": m}


def _frag_navigate(frag, path, create=True):
  """the field dict (or entry list) inside the fragment that `path` points at"""
  cur = frag["f"]
  i = 0
  while i < len(path):
    name = path[i]
    nxt = cur.get(name)
    if nxt is None:
      nxt = cur[name] = {}
    if isinstance(nxt, list):
      if i + 1 < len(path) and isinstance(path[i + 1], int):
        el = nxt[path[i + 1]]
        cur = el["f"] if "k" in el else el
        i += 2
        continue
      return nxt                       # the nx entry list itself
    cur = nxt["f"] if "k" in nxt else nxt
    i += 1
  return cur


def _obj_navigate(obj, path):
  for p in path:
    obj = obj[p] if isinstance(p, int) else getattr(obj, p)
  return obj


def _apply_set(tobj, tkind, name, value):
  of, A = G._pox()
  if tkind == "ofp_match":
    if name in ("dl_src", "dl_dst"):
      value = A.EthAddr(bytes(value))
    elif name in ("nw_src", "nw_dst"):
      value = (A.IPAddr(value[0]), value[1])
    setattr(tobj, name, value)
    return
  donor_f = dict(_min_frag(tkind))
  donor_f.pop("xid", None) if not R.is_message(tkind) else None
  donor_f[name] = value
  donor = G.build({"k": tkind, "f": donor_f})
  if tkind == "nx_flow_mod_table_id" and name == "set":
    tobj.enable = donor.enable
  elif name == "ofs_nbits":
    tobj.offset, tobj.nbits = donor.offset, donor.nbits
  else:
    setattr(tobj, name, getattr(donor, name))


def _check_mutate(out, case):
  """Encode, mutate in place, re-encode.  POX objects are built up and edited by attribute assignment, also on
  the objects nested inside a message (msg.match.in_port = .., msg.actions[0].port = .., m.of_ip_src = .. a second
  time, entry.value = ..).  After a first pack() and len(), one field is changed in place; the second pack() must
  equal the pack() of an object freshly built with the changed value, and len() / the header length must agree."""
  from .. import case as casemod
  frag, mut = case["frag"], case["mutate"]
  kind = frag["k"]
  mode = case.get("mode", "plain")
  out.label("kind:" + kind, "cat:mutate", "mutate-target:" + mut["kind"])
  if _category(kind) in ("nxm", "nx-message", "nx-action") and _nx is None:
    return
  frag2 = casemod.from_jsonable(casemod.to_jsonable(frag))      # a copy without shared sub-objects, as a replay file has it
  try:
    if mut["kind"] == "nx_match":
      lst = _frag_navigate(frag2, mut["path"]) if mut["path"] else frag2["f"]["entries"]
      if isinstance(lst, dict):
        lst = lst["entries"]
      old = G._norm_nxm(lst[mut["index"]])
      lst[mut["index"]] = {"field": old["field"], "value": mut["value"], "mask": mut["mask"]}
      what = "%s %s" % (mut["how"], old["field"])
    else:
      _frag_navigate(frag2, mut["path"])[mut["field"]] = mut["value"]
      what = "%s.%s" % (mut["kind"], mut["field"])
    G.wire(frag2)
  except (R.RefError, ValueError, KeyError, IndexError) as e:
    raise HarnessError("mutate case outside the reference domain: %r for %s" % (e, _short(case, 600)))
  obj = _guard(out, "construct", lambda: G.build(frag))
  b1 = _guard(out, "pack", lambda: _pack_of(kind, obj, mode))
  _guard(out, "len", lambda: len(obj))
  _try(out, "eq", lambda: obj == obj)
  fresh = _guard(out, "construct", lambda: G.build(frag2))
  want = _guard(out, "pack", lambda: _pack_of(kind, fresh, mode))
  out.nontrivial = want != b1

  def change():
    t = _obj_navigate(obj, mut["path"])
    if mut["kind"] != "nx_match":
      return _apply_set(t, mut["kind"], mut["field"], mut["value"])
    f = old["field"]
    v = G.nxm_value_to_py(f, mut["value"])
    m = None if mut["mask"] is None else G.nxm_value_to_py(f, mut["mask"])
    how = mut["how"]
    if how == "attr":
      setattr(t, f, v)
    elif how == "with_mask":
      setattr(t, f + "_with_mask", (v, m))
    elif how == "mask":
      setattr(t, f + "_mask", m)
    elif how == "entry":
      t[mut["index"]].value = v
    elif how == "entry-mask":
      t[mut["index"]].mask = m
    else:
      raise HarnessError("mutation %r" % (how,))
  _guard(out, "mutate", change)
  ok, b2 = _try(out, "pack", lambda: _pack_of(kind, obj, mode))
  if not ok:
    return
  ok, ln = _try(out, "len", lambda: len(obj))
  problems = []
  if b2 != want:
    problems.append("second pack() differs from the pack() of a freshly built object: %s" % _hexdiff(b2, want))
  if ok and ln != len(b2):
    problems.append("len() is %d, pack() returned %d octets" % (ln, len(b2)))
  if R.is_message(kind) and len(b2) >= 4 and struct.unpack_from("!H", b2, 2)[0] != len(b2):
    problems.append("header length %d for %d octets" % (struct.unpack_from("!H", b2, 2)[0], len(b2)))
  if problems:
    out.fail("encode-mutate-reencode", "%s: after pack(), len() and then changing %s in place (path %s): %s" % (
        kind, what, mut["path"], "; ".join(problems)), cls=kind, target=mut["kind"],
        field=mut.get("field", mut.get("how")), via=str(mut["path"][0]) if mut["path"] else "-")


def _check_collect_raw(out, case):
  """ofp_vendor_generic documents a switch: with _collect_raw set, unpack() also keeps the raw message in .raw"""
  frag = case["frag"]
  out.label("kind:" + frag["k"], "cat:collect-raw")
  out.nontrivial = True
  obj = _guard(out, "construct", lambda: G.build(frag))
  b = _guard(out, "pack", obj.pack)
  tgt = _of.ofp_vendor_generic()
  tgt._collect_raw = True
  pre = case.get("pre", b"") or b""
  ok, r = _try(out, "unpack-collect-raw", lambda: tgt.unpack(pre + b + b"\xff", len(pre)))
  if not ok:
    return
  if r != (len(pre) + len(b), len(b)) or getattr(tgt, "raw", None) != b or not (tgt == obj):
    out.fail("collect-raw", "ofp_vendor_generic with _collect_raw: unpack() returned %r, .raw is %s" % (
        r, _short(getattr(tgt, "raw", None))), cls="ofp_vendor_generic")


def _unpack_into(kind, cat, obj, buf, off, n, mode):
  """The public instance unpack(): decode n octets at buf[off:] INTO an existing object.  -> consumed"""
  if cat in ("message", "nx-message"):
    newoff, length = obj.unpack(buf, off)
    if length != n:
      return ("length", length)
    return newoff - off
  if cat == "stats-body":
    return obj.unpack(buf, off, n) - off
  if kind == "ofp_match":
    return obj.unpack(buf, off, flow_mod=(mode == "flow_mod")) - off
  if kind == "nx_match":
    return obj.unpack(buf, off, n) - off
  if kind == "nxm_entry":
    return None                      # entries have no instance unpack
  return obj.unpack(buf, off) - off   # actions, queue properties, packet queue, phy port


def _pack_of(kind, obj, mode):
  return obj.pack(flow_mod=(mode == "flow_mod")) if kind == "ofp_match" else obj.pack()


def _same_as_fresh(out, clause, kind, cat, obj, bts, mode, what, **extra):
  """obj (decoded into, or retried on) must be indistinguishable from a fresh decode of the same bytes."""
  ok, r = _try(out, "unpack", lambda: _decode(kind, cat, obj, bts, 0, len(bts), mode))
  if not ok or isinstance(r[1], list) or r[0] != len(bts):
    return                                # the plain round-trip clauses report that
  fresh = r[1]
  problems = []
  ok, eq = _try(out, "eq", lambda: ((obj == fresh), (fresh == obj), (obj != fresh)))
  if ok and eq != (True, True, False):
    problems.append("compares (==, reflected ==, !=) = %s to a fresh decode of the same bytes" % (eq,))
  try:
    ok, fo = _try(out, "attributes", lambda: (G.fields_of(obj, kind), G.fields_of(fresh, kind)))
    if ok and fo[0] != fo[1]:
      fld = _first_diff(fo[0], fo[1])
      problems.append("attribute %s is %s, a fresh decode has %s" % (fld, _short(fo[0].get(fld) if isinstance(fo[0], dict) else fo[0], 120),
                                                                      _short(fo[1].get(fld) if isinstance(fo[1], dict) else fo[1], 120)))
  except (AttributeError, TypeError, ValueError, KeyError, IndexError, struct.error, R.RefError) as e:
    problems.append("attributes cannot be read back: %r" % (e,))
  ok, b2 = _try(out, clause + ":pack", lambda: _pack_of(kind, obj, mode))
  if ok and b2 != bts:
    problems.append("re-encodes differently: %s" % _hexdiff(b2, bts))
  ok, l2 = _try(out, clause + ":len", lambda: len(obj))
  if ok and l2 != len(bts):
    problems.append("len() is %d for %d octets" % (l2, len(bts)))
  if problems:
    out.fail(clause, "%s, %s: %s" % (kind, what, "; ".join(problems)), cls=kind, **extra)


def _check_pair(out, case):
  """Decode into a dirty object.  unpack(raw, offset) on an existing instance is public API (a dispatcher that keeps
  one scratch message): an object A that has already been packed / measured / decoded into, and then decodes the
  bytes of B, must afterwards be B -- equal to a fresh decode, same attributes, same re-encoding, same len()."""
  fa, fb = case["dirty"], case["frag"]
  kind = fb["k"]
  if fa["k"] != kind:
    raise HarnessError("pair case with two kinds")
  cat = _category(kind)
  mode = case.get("mode", "plain")
  out.label("kind:" + kind, "cat:dirty-decode")
  if cat in ("nxm", "nx-message", "nx-action") and _nx is None:
    return
  try:
    ea, eb = G.wire(fa), G.wire(fb)
  except (R.RefError, ValueError, KeyError) as e:
    raise HarnessError("pair case outside the reference domain: %r for %s" % (e, _short(case)))
  out.nontrivial = ea != eb
  out.label("pair:" + ("same" if ea == eb else "equal-size" if len(ea) == len(eb) else "different-size"))
  a = _guard(out, "construct", lambda: G.build(fa))
  bobj = _guard(out, "construct", lambda: G.build(fb))
  ba = _guard(out, "pack", lambda: _pack_of(kind, a, mode))
  bb = _guard(out, "pack", lambda: _pack_of(kind, bobj, mode))
  _guard(out, "len", lambda: len(a))
  _try(out, "eq", lambda: a == bobj)          # comparisons may cache too
  if kind == "ofp_match" and not (R.match_consistent(G.complete(fa)["f"]) and R.match_consistent(G.complete(fb)["f"])):
    out.label("pair:inconsistent-match-skipped")
    return
  pre = case.get("pre", b"") or b""
  for step, bts in (("packed object decodes another", bb), ("then decodes its first bytes again", ba),
                    ("then the other once more", bb)):
    buf = pre + bts + b"\xff\xfe"
    ok, consumed = _try(out, "dirty-decode:unpack", lambda: _unpack_into(kind, cat, a, buf, len(pre), len(bts), mode))
    if not ok or consumed is None:
      return
    if consumed != len(bts):
      out.fail("dirty-decode", "%s, %s: unpack() into an existing object consumed / reported %r for %d octets" % (
          kind, step, consumed, len(bts)), cls=kind, aspect="consumed")
      return
    _same_as_fresh(out, "dirty-decode", kind, cat, a, bts, mode, step, aspect="state")
    if out.violations:
      return


# None is a documented value of these, not a transient error (and an output action without port is "not to the
# controller", which legitimately zeroes max_len)
_NO_NULL = {"xid", "buffer_id", "total_len", "type", "port"}


def _check_retry(out, kind, cat, frag, obj, b, mode):
  """Retry after failure.  A pack() that failed for a transient, caller-fixable reason (a field or an action not
  filled in yet) and an unpack() that failed on a buffer that was not complete yet must leave the object usable:
  the retry with good input behaves exactly like a fresh object."""
  if kind == "nxm_entry":
    return
  out.label("retry-checked")
  # ---- unpack: truncated buffers first, then the complete one, into the same object
  ok, tgt = _try(out, "construct", lambda: type(obj)() if kind not in ("ofp_action_dl_addr", "ofp_action_nw_addr",
                                                                       "ofp_action_tp_port") else G.build(frag))
  if ok:
    cuts = sorted({t for t in (len(b) - 1, len(b) - 4, (len(b) + 8) // 2, 4, len(b) - 8) if 0 < t < len(b)}, reverse=True)
    failed = 0
    for t in cuts:
      try:
        _unpack_into(kind, cat, tgt, b[:t], 0, len(b), mode)
      except Exception as e:
        if _in_harness(e):
          raise
        failed += 1
    if failed:
      out.label("retry:unpack-after-%d-truncated" % min(failed, 3))
    ok, consumed = _try(out, "retry-after-failure:unpack", lambda: _unpack_into(kind, cat, tgt, b, 0, len(b), mode))
    if ok and consumed is not None:
      if consumed != len(b):
        out.fail("retry-after-failure", "%s: unpack() of the complete buffer after %d truncated attempts consumed / reported %r for %d octets" % (
            kind, failed, consumed, len(b)), cls=kind, phase="unpack")
      else:
        _same_as_fresh(out, "retry-after-failure", kind, cat, tgt, b, mode,
                       "unpack() of the complete buffer after %d truncated attempts" % failed, phase="unpack")
  # ---- pack: make it fail, repair, retry on the same object
  if kind == "ofp_match":
    return
  src = G.build(frag)
  _pack_of(kind, src, mode)
  attempts = []
  try:
    ints = R.int_fields(kind)
  except R.RefError:
    ints = []                       # nx_match: no scalar fields
  names = [n for n, _ in ints if n not in _NO_NULL and hasattr(src, n) and isinstance(getattr(src, n), int)]
  for n in ([names[0], names[-1]] if len(names) > 1 else names):
    attempts.append(("field", n))
  if isinstance(getattr(src, "actions", None), list):
    attempts.append(("action", None))
  for how, name in attempts:
    o = G.build(frag)
    if how == "field":
      saved = getattr(o, name)
      setattr(o, name, None)
    else:
      o.actions.append(_of.ofp_action_output())          # port not given yet: cannot be packed
    raised = False
    try:
      _pack_of(kind, o, mode)
    except Exception as e:
      if _in_harness(e):
        raise
      raised = True
    if how == "field":
      setattr(o, name, saved)
    else:
      o.actions.pop()
    out.label("retry:pack-%s-%s" % (how, "failed-first" if raised else "did-not-fail"))
    what = "pack() after a first pack() that %s (%s)" % ("raised" if raised else "did not raise",
                                                         "field %s was None" % name if how == "field" else "an action without port")
    ok, b2 = _try(out, "retry-after-failure:pack", lambda: _pack_of(kind, o, mode))
    if not ok:
      continue
    problems = []
    if b2 != b:
      problems.append("bytes differ from the first-time encoding: %s" % _hexdiff(b2, b))
    ok, l2 = _try(out, "retry-after-failure:len", lambda: len(o))
    if ok and l2 != len(b):
      problems.append("len() is %d for %d octets" % (l2, len(b)))
    ok, eq = _try(out, "eq", lambda: ((o == src), (o != src)))
    if ok and eq != (True, False):
      problems.append("compares (==, !=) = %s to an object built and packed without the failure" % (eq,))
    if problems:
      out.fail("retry-after-failure", "%s, %s: %s" % (kind, what, "; ".join(problems)), cls=kind, phase="pack")


def _check_constant(out, case):
  """The numeric codes the library exports under the specification's names are the specification's."""
  name = case["const"]
  out.label("cat:constant")
  want = R.SPEC_CONSTANTS[name]
  if not hasattr(_of, name):
    out.label("constant-not-exported")
    return
  out.nontrivial = want != 0
  got = getattr(_of, name)
  if got != want:
    out.fail("constant", "libopenflow_01.%s is %r, openflow.h 1.0.0 says %r" % (name, got, want), name=name)


def run_case(case):
  setup()
  out = Outcome()
  try:
    if "const" in case:
      _check_constant(out, case)
    elif "dirty" in case:
      _check_pair(out, case)
    elif "mutate" in case:
      _check_mutate(out, case)
    elif case.get("collect_raw"):
      _check_collect_raw(out, case)
    elif "then" in case:
      _check_change(out, case)
    else:
      _check_object(out, case)
  except _Stop:
    pass
  return out


# --------------------------------------------------------------------------- enumerations

_PRE = b"\x01\x02\x00\x08\xde\xad\xbe\xef"           # a complete echo request in front
_TRAIL = b"\x01\x00\x00\x08\x00\x00\x00\x01\xff\xff\xff"   # a hello and three stray octets behind


def _case(frag, pre=_PRE, trail=_TRAIL, **kw):
  c = {"frag": frag, "pre": pre, "trail": trail, "retry": True}
  c.update(kw)
  return c


def _bounds(bits):
  return [0, (1 << bits) - 1, 1 << (bits - 1)]


_MIN_FRAGS = {
  # the smallest legal fragment of each kind (required arguments only)
  "ofp_action_output": {"port": 1}, "ofp_action_enqueue": {"port": 1}, "ofp_action_dl_addr": {"type": 4},
  "ofp_action_nw_addr": {"type": 6}, "ofp_action_tp_port": {"type": 9}, "ofp_action_generic": {"type": 0x1234},
  "ofp_queue_prop_generic": {"property": 7}, "ofp_vendor_stats_generic": {"vendor": 0x2320},
  "ofp_stats_request": {"body": {"k": "ofp_port_stats_request", "f": {}}},
  "ofp_stats_reply": {"body": {"k": "ofp_aggregate_stats", "f": {}}},
  "nx_action_resubmit": {"subtype": 1, "in_port": 1, "table": 0}, "nx_action_set_tunnel": {"tun_id": 1},
  "nx_action_set_tunnel64": {"tun_id": 1},
  "nx_reg_move": {"nbits": 16, "src": R.nxm_header("NXM_NX_REG1"), "dst": R.nxm_header("NXM_NX_REG2")},
  "nx_reg_load": {"ofs_nbits": 15, "dst": R.nxm_header("NXM_NX_REG3"), "value": 42},
  "nx_output_reg": {"ofs_nbits": 15, "reg": R.nxm_header("NXM_NX_TUN_ID")},
  "nx_action_pop_mpls": {"ethertype": 0x0800}, "nx_action_mpls_label": {"label": 1}, "nx_action_mpls_tc": {"tc": 1},
}
# fields whose values are not free integers in the grid
_GRID_SKIP = {
  ("ofp_action_dl_addr", "type"), ("ofp_action_nw_addr", "type"), ("ofp_action_tp_port", "type"),
  ("ofp_stats_request", "type"), ("ofp_stats_reply", "type"), ("nx_action_resubmit", "subtype"),
  ("nx_action_bundle", "subtype"), ("nx_action_bundle", "slave_type"), ("nx_action_bundle", "dst"),
  ("nx_action_bundle", "ofs_nbits"),
  ("nx_reg_move", "src"), ("nx_reg_move", "dst"), ("nx_reg_load", "dst"), ("nx_output_reg", "reg"),
  ("nx_flow_mod_table_id", "set"),
}
_GRID_RANGE = {   # narrower wire ranges of composite fields
  ("ofp_flow_mod_table_id", "command"): 8, ("nx_flow_mod", "command"): 8,
}


def _min_frag(kind):
  f = dict(_MIN_FRAGS.get(kind, {}))
  if R.is_message(kind):
    f.setdefault("xid", 0)
  return f


def _grid_kinds():
  return (G.OF10_MESSAGE_KINDS + G.OF10_ACTION_KINDS + G.STATS_REQUEST_KINDS + G.STATS_REPLY_KINDS + G.QUEUE_KINDS +
          ["ofp_phy_port"] + (G.NX_MESSAGE_KINDS + G.NX_ACTION_KINDS if _NICIRA else []))


def enum_grid(tier):
  seen = set()
  for kind in _grid_kinds():
    if kind in seen:
      continue
    seen.add(kind)
    base = _min_frag(kind)
    yield _case({"k": kind, "f": dict(base)})
    yield _case({"k": kind, "f": dict(base)}, pre=b"", trail=b"")
    ints = [(n, b) for n, b in R.int_fields(kind) if (kind, n) not in _GRID_SKIP]
    ints = [(n, _GRID_RANGE.get((kind, n), b)) for n, b in ints]
    for name, bits in ints:
      for v in _bounds(bits):
        f = dict(base)
        f[name] = v
        if kind == "ofp_action_generic" and name == "type" and v == 0:
          continue                      # type 0 is OFPAT_OUTPUT, not an unknown action
        if kind == "ofp_queue_prop_generic" and name == "property" and v == 0:
          continue
        if kind == "ofp_action_generic" and name == "type" and v in (0xffff,):
          continue
        if kind == "ofp_vendor_generic" and name == "vendor" and v == R.NX_VENDOR_ID:
          continue
        yield _case({"k": kind, "f": f})
    if ints:
      for pick in (1, 2):
        f = dict(base)
        for name, bits in ints:
          v = _bounds(bits)[pick]
          if (kind, name) in (("ofp_action_generic", "type"), ("ofp_queue_prop_generic", "property")):
            v = 0xfffe if pick == 1 else 0x8000
          f[name] = v
        if kind == "ofp_packet_out":
          f["buffer_id"] = _bounds(32)[pick]
        yield _case({"k": kind, "f": f})
    # text and address fields
    for ent in R.layout_of(kind):
      if ent[1] == "str":
        for s in ("", "x", "n" * ent[2], "\xff" * ent[2], "a" * (ent[2] - 1)):
          yield _case({"k": kind, "f": dict(base, **{ent[0]: s})})
      elif ent[1] == "mac":
        for m in (b"\0" * 6, b"\xff" * 6, b"\x80\0\0\0\0\0", b"\1\2\3\4\5\6"):
          yield _case({"k": kind, "f": dict(base, **{ent[0]: m})})
  # explicit-type variants of the two-code kinds and statistics containers
  for kind, codes in (("ofp_action_dl_addr", (4, 5)), ("ofp_action_nw_addr", (6, 7)), ("ofp_action_tp_port", (9, 10))):
    for c in codes:
      for v in (0, 1):
        f = {"type": c}
        if v:
          f[{"ofp_action_dl_addr": "dl_addr", "ofp_action_nw_addr": "nw_addr", "ofp_action_tp_port": "tp_port"}[kind]] = \
              {"ofp_action_dl_addr": b"\xff" * 6, "ofp_action_nw_addr": 0xffffffff, "ofp_action_tp_port": 0xffff}[kind]
        yield _case({"k": kind, "f": f})
  for port in (0xfffd, 0xfffc, 0):
    for ml in (0, 0xffff, 0x8000):
      yield _case({"k": "ofp_action_output", "f": {"port": port, "max_len": ml}})
  for bk in G.STATS_REQUEST_KINDS:
    body = {"k": bk, "f": _min_frag(bk)}
    if bk == "ofp_generic_stats_body":
      for d in (b"", b"\1\2\3"):
        yield _case({"k": "ofp_stats_request", "f": {"xid": 5, "type": 77, "body": {"k": bk, "f": {"data": d}}}})
      continue
    for f in ({"xid": 5, "body": body}, {"xid": 5, "body": body, "type": R.stats_type_of(bk, False), "flags": 0xffff}):
      yield _case({"k": "ofp_stats_request", "f": f})
  for t in (0, 3):
    yield _case({"k": "ofp_stats_request", "f": {"xid": 1, "type": t}})
  for t, body in ((6, b""), (0xfffe, b"\1\2\3\4"), (0x8000, b"\0" * 8)):
    yield _case({"k": "ofp_stats_request", "f": {"xid": 1, "type": t, "body": body}})
    yield _case({"k": "ofp_stats_reply", "f": {"xid": 1, "type": t, "body": body}})
  for bk in G.STATS_REPLY_KINDS:
    t = R.stats_type_of(bk, True)
    e = {"k": bk, "f": _min_frag(bk)}
    if R.stats_reply_is_array(t):
      yield _case({"k": "ofp_stats_reply", "f": {"xid": 1, "type": t, "body": []}})
      for n in (1, 2, 3):
        yield _case({"k": "ofp_stats_reply", "f": {"xid": 1, "body": [e] * n, "flags": 1}})
        yield _case({"k": "ofp_stats_reply", "f": {"xid": 1, "type": t, "body": [e] * n}})
    else:
      yield _case({"k": "ofp_stats_reply", "f": {"xid": 1, "body": e}})
      yield _case({"k": "ofp_stats_reply", "f": {"xid": 1, "type": t, "body": e, "flags": 0xffff}})
  # containers with one / several elements of every element kind
  one_of_each = [{"k": k, "f": _min_frag(k)} for k in G.OF10_ACTION_KINDS]
  for acts in [[a] for a in one_of_each] + [one_of_each, one_of_each[::-1]]:
    yield _case({"k": "ofp_flow_mod", "f": {"xid": 1, "actions": acts}})
    yield _case({"k": "ofp_packet_out", "f": {"xid": 1, "actions": acts, "data": b"payload"}})
    yield _case({"k": "ofp_packet_out", "f": {"xid": 1, "actions": acts, "buffer_id": 7}})
    yield _case({"k": "ofp_stats_reply", "f": {"xid": 1, "body": [{"k": "ofp_flow_stats", "f": {"actions": acts}}] * 2}})
  for n in (1, 2, 5):
    yield _case({"k": "ofp_features_reply", "f": {"xid": 1, "ports": [{"port_no": i, "name": "eth%d" % i} for i in range(n)]}})
  props = [{"k": "ofp_queue_prop_min_rate", "f": {"rate": 10}}, {"k": "ofp_queue_prop_none", "f": {}},
           {"k": "ofp_queue_prop_generic", "f": {"property": 9}}]
  for ps in ([props[0]], [props[0], props[0]], [props[1]], [props[2]], props):
    yield _case({"k": "ofp_packet_queue", "f": {"queue_id": 3, "properties": ps}})
    yield _case({"k": "ofp_queue_get_config_reply", "f": {"xid": 1, "port": 1, "queues": [{"queue_id": 1, "properties": ps},
                                                                                        {"queue_id": 2}]}})
  # every residue of the 8-octet alignment for each variable-length element, alone and with neighbours behind it
  blob = lambda n: bytes(range(1, n + 1))
  mr = {"k": "ofp_queue_prop_min_rate", "f": {"rate": 3}}
  for n in range(0, 18):
    gp = {"k": "ofp_queue_prop_generic", "f": {"property": 9, "data": blob(n)}}
    np_ = {"k": "ofp_queue_prop_none", "f": {"data": blob(n)}}
    yield _case(gp)
    yield _case(np_)
    for ps in ([gp], [gp, mr], [np_, gp, mr], [mr, np_], [gp, gp, np_, mr]):
      yield _case({"k": "ofp_packet_queue", "f": {"queue_id": n, "properties": ps}})
    yield _case({"k": "ofp_queue_get_config_reply", "f": {"xid": 1, "port": 2, "queues": [
        {"queue_id": 1, "properties": [gp, mr]}, {"queue_id": 2, "properties": [np_]}, {"queue_id": 3, "properties": [mr, gp, np_]}]}})
    ga = {"k": "ofp_action_generic", "f": {"type": 0x1234, "data": blob(n)}}
    va = {"k": "ofp_action_vendor_generic", "f": {"vendor": 7, "body": blob(n)}}
    out1 = {"k": "ofp_action_output", "f": {"port": 1}}
    yield _case(ga)
    yield _case(va)
    for acts in ([ga, out1], [va, out1], [out1, ga, va, out1]):
      yield _case({"k": "ofp_flow_mod", "f": {"xid": 1, "actions": acts}})
      yield _case({"k": "ofp_packet_out", "f": {"xid": 1, "actions": acts, "data": blob(n)}})
      yield _case({"k": "ofp_stats_reply", "f": {"xid": 1, "body": [{"k": "ofp_flow_stats", "f": {"actions": acts}}] * 2}})
    for kind, fld in (("ofp_echo_request", "body"), ("ofp_echo_reply", "body"), ("ofp_error", "data"), ("ofp_vendor_generic", "data"),
                      ("ofp_packet_in", "data")):
      yield _case({"k": kind, "f": {"xid": 1, fld: blob(n)}})
    vs = {"k": "ofp_vendor_stats_generic", "f": {"vendor": 5, "data": blob(n)}}
    yield _case(vs)
    yield _case({"k": "ofp_stats_request", "f": {"xid": 1, "body": vs}})
    yield _case({"k": "ofp_stats_reply", "f": {"xid": 1, "body": vs}})
    yield _case({"k": "ofp_stats_request", "f": {"xid": 1, "type": 77, "body": blob(n)}})
    yield _case({"k": "ofp_stats_reply", "f": {"xid": 1, "type": 77, "body": blob(n)}})
  for d, tl in ((b"", None), (b"abc", None), (b"abc", 3), (b"abc", 0xffff), (b"", 0xffff), (b"x" * 60, 1500)):
    f = {"xid": 1, "data": d}
    if tl is not None:
      f["total_len"] = tl
    yield _case({"k": "ofp_packet_in", "f": f})


def _match_with_prereq(name):
  if name in ("nw_tos",):
    return {"dl_type": 0x0800}
  if name in ("nw_proto", "nw_src", "nw_dst"):
    return {"dl_type": 0x0800}
  if name in ("tp_src", "tp_dst"):
    return {"dl_type": 0x0800, "nw_proto": 6}
  return {}


def enum_match(tier):
  base_cases = [{}, {"dl_type": 0x0800}, {"dl_type": 0x0806}, {"dl_type": 0x86dd}, {"dl_type": 0x0800, "nw_proto": 6},
                {"dl_type": 0x0800, "nw_proto": 47}, {"dl_type": 0x0806, "nw_proto": 1},
                {"dl_type": 0x0800, "nw_proto": 17, "tp_src": 53, "tp_dst": 53, "nw_src": [0x0a000001, 32],
                 "nw_dst": [0xc0a80000, 16], "nw_tos": 0xfc, "in_port": 1, "dl_vlan": 0xffff, "dl_vlan_pcp": 7,
                 "dl_src": b"\1\2\3\4\5\6", "dl_dst": b"\xff" * 6}]
  cases = list(base_cases)
  for name, bits in R.MATCH_INT_FIELDS:
    for v in _bounds(bits):
      if name == "dl_type":
        cases.append({"dl_type": v})
        continue
      m = _match_with_prereq(name)
      if name == "nw_proto":
        m = {"dl_type": 0x0806}
      m[name] = v
      cases.append(m)
      if name == "nw_proto":
        cases.append({"dl_type": 0x0800, "nw_proto": v})
  for name in ("dl_src", "dl_dst"):
    for v in (b"\0" * 6, b"\xff" * 6, b"\x80\0\0\0\0\0"):
      cases.append({name: v})
  for name in ("nw_src", "nw_dst"):
    for dlt in (0x0800, 0x0806):
      for addr in (0, 0xffffffff, 0x80000000, 0x0a000001):
        for plen in (1, 8, 31, 32):
          cases.append({"dl_type": dlt, name: [addr, plen]})
  # inconsistent ones (normalisation only)
  cases += [{"nw_tos": 4}, {"nw_proto": 6}, {"tp_src": 80}, {"nw_src": [0x0a000001, 32]},
            {"dl_type": 0x86dd, "nw_proto": 6, "nw_src": [1, 32], "tp_dst": 1, "nw_tos": 8},
            {"dl_type": 0x0806, "nw_tos": 4, "tp_src": 1}, {"dl_type": 0x0800, "nw_proto": 47, "tp_src": 1},
            {"dl_type": 0x0800, "tp_dst": 1}, {"dl_type": 0x88cc, "nw_dst": [5, 8], "nw_proto": 1}]
  for m in cases:
    for mode in ("plain", "flow_mod"):
      yield _case({"k": "ofp_match", "f": m}, mode=mode)
    if R.match_consistent(m):
      yield _case({"k": "ofp_flow_mod", "f": {"xid": 1, "match": m}})
      yield _case({"k": "ofp_flow_removed", "f": {"xid": 1, "match": m}})
      yield _case({"k": "ofp_stats_request", "f": {"xid": 1, "body": {"k": "ofp_flow_stats_request", "f": {"match": m}}}})
      yield _case({"k": "ofp_stats_reply", "f": {"xid": 1, "body": [{"k": "ofp_flow_stats", "f": {"match": m}}]}})


def enum_limits(tier):
  out8 = {"k": "ofp_action_output", "f": {"port": 1}}
  enq16 = {"k": "ofp_action_enqueue", "f": {"port": 2, "queue_id": 9}}

  def rep(n, *frags):
    return [{"$rep": n, "of": list(frags)}]
  B = lambda n, s=1: {"$bytes": [n, s]}
  yield _case({"k": "ofp_echo_request", "f": {"xid": 1, "body": B(65527)}})
  yield _case({"k": "ofp_echo_reply", "f": {"xid": 1, "body": B(40000)}})
  yield _case({"k": "ofp_error", "f": {"xid": 1, "type": 1, "code": 2, "data": B(65523)}})
  yield _case({"k": "ofp_vendor_generic", "f": {"xid": 1, "vendor": 9, "data": B(65523)}})
  yield _case({"k": "ofp_packet_in", "f": {"xid": 1, "data": B(65517), "in_port": 1}})
  yield _case({"k": "ofp_packet_in", "f": {"xid": 1, "data": B(1500), "total_len": 1500}})
  yield _case({"k": "ofp_packet_out", "f": {"xid": 1, "actions": rep(8189, out8), "data": B(7)}})
  yield _case({"k": "ofp_packet_out", "f": {"xid": 1, "actions": [out8], "data": B(65511)}})
  yield _case({"k": "ofp_packet_out", "f": {"xid": 1, "actions": rep(2100, out8, enq16), "buffer_id": 1}})
  yield _case({"k": "ofp_flow_mod", "f": {"xid": 1, "actions": rep(8182, out8)}})
  yield _case({"k": "ofp_flow_mod", "f": {"xid": 1, "actions": rep(2050, out8, enq16)}})
  yield _case({"k": "ofp_flow_mod", "f": {"xid": 1, "actions": rep(4090, enq16) + [{"k": "ofp_action_generic", "f": {
      "type": 99, "data": B(12)}}]}})
  yield _case({"k": "ofp_features_reply", "f": {"xid": 1, "ports": rep(1364, {"port_no": 1, "name": "p"})}})
  yield _case({"k": "ofp_features_reply", "f": {"xid": 1, "ports": rep(350, {"port_no": 1}, {"port_no": 2, "name": "q" * 16})}})
  fs = lambda acts: {"k": "ofp_flow_stats", "f": {"actions": acts, "cookie": 5}}
  yield _case({"k": "ofp_stats_reply", "f": {"xid": 1, "body": [fs(rep(8179, out8))]}})
  yield _case({"k": "ofp_stats_reply", "f": {"xid": 1, "body": rep(744, fs([]))}})
  yield _case({"k": "ofp_stats_reply", "f": {"xid": 1, "body": rep(200, fs([out8]), fs([enq16, out8]))}})
  yield _case({"k": "ofp_stats_reply", "f": {"xid": 1, "body": rep(630, {"k": "ofp_port_stats", "f": {"port_no": 3}})}})
  yield _case({"k": "ofp_stats_reply", "f": {"xid": 1, "body": rep(2047, {"k": "ofp_queue_stats", "f": {"queue_id": 3}})}})
  yield _case({"k": "ofp_stats_reply", "f": {"xid": 1, "type": 0x7000, "body": B(65523)}})
  mr = {"k": "ofp_queue_prop_min_rate", "f": {"rate": 1}}
  yield _case({"k": "ofp_queue_get_config_reply", "f": {"xid": 1, "queues": [{"queue_id": 1, "properties": rep(4094, mr)}]}})
  yield _case({"k": "ofp_queue_get_config_reply", "f": {"xid": 1, "queues": rep(2700, {"queue_id": 1, "properties": [mr]})}})
  yield _case({"k": "ofp_packet_queue", "f": {"queue_id": 1, "properties": rep(4095, mr)}})


def enum_nicira(tier):
  # every NXM field without mask and (where maskable) with mask, at 0 / all-ones / sign bit
  for name in sorted(R.NXM_FIELDS):
    vendor, field, n, maskable = R.NXM_FIELDS[name]
    vals = [b"\0" * n, b"\xff" * n, b"\x80" + b"\0" * (n - 1), bytes(range(1, n + 1))]
    for v in vals:
      yield _case({"k": "nxm_entry", "f": {"field": name, "value": v, "mask": None}})
      if maskable:
        masks = [b"\xff" * n, b"\0" * n, b"\x80" + b"\0" * (n - 1), b"\xff" + b"\0" * (n - 1)]
        for m in masks:
          if name == "NXM_NX_TCP_FLAGS":
            m = bytes([m[0] & 0x0f, m[1]])
          vv = bytes(x & y for x, y in zip(v, m))
          yield _case({"k": "nxm_entry", "f": {"field": name, "value": vv, "mask": m}})
    e1 = {"field": name, "value": vals[3], "mask": None}
    for via in ("parts", "append", "attr", "kw"):
      yield _case({"k": "nx_match", "f": {"entries": [e1], "$via": via}})
    yield _case({"k": "nx_flow_mod", "f": {"xid": 1, "match": [e1]}})
    yield _case({"k": "nxt_packet_in", "f": {"xid": 1, "match": [e1], "data": b"abc"}})
  ip = [{"field": "NXM_OF_ETH_TYPE", "value": b"\x08\x00", "mask": None},
        {"field": "NXM_OF_IP_SRC", "value": b"\x0a\0\0\0", "mask": b"\xff\0\0\0"},
        {"field": "NXM_OF_IP_PROTO", "value": b"\x06", "mask": None},
        {"field": "NXM_OF_TCP_DST", "value": b"\0\x50", "mask": None}]
  for k in range(len(ip) + 1):
    for via in ("parts", "append", "attr"):
      yield _case({"k": "nx_match", "f": {"entries": ip[:k], "$via": via}})
    yield _case({"k": "nx_flow_mod", "f": {"xid": 1, "match": ip[:k], "actions": [
        {"k": "ofp_action_output", "f": {"port": 1}}, {"k": "nx_action_resubmit", "f": {"subtype": 14, "in_port": 1, "table": 2}}]}})
    yield _case({"k": "nxt_packet_in", "f": {"xid": 1, "match": ip[:k], "data": b"frame", "total_len": 100}})
  # learn / bundle shapes
  fld = lambda n, o=0: {"t": "field", "field": n, "ofs": o}
  specs = [{"n_bits": 12, "src": fld("NXM_OF_VLAN_TCI"), "dst": {"t": "match", "field": "NXM_OF_VLAN_TCI", "ofs": 0}},
           {"n_bits": 48, "src": fld("NXM_OF_ETH_SRC"), "dst": {"t": "match", "field": "NXM_OF_ETH_DST", "ofs": 0}},
           {"n_bits": 16, "src": fld("NXM_OF_IN_PORT"), "dst": {"t": "output"}},
           {"n_bits": 16, "src": {"t": "immediate", "data": b"\x12\x34"}, "dst": {"t": "load", "field": "NXM_NX_REG0", "ofs": 0}},
           {"n_bits": 32, "src": {"t": "immediate", "data": b"\1\2\3\4"}, "dst": {"t": "match", "field": "NXM_NX_REG1", "ofs": 0}},
           {"n_bits": 5, "src": fld("NXM_NX_REG2", 3), "dst": {"t": "load", "field": "NXM_NX_REG3", "ofs": 7}}]
  for k in range(len(specs) + 1):
    yield _case({"k": "nx_action_learn", "f": {"table_id": 1, "hard_timeout": 10, "spec": specs[:k]}})
  for s in specs:
    yield _case({"k": "nx_action_learn", "f": {"spec": [s]}})
  for n in range(0, 6):
    yield _case({"k": "nx_action_bundle", "f": {"subtype": 12, "slaves": list(range(1, n + 1))}})
    yield _case({"k": "nx_action_bundle", "f": {"subtype": 13, "slaves": list(range(1, n + 1)), "dst": R.nxm_header("NXM_NX_REG0"),
                                                "ofs_nbits": 15, "algorithm": 1, "fields": 1, "basis": 0xffff}})
  for name in sorted(R.NXM_FIELDS):
    h = R.nxm_header(name)
    yield _case({"k": "nx_reg_move", "f": {"nbits": 1, "src": h, "dst": R.nxm_header("NXM_NX_REG0")}})
    yield _case({"k": "nx_reg_move", "f": {"nbits": 1, "dst": h, "src": R.nxm_header("NXM_NX_REG0")}})
    yield _case({"k": "nx_reg_load", "f": {"ofs_nbits": 0, "dst": h, "value": 1}})
    yield _case({"k": "nx_output_reg", "f": {"ofs_nbits": 0, "reg": h}})
  for name in sorted(R.NXM_FIELDS):
    if R.NXM_FIELDS[name][2] <= 8:
      yield _case({"k": "nx_reg_load", "f": {"ofs_nbits": 8 * R.NXM_FIELDS[name][2] - 1, "dst": R.nxm_header(name),
                                             "value": 1, "$form": "entry"}})
  for n in (0, 1, 4):
    yield _case({"k": "nx_action_bundle", "f": {"subtype": 12, "slaves": list(range(1, n + 1)), "$form": "int"}})
  for via in ("attr-entry",):
    yield _case({"k": "nx_match", "f": {"entries": ip[:2], "$via": via}})
  for ofs_nbits in (0, 63, (1023 << 6) | 63, 1 << 6, (1 << 15)):
    yield _case({"k": "nx_reg_load", "f": {"ofs_nbits": ofs_nbits, "dst": R.nxm_header("NXM_NX_REG0"), "value": 0xffffffffffffffff}})
    yield _case({"k": "nx_output_reg", "f": {"ofs_nbits": ofs_nbits, "reg": R.nxm_header("NXM_NX_REG0"), "max_len": 0xffff}})
  for sub in (1, 14):
    for p in (0, 0xffff, 0x8000):
      for t in (0, 255, 128):
        yield _case({"k": "nx_action_resubmit", "f": {"subtype": sub, "in_port": p, "table": t}})
  for v in (0, 1):
    yield _case({"k": "nx_flow_mod_table_id", "f": {"xid": 1, "set": v}})
  one_each = [{"k": k, "f": _min_frag(k)} for k in G.NX_ACTION_KINDS]
  for acts in [[a] for a in one_each] + [one_each]:
    yield _case({"k": "nx_flow_mod", "f": {"xid": 1, "actions": acts}})


def enum_change(tier):
  act = lambda p: {"k": "ofp_action_output", "f": {"port": p}}
  m1 = {"dl_type": 0x0800, "nw_proto": 6, "tp_dst": 80}
  C = lambda frag, **then: {"frag": frag, "then": then}
  # scalar fields of every OF 1.0 message
  for kind in G.OF10_MESSAGE_KINDS:
    base = _min_frag(kind)
    for name, bits in R.int_fields(kind):
      if (kind, name) in _GRID_SKIP or (kind, name) in (("ofp_packet_out", "buffer_id"), ("ofp_packet_in", "total_len")):
        continue
      yield C({"k": kind, "f": dict(base)}, set={name: (1 << bits) - 2})
  for kind, name, v in (("ofp_echo_request", "body", b"abc"), ("ofp_echo_reply", "body", b"abc"), ("ofp_error", "data", b"abcd"),
                        ("ofp_vendor_generic", "data", b"abcd"), ("ofp_packet_in", "data", b"frame"),
                        ("ofp_packet_out", "data", b"frame"), ("ofp_flow_mod", "match", m1), ("ofp_flow_removed", "match", m1),
                        ("ofp_port_mod", "hw_addr", b"\1\2\3\4\5\6"), ("ofp_port_status", "desc", {"port_no": 3, "name": "x"}),
                        ("ofp_flow_mod", "actions", [act(1), act(2)]), ("ofp_packet_out", "actions", [act(1)]),
                        ("ofp_features_reply", "ports", [{"port_no": 1}, {"port_no": 2}]),
                        ("ofp_queue_get_config_reply", "queues", [{"queue_id": 1, "properties": [{"k": "ofp_queue_prop_min_rate", "f": {"rate": 5}}]}])):
    yield C({"k": kind, "f": _min_frag(kind)}, set={name: v})
  for kind, name, v in (("ofp_flow_mod", "actions", [act(3)]), ("ofp_packet_out", "actions", [act(3)]),
                        ("ofp_features_reply", "ports", [{"port_no": 9}]),
                        ("ofp_queue_get_config_reply", "queues", [{"queue_id": 7}])):
    for first in ([], v):
      yield C({"k": kind, "f": dict(_min_frag(kind), **{name: first})}, extend={name: v})
  # statistics containers: new body of the same type, and entries appended to a list body
  req = lambda p: {"k": "ofp_port_stats_request", "f": {"port_no": p}}
  yield C({"k": "ofp_stats_request", "f": {"xid": 1, "body": req(1)}}, set={"body": req(2)})
  yield C({"k": "ofp_stats_request", "f": {"xid": 1, "body": {"k": "ofp_flow_stats_request", "f": {}}}},
          set={"body": {"k": "ofp_flow_stats_request", "f": {"match": m1, "table_id": 1}}})
  ps = lambda p: {"k": "ofp_port_stats", "f": {"port_no": p, "rx_packets": p}}
  yield C({"k": "ofp_stats_reply", "f": {"xid": 1, "body": [ps(1)]}}, set={"body": [ps(2), ps(3)]})
  yield C({"k": "ofp_stats_reply", "f": {"xid": 1, "body": [ps(1)]}}, extend={"body": [ps(2)]})
  yield C({"k": "ofp_stats_reply", "f": {"xid": 1, "type": 4, "body": []}}, extend={"body": [ps(2), ps(3)]})
  yield C({"k": "ofp_stats_reply", "f": {"xid": 1, "body": {"k": "ofp_aggregate_stats", "f": {"flow_count": 1}}}},
          set={"body": {"k": "ofp_aggregate_stats", "f": {"flow_count": 2}}})


def enum_pairs(tier):
  """Ordered pairs (dirty object, bytes to decode into it) of every kind: same size and different sizes."""
  pools = {}
  for g in (enum_grid, enum_match, enum_nicira) if _NICIRA else (enum_grid, enum_match):
    for c in g(tier):
      fr = c.get("frag")
      if fr is None or "then" in c or fr["k"] == "nxm_entry" or (fr["k"] == "ofp_match" and c.get("mode") == "flow_mod"):
        continue
      pools.setdefault(fr["k"], []).append(fr)
  # equal-size pairs whose difference lies only in a nested body (a stale cache stays silent unless compared)
  m1 = {"dl_type": 0x0800, "nw_proto": 6, "tp_dst": 80}
  m2 = {"dl_type": 0x0800, "nw_proto": 17, "tp_dst": 53}
  same_size = [
    ({"k": "ofp_port_stats_request", "f": {"port_no": 1}}, {"k": "ofp_port_stats_request", "f": {"port_no": 2}}),
    ({"k": "ofp_queue_stats_request", "f": {"port_no": 3, "queue_id": 7}}, {"k": "ofp_queue_stats_request", "f": {"port_no": 4, "queue_id": 9}}),
    ({"k": "ofp_flow_stats_request", "f": {"match": m1}}, {"k": "ofp_flow_stats_request", "f": {"match": m2, "table_id": 1}}),
    ({"k": "ofp_aggregate_stats_request", "f": {"match": m1, "out_port": 4}}, {"k": "ofp_flow_stats_request", "f": {"match": m2}}),
    ({"k": "ofp_vendor_stats_generic", "f": {"vendor": 0x2320, "data": b"abcd"}}, {"k": "ofp_vendor_stats_generic", "f": {"vendor": 0x2320, "data": b"wxyz"}}),
  ]
  for x, y in same_size:
    fx = {"k": "ofp_stats_request", "f": {"xid": 11, "body": x, "type": R.stats_type_of(x["k"], False)}}
    fy = {"k": "ofp_stats_request", "f": {"xid": 12, "body": y, "type": R.stats_type_of(y["k"], False)}}
    yield {"dirty": fx, "frag": fy, "pre": b""}
    yield {"dirty": fy, "frag": fx, "pre": _PRE}
  ps = lambda p: {"k": "ofp_port_stats", "f": {"port_no": p, "rx_packets": p}}
  for x, y in (([ps(1)], [ps(2)]), ([ps(1), ps(2)], [ps(3), ps(4)]),
               ({"k": "ofp_aggregate_stats", "f": {"flow_count": 1}}, {"k": "ofp_aggregate_stats", "f": {"flow_count": 2}})):
    yield {"dirty": {"k": "ofp_stats_reply", "f": {"xid": 1, "body": x}}, "frag": {"k": "ofp_stats_reply", "f": {"xid": 2, "body": y}}, "pre": b""}
  for kind in sorted(pools):
    by_size, order = {}, []
    for fr in pools[kind]:
      try:
        w = G.wire(fr)
      except (R.RefError, ValueError, KeyError):
        continue
      lst = by_size.setdefault(len(w), [])
      if len(lst) < 2 and all(x[1] != w for x in lst):
        lst.append((fr, w))
    sizes = sorted(by_size)
    cap = 8 if kind in ("ofp_stats_request", "ofp_stats_reply") else 3
    if len(sizes) > cap:
      step = (len(sizes) - 1) / float(cap - 1)
      sizes = sorted({sizes[int(round(i * step))] for i in range(cap)})
    pool = [x[0] for sz in sizes for x in by_size[sz]]
    for fa in pool:
      for fb in pool:
        yield {"dirty": fa, "frag": fb, "pre": b"" if (len(pool) % 2) else _PRE}
        if kind == "ofp_match":
          yield {"dirty": fa, "frag": fb, "pre": b"", "mode": "flow_mod"}


def enum_mutate(tier):
  """every in-place change of every scalar field of every kind, top level and nested, and every way of changing an
  NXM entry that is already in a match"""
  M = lambda frag, mut, **kw: dict({"frag": frag, "mutate": mut}, **kw)
  seen = set()
  # 1. top-level scalar fields of every kind (two values each)
  for kind in _grid_kinds() + ["ofp_match", "ofp_generic_stats_body"]:
    if kind in seen:
      continue
    seen.add(kind)
    frag = {"k": kind, "f": _min_frag(kind)}
    for c in _mut_candidates(kind, frag["f"]):
      if c[0] != "set" or c[1]:
        continue
      for seed in (4, 1000003):
        m = {"path": [], "kind": c[2], "field": c[3], "value": _mut_value(c[2], c[3], c[4], seed)}
        yield M(frag, m)
        if kind == "ofp_match":
          yield M(frag, m, mode="flow_mod")
  # 2. nested objects: every candidate of a set of rich containers
  act_each = [{"k": k, "f": _min_frag(k)} for k in G.OF10_ACTION_KINDS]
  nx_each = [{"k": k, "f": _min_frag(k)} for k in G.NX_ACTION_KINDS] if _NICIRA else []
  m1 = {"in_port": 1, "dl_type": 0x0800, "nw_proto": 6, "tp_dst": 80, "nw_src": [0x0a000001, 24]}
  props = [{"k": "ofp_queue_prop_min_rate", "f": {"rate": 10}}, {"k": "ofp_queue_prop_generic", "f": {"property": 9, "data": b"abcdef"}},
           {"k": "ofp_queue_prop_none", "f": {}}]
  rich = [
    {"k": "ofp_flow_mod", "f": {"xid": 1, "match": m1, "actions": act_each}},
    {"k": "ofp_flow_mod", "f": {"xid": 1}},
    {"k": "ofp_packet_out", "f": {"xid": 1, "actions": act_each[::-1], "data": b"frame"}},
    {"k": "ofp_flow_removed", "f": {"xid": 1, "match": m1}},
    {"k": "ofp_port_status", "f": {"xid": 1, "desc": {"port_no": 3, "name": "eth3"}}},
    {"k": "ofp_features_reply", "f": {"xid": 1, "ports": [{"port_no": 1}, {"port_no": 2, "name": "p2"}]}},
    {"k": "ofp_packet_queue", "f": {"queue_id": 1, "properties": props}},
    {"k": "ofp_queue_get_config_reply", "f": {"xid": 1, "queues": [{"queue_id": 1, "properties": props}, {"queue_id": 2, "properties": props[:1]}]}},
    {"k": "ofp_stats_reply", "f": {"xid": 1, "body": [{"k": "ofp_flow_stats", "f": {"match": m1, "actions": act_each[:3]}},
                                                     {"k": "ofp_flow_stats", "f": {"actions": act_each[3:6]}}]}},
  ]
  for bk in G.STATS_REQUEST_KINDS:
    if bk != "ofp_generic_stats_body":
      rich.append({"k": "ofp_stats_request", "f": {"xid": 1, "body": {"k": bk, "f": _min_frag(bk)}}})
  rich.append({"k": "ofp_stats_request", "f": {"xid": 1, "type": 77, "body": {"k": "ofp_generic_stats_body", "f": {"data": b"ab"}}}})
  for bk in G.STATS_REPLY_KINDS:
    e = {"k": bk, "f": _min_frag(bk)}
    t = R.stats_type_of(bk, True)
    rich.append({"k": "ofp_stats_reply", "f": {"xid": 1, "body": [e, e] if R.stats_reply_is_array(t) else e}})
  if _NICIRA:
    ent = [{"field": "NXM_OF_ETH_TYPE", "value": b"\x08\x00", "mask": None},
           {"field": "NXM_OF_IP_SRC", "value": b"\x0a\0\0\0", "mask": b"\xff\0\0\0"}]
    rich += [{"k": "nx_flow_mod", "f": {"xid": 1, "match": ent, "actions": nx_each + act_each[:2]}},
             {"k": "ofp_flow_mod_table_id", "f": {"xid": 1, "match": m1, "actions": act_each[:2]}},
             {"k": "nxt_packet_in", "f": {"xid": 1, "match": ent, "data": b"abc"}}]
  for frag in rich:
    for c in _mut_candidates(frag["k"], frag["f"]):
      if c[0] == "set" and not c[1]:
        continue                      # top level: done above
      sel_seed = 7 + 13 * len(c[1])
      if c[0] == "set":
        yield M(frag, {"path": list(c[1]), "kind": c[2], "field": c[3], "value": _mut_value(c[2], c[3], c[4], sel_seed)})
  # 3. every NXM field, every way of rewriting an entry that is already there
  if _NICIRA:
    for name in sorted(R.NXM_FIELDS):
      n, maskable = R.NXM_FIELDS[name][2], R.NXM_FIELDS[name][3]
      first = {"field": "NXM_OF_IN_PORT", "value": b"\0\1", "mask": None}
      variants = [{"field": name, "value": bytes(range(1, n + 1)), "mask": None}]
      if maskable:
        mk = b"\xff" + b"\x0f" * (n - 1) if name != "NXM_NX_TCP_FLAGS" else b"\x0f\xff"
        variants.append({"field": name, "value": bytes(x & y for x, y in zip(bytes(range(1, n + 1)), mk)), "mask": mk})
      for e in variants:
        entries = [e] if name == "NXM_OF_IN_PORT" else [first, e]
        idx = len(entries) - 1
        hows = {}
        for seed in range(0, 40):
          how, v, m = _mut_nxm(e, seed)
          hows.setdefault(how, (v, m))
        for how, (v, m) in sorted(hows.items()):
          mut = {"path": [], "kind": "nx_match", "index": idx, "how": how, "value": v, "mask": m}
          yield M({"k": "nx_match", "f": {"entries": entries}}, mut)
          mut2 = dict(mut, path=["match"])
          yield M({"k": "nx_flow_mod", "f": {"xid": 1, "match": entries, "actions": act_each[:1]}}, mut2)
          yield M({"k": "nxt_packet_in", "f": {"xid": 1, "match": entries, "data": b"payload"}}, mut2)
  # the opt-in raw collection of vendor messages, and the tuple form of a list body
  for d in (b"", b"abcd", b"x" * 21):
    yield {"frag": {"k": "ofp_vendor_generic", "f": {"xid": 3, "vendor": 9, "data": d}}, "collect_raw": True, "pre": _PRE}
  ps = lambda p: {"k": "ofp_port_stats", "f": {"port_no": p}}
  for n in (0, 1, 2, 5):
    yield _case({"k": "ofp_stats_reply", "f": {"xid": 1, "type": 4, "body": [ps(i) for i in range(n)], "$form": "tuple-body"}})


def enum_constants(tier):
  for name in sorted(R.SPEC_CONSTANTS):
    yield {"const": name}


def _all_enum(tier):
  for g in (enum_constants, enum_grid, enum_match, enum_limits, enum_change, enum_pairs, enum_mutate) + ((enum_nicira,) if _NICIRA else ()):
    for c in g(tier):
      yield c


# --------------------------------------------------------------------------- Hypothesis

def _ctx_bytes():
  return st.one_of(st.just(b""), st.just(_PRE), st.binary(max_size=24))


def _wrap(frag_strategy, **fixed):
  return st.tuples(frag_strategy, _ctx_bytes(), st.one_of(st.just(b""), st.just(_TRAIL), st.binary(max_size=24)),
                   st.booleans()).map(
      lambda t: dict({"frag": t[0], "pre": t[1], "trail": t[2], "retry": t[3]}, **fixed))


def _strategy_messages(tier):
  return _wrap(G.message("any", safe=False, max_list=6 if tier == "quick" else 24))


def _strategy_parts(tier):
  act = _wrap(G.action(aligned=False))
  body_req = _wrap(G.stats_request_body(safe=False, generic=True))
  body_rep = _wrap(st.sampled_from(G.STATS_REPLY_KINDS).flatmap(lambda k: G.stats_reply_entry(k, aligned=False)))
  prop = _wrap(G.queue_prop(safe=False))
  queue = _wrap(G.packet_queue(safe=False).map(lambda f: {"k": "ofp_packet_queue", "f": f}))
  port = _wrap(G.phy_port().map(lambda f: {"k": "ofp_phy_port", "f": f}))
  table = {"act": act, "body_req": body_req, "body_rep": body_rep, "prop": prop, "queue": queue, "port": port}
  # (one_of() drops repeated branches, so the weights are drawn explicitly)
  return st.sampled_from(["act"] * 6 + ["body_req"] * 2 + ["body_rep"] * 3 + ["prop", "queue", "port"]).flatmap(table.get)


def _strategy_match(tier):
  return st.tuples(st.booleans().flatmap(lambda c: G.match(consistent=c)), st.sampled_from(["plain", "flow_mod"]),
                   _ctx_bytes(), _ctx_bytes(), st.booleans()).map(
      lambda t: {"frag": {"k": "ofp_match", "f": t[0]}, "mode": t[1], "pre": t[2], "trail": t[3], "retry": t[4]})


def _strategy_nx(tier):
  ent = _wrap(G.nxm_entry().map(lambda e: {"k": "nxm_entry", "f": e}))
  mt = _wrap(st.tuples(G.nx_match_entries(), st.sampled_from(["parts", "parts", "append", "attr"])).map(
      lambda t: {"k": "nx_match", "f": {"entries": t[0], "$via": t[1]}}))
  table = {"msg": _wrap(G.nx_message()), "act": _wrap(G.nx_action()), "ent": ent, "mt": mt}
  return st.sampled_from(["msg"] * 3 + ["act"] * 4 + ["ent", "mt"]).flatmap(table.get)


def _strategy_pairs(tier):
  """(dirty object, object whose bytes are decoded into it): two independent draws of the same kind."""
  def two(one):
    return st.tuples(one, one, st.sampled_from([b"", _PRE])).map(lambda t: {"dirty": t[0], "frag": t[1], "pre": t[2]})
  per_kind = []
  for k in G.OF10_MESSAGE_KINDS:
    per_kind.append((k, lambda k=k: G.message("any", safe=False, kinds=[k])))
  for k in G.OF10_ACTION_KINDS:
    per_kind.append((k, lambda k=k: G.action(kinds=[k], aligned=False)))
  for k in G.STATS_REQUEST_KINDS:
    per_kind.append((k, lambda k=k: G.stats_request_body(safe=False, generic=True, kinds=[k])))
  for k in G.STATS_REPLY_KINDS:
    per_kind.append((k, lambda k=k: G.stats_reply_entry(k, aligned=False)))
  for k in ("ofp_queue_prop_min_rate", "ofp_queue_prop_none", "ofp_queue_prop_generic"):
    per_kind.append((k, lambda k=k: G.queue_prop(safe=False, kinds=[k])))
  per_kind.append(("ofp_packet_queue", lambda: G.packet_queue(safe=False).map(lambda f: {"k": "ofp_packet_queue", "f": f})))
  per_kind.append(("ofp_phy_port", lambda: G.phy_port().map(lambda f: {"k": "ofp_phy_port", "f": f})))
  per_kind.append(("ofp_match", lambda: G.match(consistent=True).map(lambda f: {"k": "ofp_match", "f": f})))
  if _NICIRA:
    for k in G.NX_MESSAGE_KINDS:
      per_kind.append((k, lambda k=k: G.nx_message(kinds=[k])))
    for k in G.NX_ACTION_KINDS:
      per_kind.append((k, lambda k=k: G.nx_action(kinds=[k])))
    per_kind.append(("nx_match", lambda: G.nx_match_entries().map(lambda e: {"k": "nx_match", "f": {"entries": e}})))
  # the containers with the most internal state get extra weight
  heavy = ["ofp_stats_request", "ofp_stats_reply", "ofp_flow_mod", "ofp_packet_out", "ofp_flow_mod_table_id", "nx_flow_mod",
           "nxt_packet_in", "nx_action_learn", "ofp_queue_get_config_reply", "ofp_features_reply"]
  table = dict(per_kind)
  names = [k for k, _ in per_kind] + [k for k in heavy if k in table] * 4
  return st.sampled_from(names).flatmap(lambda k: two(table[k]()))


def _strategy_mutations(tier):
  """a generated object plus one in-place change of it, chosen among all its scalar fields / nested objects / NXM entries"""
  msg = G.message("any", safe=False, max_list=4)
  part = st.sampled_from(["act", "rep", "req", "queue", "port", "match"]).flatmap({
      "act": G.action(aligned=False), "rep": st.sampled_from(G.STATS_REPLY_KINDS).flatmap(lambda k: G.stats_reply_entry(k, aligned=False)),
      "req": G.stats_request_body(safe=False, generic=True),
      "queue": G.packet_queue(safe=False).map(lambda f: {"k": "ofp_packet_queue", "f": f}),
      "port": G.phy_port().map(lambda f: {"k": "ofp_phy_port", "f": f}),
      "match": G.match(consistent=True).map(lambda f: {"k": "ofp_match", "f": f})}.get)
  table = {"msg": msg, "part": part}
  names = ["msg"] * 5 + ["part"] * 2
  if _NICIRA:
    table.update({"nxmsg": G.nx_message(kinds=["nx_flow_mod", "nxt_packet_in", "nx_flow_mod", "ofp_flow_mod_table_id", "nx_async_config"]),
                  "nxact": G.nx_action(),
                  "nxmatch": G.nx_match_entries().map(lambda e: {"k": "nx_match", "f": {"entries": e}})})
    names += ["nxmsg"] * 4 + ["nxact", "nxmatch", "nxmatch"]

  def mk(t):
    frag, sel, seed, fm = t
    mut = _derive_mutation(frag, sel, seed)
    if mut is None:
      return {"frag": frag, "pre": b"", "trail": b""}
    c = {"frag": frag, "mutate": mut}
    if frag["k"] == "ofp_match" and fm:
      c["mode"] = "flow_mod"
    return c
  return st.tuples(st.sampled_from(names).flatmap(table.get), st.integers(0, 1 << 16), st.integers(0, 1 << 40), st.booleans()).map(mk)


def plan(tier):
  # thorough: 50 x the quick volume, with longer lists (C01_THOROUGH_SCALE overrides the factor while developing)
  k = 1 if tier == "quick" else int(os.environ.get("C01_THOROUGH_SCALE", "50"))
  sh = 8 if tier == "quick" else 16        # process start-up (pox + hypothesis import) is a third of the quick tier's cost
  drivers = [
    Enum("grid", lambda: _all_enum(tier), shards=16),
    Hyp("generated-messages", lambda: _strategy_messages(tier), examples=2800 * k, shards=sh),
    Hyp("generated-parts", lambda: _strategy_parts(tier), examples=2000 * k, shards=sh),
    Hyp("generated-match", lambda: _strategy_match(tier), examples=1000 * k, shards=sh),
  ]
  if _NICIRA:
    drivers.append(Hyp("generated-nicira", lambda: _strategy_nx(tier), examples=1700 * k, shards=sh))
  drivers.append(Hyp("generated-pairs", lambda: _strategy_pairs(tier), examples=1200 * k, shards=sh))
  drivers.append(Hyp("generated-mutations", lambda: _strategy_mutations(tier), examples=1500 * k, shards=sh))
  return drivers
