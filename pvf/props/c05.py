"""C05 -- event delivery order, halting and unsubscription are exact (pox.lib.revent).

A case is a history: operations on one or two EventMixin sources (subscribe in every API
form, unsubscribe in every form, raise in instance/class form with and without error
suppression, drop the owner of weak handlers, name-based auto binding, clearHandlers) plus one
script per handler owner (return value, event.halt, exception -- ordinary ones and ones whose
str()/repr() fail --, re-entrant operations).  The history is
interpreted against the real revent code and, in lock-step, against pvf.ref.evmodel.Monitor,
a validity predicate written from the property statement.
"""
import contextlib
import gc
import io
import itertools
import sys
import traceback
import weakref

from hypothesis import strategies as st

from ..runner import Outcome, Enum, Hyp, HarnessError, exc_key
from ..ref import evmodel

ID = "C05"
LEVEL = "exploration"
TECHNIQUE = ("model-based testing of operation histories: exhaustive short sequences over fixed op alphabets + Hypothesis-drawn "
             "histories, real revent run in lock-step with an independent delivery monitor")
LEVEL_TEXT = ("Exploration by generated histories: every sequence of up to 4 (quick) / 5 (thorough) operations over seven fixed "
              "alphabets of 12-17 operations (and one step longer over an eighth of 9 operations) is run, plus Hypothesis-drawn histories with re-entrant handler scripts; each is judged "
              "by a monitor (pvf/ref/evmodel.py) restating the property: snapshot at raise time ordered by (-priority, subscription "
              "order), exactly once, halting, removal, rejection of undeclared types, error suppression, weak handlers. The event "
              "library is pure and single threaded, so dense enumeration of short histories plus random longer ones is the fitting "
              "level; nothing is claimed beyond the explored bounds.")
LEVEL_NOTE = ("where the statement is silent the monitor accepts both outcomes (handler subscribed during a delivery, "
              "bare True/False return values, event.halt set without a halting return value, handlers after one that raised)")
RULE = ("a case is a history of subscribe/unsubscribe/raise/drop-owner/auto-bind/clear-all operations with per-owner handler scripts; it is "
        "non-trivial when it contains a delivery whose snapshot has >= 2 handlers and in which a handler performed a re-entrant "
        "operation, halted the event or ended with an exception; distinct by SHA-1 of the canonical JSON of the case")
ASSUMPTIONS = [
  "handlers are bound methods (the only kind CallProxy supports for weak=True); events are Event subclasses",
  "owner objects may have value equality (distinct owners comparing and hashing equal): a subscription belongs to the object, not to its value",
  "a handler's exception may derive directly from BaseException (the harness's own Cancelled class; KeyboardInterrupt/SystemExit are not used)",
  "a handler's exception may be of a class whose __str__ / __repr__ is itself faulty (raises, returns a non-string, reads an attribute nobody set), may carry no arguments, a tuple argument, or text full of formatting characters: 'never propagates a handler's exception' holds for every exception; anything other than silence reaching the raiser of an error-suppressing raise after a handler raised is judged as propagation",
  "clearHandlers() ends every subscription of the source at once; called from inside a handler it is a removal made during delivery: the handlers of the raise-time snapshot are still owed their invocation",
  "removing, by a form that names the event type, a subscription that is gone because the source's table was cleared (and nothing subscribed to that type since) may raise KeyError or do nothing: the statement does not say how removing what is not subscribed ends (removeListeners lists name such entries by id instead)",
  "exceptions the interpreter swallows inside weakref callbacks (CallProxy clean-up after clearHandlers) are counted in the evidence (unraisable-in-cleanup-*), not judged",
  "a handler subscribed while a delivery is in progress may or may not be invoked in that delivery (at most once); a handler of the raise-time snapshot that is unsubscribed during the delivery is still owed its invocation (snapshot semantics, as the statement says) unless the event is halted first or it is a weak handler whose owner dies first",
  "a snapshot entry that ended its own subscription (one-shot / remove return value) in a nested delivery before its turn in the outer one is not judged in the outer one ('never invoked again' vs 'every handler subscribed at that moment')",
  "bare True / False return values and 'event.halt = True' without a halting return value are outside the documented protocol: their effect is not judged",
  "after a handler raised, whether the remaining handlers of that delivery run is not judged",
  "raising the class form of an undeclared type with no listeners is not judged (the statement only names instances)",
  "unsubscribe operations refer to subscriptions that were made at some point in the history (possibly already gone)",
  "a handler (bound method) has at most one subscription per (source, type) at a time: the statement speaks of handlers, not subscriptions, so a doubly subscribed handler is an ambiguous zone; the generator substitutes another method of the same owner",
  "owner death is observed through a weakref (never predicted) except for owners that were only ever subscribed weakly and are dropped outside any delivery: those must be collectable, whatever their handlers did before (returned, halted, raised with the exception propagated to the raiser or suppressed by raiseEventNoErrors through the exception hook pox.core installs); the harness itself keeps no traceback of a handler's exception",
]
EXHAUSTIVE_SCOPE = {
  "quick": "all operation sequences (with repetition) of length <= 4 over the seven fixed alphabets 'prio' (12 ops), 'remove' (16 ops), 'weak' (16 ops), 'eq' (13 ops), 'weakexc' (13 ops: weak-only owners whose handlers raise under plain and error-suppressing raises and are then dropped), 'clear' (17 ops: clearHandlers from outside and from inside a delivery, with one-shot / self-removing / halting / weak handlers in the same delivery) and 'exc' (14 ops: handlers raising exceptions that cannot be printed or are otherwise awkward to report, under all four raise forms), of length <= 5 over 'clearweak' (9 ops: an owner listening weakly and strongly that is kept alive by its subscriptions only, clearHandlers from outside and inside a delivery), and of length <= 3 over 'bind' (14 ops: name-based wiring with overlapping prefixes / event names on a third source), fixed handler scripts",
  "thorough": "all operation sequences (with repetition) of length <= 5 over the same seven alphabets, <= 6 over 'clearweak', <= 4 over 'bind'",
}

METHODS = ["handle", "_handle_E0", "_handle_E1", "_handle_E2", "_handle_EU", "_handle_p_E0", "_handle_p_E1", "_handle_p_EU",
           # names whose prefixes and event names share letters with each other and with "_handle_" (source 2)
           "_handle_Up", "_handle_Down", "_handle_DHCPLease", "_handle_Lease", "_handle_handle",
           "_handle_lan_Up", "_handle_lan_Down", "_handle_lan_handle",
           "_handle_DHCPD_DHCPLease", "_handle_DHCPD_DHCPOffer", "_handle_DHCPD_Lease",
           "_handle_handle_Up", "_handle_handle_handle", "_handle_Up_Up", "_handle_Up_Down",
           "_handle_e_l_Lease", "_handle_e_l_handle",
           # look-alikes that no prefix of the pool may bind
           "_handle_lanUp", "_handle_DHCPDLease", "_handleUp", "_handle_lan_up", "_handle_Upp", "_handle_e_lLease",
           "_handle_Up_", "_handle__Up"]
TYPE_NAMES = ["E0", "E1", "E2", "EU", "Up", "Down", "DHCPLease", "DHCPOffer", "handle", "Lease"]
DECLARED = [[0, 1, 2], [0, 1], [4, 5, 6, 7, 8, 9]]
BIND_PREFIXES = ["", "p", "lan", "DHCPD", "handle", "Up", "e_l"]
RET_KINDS = ["none", "true", "false", "cont", "halt", "remove", "haltremove"]
SUB_APIS = ["addListener", "byName", "add_listener_type", "add_listener_name", "add_listener_infer"]
UNSUB_HOW = ["handler", "handler_type", "eid", "pair", "pair_type", "eid_type", "listeners"]
TYPE_INDEXED_UNSUB = ("handler_type", "pair", "pair_type", "eid_type", "listeners")
BIND_APIS = ["addListeners", "autoBind", "listenTo"]

_P = None


class Boom(Exception):
  """The exception a scripted handler raises."""


class Cancelled(BaseException):
  """A scripted handler's exception that does not derive from Exception (like a cancellation signal)."""


def _no_text(self):
  raise RuntimeError("this error has no text")


class BoomStrRaises(Boom):
  """str() of it raises."""
  __str__ = _no_text


class CancelledStrRaises(Cancelled):
  """Not an Exception, and str() of it raises."""
  __str__ = _no_text


class BoomStrNotText(Boom):
  """__str__ returns its (integer) argument: str() of it raises TypeError."""
  def __str__(self):
    return self.args[0]


class BoomStrMissingAttr(Boom):
  """A buggy __str__ that reads an attribute nobody set: str() of it raises AttributeError."""
  def __str__(self):
    return "detail: " + self.detail


class BoomMute(Boom):
  """Neither str() nor repr() of it works."""
  __str__ = _no_text
  __repr__ = _no_text


# script value of "exc" -> how the handler's exception is built.  True / "base" are the historical spellings.
EXC_KINDS = {
  True: lambda i: Boom(i),
  "base": lambda i: Cancelled(i),
  "noargs": lambda i: Boom(),
  "keyerr": lambda i: KeyError(("owner", i)),
  "percent": lambda i: Boom("100%s of %d %(x)s {0} {}"),
  "strraises": lambda i: BoomStrRaises(i),
  "base-strraises": lambda i: CancelledStrRaises(i),
  "strnottext": lambda i: BoomStrNotText(i),
  "strmissingattr": lambda i: BoomStrMissingAttr(i),
  "mute": lambda i: BoomMute(i),
}
UNPRINTABLE = ("strraises", "base-strraises", "strnottext", "strmissingattr", "mute")
UNPRINTABLE_CLASSES = (BoomStrRaises, CancelledStrRaises, BoomStrNotText, BoomStrMissingAttr, BoomMute)


def _sr(e):
  """repr() for messages, of an exception that may not have one."""
  try:
    return repr(e)
  except BaseException:
    return "<%s (unprintable)>" % (type(e).__name__,)


def setup():
  global _P
  if _P is not None:
    return
  from ..sim.world import boot
  with contextlib.redirect_stdout(io.StringIO()):
    boot()                      # imports pox.core safely (installs core's revent exception hook)
  import pox.lib.revent.revent as RE
  import pox.core as PC
  if RE.handleEventException is not PC._revent_exception_hook:
    raise HarnessError("pox.core did not install its revent exception hook")

  class Ev(RE.Event):
    def __init__(self, tag=None):
      self.tag = tag
  types = [type(n, (Ev,), {}) for n in TYPE_NAMES]

  class S0(RE.EventMixin):
    _eventMixin_events = set(types[:3])

  class S1(RE.EventMixin):
    _eventMixin_events = set(types[:2])

  class S2(RE.EventMixin):
    _eventMixin_events = set(types[4:])

  def mk(name):
    def method(self, event):
      return self._rt.on_invoke(self._i, name, event)
    method.__name__ = name
    return method

  ns = {m: mk(m) for m in METHODS}

  def __init__(self, rt, i):
    self._rt, self._i = rt, i
  ns["__init__"] = __init__
  Owner = type("Owner", (RE.EventMixin,), ns)

  # owners with value semantics: distinct objects of one group compare (and hash) equal
  def _eq(self, other):
    return isinstance(other, EqOwner) and other._eq == self._eq

  def _ne(self, other):
    return not _eq(self, other)
  EqOwner = type("EqOwner", (Owner,), {"__eq__": _eq, "__ne__": _ne, "__hash__": lambda self: hash(("EqOwner", self._eq))})
  rets = {
    "none": None, "true": True, "false": False, "cont": RE.EventContinue, "halt": RE.EventHalt,
    "remove": RE.EventRemove, "haltremove": RE.EventHaltAndRemove,
  }
  if (RE.EventContinue, RE.EventHalt, RE.EventRemove, RE.EventHaltAndRemove) != ((False, False), (True, False), (False, True), (True, True)):
    raise HarnessError("EventReturn constants are not the documented (halt, remove) pairs")
  _P = {"RE": RE, "types": types, "srccls": [S0, S1, S2], "Owner": Owner, "EqOwner": EqOwner, "rets": rets}
  gc.collect()
  gc.freeze()


# --------------------------------------------------------------------------- the interpreter

class RT(object):
  def __init__(self, case, out):
    P = _P
    self.P = P
    self.out = out
    self.nsrc = min(3, max(1, int(case.get("nsrc", 1))))
    self.scripts = case["owners"]
    self.nown = len(self.scripts)
    if self.nown < 1:
      raise HarnessError("case without owners")
    self.sources = [P["srccls"][i]() for i in range(self.nsrc)]
    self.mon = evmodel.Monitor([DECLARED[i] for i in range(self.nsrc)])
    self.owners = {}
    self.wr = []
    for i in range(self.nown):
      g = self.scripts[i].get("eq")
      if g:
        o = P["EqOwner"](self, i)
        o._eq = g
      else:
        o = P["Owner"](self, i)
      self.owners[i] = o
      self.wr.append(weakref.ref(o))
    self.dropped = set()
    self.known_dead = set()
    self.strong_ever = set()
    self.invocations = [0] * self.nown
    self.deliveries = {}
    self.abort_exc = {}
    self.abort_owner = {}
    self.suppressed_for = set()   # owners one of whose handlers raised and had the exception suppressed by a NoErrors raise
    self.propagated_for = set()   # ... and had it propagated by a plain raise
    self.has_entry = set()        # (source, type) that had a subscription since the source's table was last cleared
    self.cleared = set()          # sources that were cleared at some point of the history
    self.depth = 0
    self.harness_error = None
    self.nv = 0
    self.flags = set()
    self.nontrivial = False

  # ---------------------------------------------------------------- reporting
  def sync_violations(self):
    vs = self.mon.violations
    while self.nv < len(vs):
      clause, disc, msg = vs[self.nv]
      self.nv += 1
      self.out.fail(clause, msg, **disc)

  def flag(self, f):
    self.flags.add(f)

  def bound(self, i, m):
    o = self.wr[i]()
    if o is None:
      return None
    return getattr(o, METHODS[m])

  # ---------------------------------------------------------------- consistency of the listener tables
  def poll_owners(self):
    for i in list(self.dropped):
      if i not in self.known_dead and self.wr[i]() is None:
        self.known_dead.add(i)
        self.mon.owner_dead(i)
        self.flag("owner-died")

  def check_presence(self):
    self.poll_owners()
    for si, src in enumerate(self.sources):
      present = set()
      n = 0
      for lst in getattr(src, "_eventMixin_handlers", {}).values():
        for ent in lst:
          present.add(ent[3])
          n += 1
      cnt = src._eventMixin_get_listener_count()
      if cnt != n:
        self.out.fail("listener-count", "_eventMixin_get_listener_count() = %d, table holds %d" % (cnt, n))
      known = set()
      for s in self.mon.subs:
        if s.src != si:
          continue
        known.add(s.eid)
        if s.state == evmodel.LIVE and s.eid not in present:
          if s.once and s.executing > 0:
            continue          # a one-shot handler may be taken out before or after it runs
          self.out.fail("lost-subscription", "%r is subscribed according to the history but is not in the listener table" % (s,))
          self.mon.lose(s)
        elif s.state == evmodel.DEAD and s.eid in present:
          self.out.fail("still-subscribed", "%r is still in the listener table (listener count %d)" % (s, cnt), how=s.why)
          self.mon.revive(s)
      extra = present - known
      if extra:
        raise HarnessError("listener table holds entries the harness did not create: %r" % (extra,))

  # ---------------------------------------------------------------- handler side
  def on_invoke(self, i, mname, event):
    try:
      d = self.deliveries.get(getattr(event, "tag", None))
      if d is None or d is not self.mon.top():
        raise HarnessError("handler invoked for an event that is not the innermost raise in progress")
      s = self.mon.invoke(d, (i, mname))
      self.check_presence()
      self.sync_violations()
      sc = self.scripts[i]
      n = self.invocations[i]
      self.invocations[i] += 1
      pending = None
      if n < sc.get("reps", 1):
        for op in sc.get("ops", ()):
          d.reentrant_ops += 1
          self.depth += 1
          try:
            e = self.do_op(op, True)
          finally:
            self.depth -= 1
          if e is not None and sc.get("leak"):
            pending = e
            self.flag("handler-leaked-nested-exception")
            break
      if pending is None:
        if sc.get("halt"):
          event.halt = True
        kind = sc.get("exc")
        if kind:
          if kind not in EXC_KINDS:
            raise HarnessError("unknown exception kind %r" % (kind,))
          pending = EXC_KINDS[kind](i)
          if isinstance(pending, Cancelled):
            self.flag("handler-raised-baseexception")
          if isinstance(pending, UNPRINTABLE_CLASSES):
            self.flag("handler-raised-unprintable-exception")
      ret = sc.get("ret", "none")
      self.mon.returned(d, s, ret, bool(sc.get("halt")), pending is not None)
      if len(d.entries) >= 2 and (d.reentrant_ops or d.halted or pending is not None):
        self.nontrivial = True
      if pending is not None:
        self.abort_exc[d.id] = pending
        self.abort_owner[d.id] = i
    except BaseException:
      if self.harness_error is None:
        self.harness_error = traceback.format_exc()
      raise
    if pending is not None:
      raise pending
    return self.P["rets"][ret]

  # ---------------------------------------------------------------- operations
  def do_op(self, op, nested=False):
    """Returns the exception that legitimately propagates to the caller of the operation
    (rejection of an undeclared type, a handler's exception out of a plain raise), or None."""
    k = op["op"]
    if k == "sub":
      e = self.op_sub(op)
    elif k == "unsub":
      e = self.op_unsub(op)
    elif k == "unsubs":
      e = self.op_unsubs(op)
    elif k == "raise":
      e = self.op_raise(op, nested)
    elif k == "drop":
      e = self.op_drop(op, nested)
    elif k == "bind":
      e = self.op_bind(op)
    elif k == "clear":
      e = self.op_clear(op)
    else:
      raise HarnessError("unknown op %r" % (k,))
    self.check_presence()
    self.sync_violations()
    if self.harness_error is not None:
      raise HarnessError("exception inside the harness's handler:\n" + self.harness_error)
    return e

  def op_sub(self, op):
    RE = self.P["RE"]
    si = op["s"] % self.nsrc
    src = self.sources[si]
    i = op["h"] % self.nown
    m = op.get("m", 0) % len(METHODS)
    api = op.get("api", "addListener")
    ti = op["t"] % len(TYPE_NAMES)
    if api == "add_listener_infer":
      if m == 0:
        api = "add_listener_type"
      elif METHODS[m].rsplit("_", 1)[-1] not in TYPE_NAMES:
        api = "add_listener_type"
      else:
        ti = TYPE_NAMES.index(METHODS[m].rsplit("_", 1)[-1])
    if self.in_use(si, ti, (i, METHODS[m])):
      # the statement speaks of handlers, not subscriptions: one handler subscribed twice to the same
      # (source, type) is an ambiguous zone.  Use another method of the same owner instead.
      if api == "add_listener_infer":
        self.flag("op-skipped-duplicate")
        return None
      for k in range(1, len(METHODS)):
        if not self.in_use(si, ti, (i, METHODS[(m + k) % len(METHODS)])):
          m = (m + k) % len(METHODS)
          break
      else:
        self.flag("op-skipped-duplicate")
        return None
    bm = self.bound(i, m)
    if bm is None:
      self.flag("op-skipped-owner-gone")
      return None
    T = self.P["types"][ti]
    prio, once, weak = op.get("p", 0), bool(op.get("once")), bool(op.get("weak"))
    if self.scripts[i].get("weakonly"):
      weak = True               # this owner only ever subscribes weakly: it must stay collectable throughout
    declared = self.mon.is_declared(si, ti)
    name = T.__name__
    try:
      if api == "addListener":
        r = src.addListener(T, bm, once=once, weak=weak, priority=prio)
      elif api == "byName":
        r = src.addListenerByName(name, bm, once=once, weak=weak, priority=prio)
      elif api == "add_listener_type":
        r = src.add_listener(bm, event_type=T, once=once, weak=weak, priority=prio)
      elif api == "add_listener_name":
        r = src.add_listener(bm, event_name=name, once=once, weak=weak, priority=prio)
      elif api == "add_listener_infer":
        r = src.add_listener(bm, once=once, weak=weak, priority=prio)
      else:
        raise HarnessError("unknown subscribe api %r" % (api,))
    except RE.ReventError as e:
      del bm
      if declared:
        self.out.violations.append({"key": exc_key(e, clause="subscribe-rejected", api=api),
                                    "msg": "subscribing to declared type %s was rejected: %r" % (name, e)})
        return None
      self.flag("undeclared-subscribe-rejected")
      e.__traceback__ = None
      return e
    except HarnessError:
      raise
    except Exception as e:
      del bm
      self.out.violations.append({"key": exc_key(e, clause="subscribe-raised", api=api),
                                  "msg": "subscribe raised %r\n%s" % (e, traceback.format_exc()[-1200:])})
      return None
    del bm
    if not declared:
      self.out.fail("undeclared-accepted", "subscribing to %s, which source %d does not declare, was accepted" % (name, si),
                    op="subscribe", api=api)
      # keep the table consistent for the rest of the case
      src.removeListener(r)
      return None
    if not (isinstance(r, tuple) and len(r) == 2 and r[0] is T and isinstance(r[1], int)):
      self.out.fail("subscribe-result", "subscribe returned %r, not the (type, id) pair usable for removal" % (r,), api=api)
      return None
    s = self.mon.subscribe(si, ti, (i, METHODS[m]), i, prio, once, weak)
    s.eid = r[1]
    self.has_entry.add((si, ti))
    if not weak:
      self.strong_ever.add(i)
    self.flag("sub-" + api)
    if weak:
      self.flag("sub-weak")
    if once:
      self.flag("sub-once")
    if prio != 0:
      self.flag("sub-prio")
    if self.depth:
      self.flag("reentrant-sub")
      if prio != 0:
        self.flag("reentrant-sub-prio")
    return None

  def op_unsub(self, op):
    subs = self.mon.subs
    if not subs:
      self.flag("op-skipped-no-subscription")
      return None
    s = subs[op["k"] % len(subs)]
    how = op.get("how", "handler")
    src = self.sources[s.src]
    T = self.P["types"][s.etype]
    affected = [s]
    why = "unsub-" + how
    try:
      if how in ("handler", "handler_type"):
        bm = self.bound(s.handler[0], METHODS.index(s.handler[1]))
        if bm is None:
          self.flag("op-skipped-owner-gone")
          return None
        if how == "handler":
          affected = self.mon.select(s.src, handler=s.handler)
          src.removeListener(bm)
        else:
          affected = self.mon.select(s.src, handler=s.handler, etype=s.etype)
          src.removeListener(bm, T)
        del bm
      elif how == "eid":
        src.removeListener(s.eid)
      elif how == "pair":
        src.removeListener((T, s.eid))
      elif how == "pair_type":
        src.removeListener((T, s.eid), T)
      elif how == "eid_type":
        src.removeListener(s.eid, T)
      elif how == "listeners":
        src.removeListeners([(T, s.eid)])
      else:
        raise HarnessError("unknown unsubscribe form %r" % (how,))
    except HarnessError:
      raise
    except Exception as e:
      if (isinstance(e, KeyError) and how in TYPE_INDEXED_UNSUB and (s.src, s.etype) not in self.has_entry
          and s.state == evmodel.DEAD):
        # the source's table was cleared and nothing has subscribed to this type since: there is nothing to remove,
        # and the statement does not say how removing what is not subscribed must end
        self.flag("unsub-by-type-after-clear-keyerror")
        return None
      self.out.violations.append({"key": exc_key(e, clause="unsubscribe-raised", how=how),
                                  "msg": "removeListener (%s form) raised %r\n%s" % (how, e, traceback.format_exc()[-1200:])})
      return None
    if s.state == evmodel.DEAD:
      self.flag("unsub-already-gone")
    for a in affected:
      self.mon.unsubscribe([a], "unsub-byhandler-weak" if a.weak and how.startswith("handler") else why)
    self.flag("unsub-" + how)
    if self.depth:
      self.flag("reentrant-unsub")
    return None

  def op_unsubs(self, op):
    """removeListeners([...]) with a list of mixed identifiers (handler / eid / (type, eid) pair), some of
    which may no longer (or twice) name a subscription.  All refer to the source of the first item."""
    subs = self.mon.subs
    items = op.get("items", [])
    if not subs or not items:
      self.flag("op-skipped-no-subscription")
      return None
    first = subs[items[0]["k"] % len(subs)]
    src = self.sources[first.src]
    ids, plan = [], []
    for it in items:
      s = subs[it["k"] % len(subs)]
      if s.src != first.src:
        continue
      how = it.get("how", "pair")
      if how == "handler":
        bm = self.bound(s.handler[0], METHODS.index(s.handler[1]))
        if bm is None:
          continue
        ids.append(bm)
        del bm
        plan.append(("handler", s))
      elif how == "eid":
        ids.append(s.eid)
        plan.append(("eid", s))
      elif (s.src, s.etype) not in self.has_entry:
        # nothing of this type on the source since its table was cleared: the (type, id) form of removing what is not
        # subscribed is not judged (see op_unsub), and would cut the list short; name it by id instead
        ids.append(s.eid)
        plan.append(("eid", s))
        self.flag("unsub-bulk-pair-after-clear-as-eid")
      else:
        ids.append((self.P["types"][s.etype], s.eid))
        plan.append(("pair", s))
    if not ids:
      self.flag("op-skipped-owner-gone")
      return None
    if len(ids) >= 2:
      self.flag("unsub-bulk-2plus")
    if any(s.state == evmodel.DEAD for _, s in plan):
      self.flag("unsub-bulk-with-entry-not-subscribed")
    if len(set(h for h, _ in plan)) > 1:
      self.flag("unsub-bulk-mixed-forms")
    try:
      src.removeListeners(ids)
    except HarnessError:
      raise
    except Exception as e:
      del ids
      self.out.violations.append({"key": exc_key(e, clause="unsubscribe-raised", how="bulk"),
                                  "msg": "removeListeners raised %r\n%s" % (e, traceback.format_exc()[-1200:])})
      return None
    del ids
    for how, s in plan:
      if how == "handler":
        for a in self.mon.select(s.src, handler=s.handler):
          self.mon.unsubscribe([a], "unsub-bulk")
      else:
        self.mon.unsubscribe([s], "unsub-bulk")
    self.flag("unsub-bulk")
    if self.depth:
      self.flag("reentrant-unsub")
    return None

  def op_clear(self, op):
    """source.clearHandlers(): every subscription of the source ends, whatever its type, at once."""
    si = op["s"] % self.nsrc
    src = self.sources[si]
    affected = self.mon.live_subs(si)
    pending = False
    for d in self.mon.stack:
      if d.src == si and any(not d.consumed[j] and e.state != evmodel.DEAD for j, e in enumerate(d.entries)):
        pending = True
    try:
      src.clearHandlers()
    except HarnessError:
      raise
    except Exception as e:
      self.out.violations.append({"key": exc_key(e, clause="clear-raised"),
                                  "msg": "clearHandlers raised %r\n%s" % (e, traceback.format_exc()[-1200:])})
      return None
    self.mon.unsubscribe(affected, "clear")
    self.has_entry = set(k for k in self.has_entry if k[0] != si)
    self.cleared.add(si)
    self.flag("clear")
    if affected:
      self.flag("clear-with-subscriptions")
    if self.depth:
      self.flag("reentrant-clear")
      if pending:
        self.flag("reentrant-clear-with-snapshot-handlers-pending")
    return None

  def op_raise(self, op, nested):
    RE = self.P["RE"]
    si = op["s"] % self.nsrc
    ti = op["t"] % len(TYPE_NAMES)
    src = self.sources[si]
    T = self.P["types"][ti]
    form = op.get("form", "inst")
    noerr = bool(op.get("noerr"))
    declared = self.mon.is_declared(si, ti)
    d = self.mon.begin_raise(si, ti)
    self.deliveries[d.id] = d
    f = src.raiseEventNoErrors if noerr else src.raiseEvent
    exc = None
    try:
      if form == "inst":
        f(T(d.id))
      else:
        f(T, d.id)
    except (Exception, Cancelled) as e:
      exc = e
    try:
      return self._judge_raise(d, exc, si, T, form, noerr, declared, nested)
    finally:
      # frame -> exception -> traceback -> frame cycles would keep owners alive until the cyclic collector runs
      if exc is not None:
        exc.__traceback__ = None
      he = self.abort_exc.pop(d.id, None)
      self.abort_owner.pop(d.id, None)
      if he is not None:
        he.__traceback__ = None
      exc = he = None

  def _judge_raise(self, d, exc, si, T, form, noerr, declared, nested):
    RE = self.P["RE"]
    # an owner may have died during the delivery (its last strong subscription removed by a return value,
    # its last frame gone when its handler returned): tell the monitor before it decides who was skipped
    self.poll_owners()
    handler_exc = self.abort_exc.get(d.id)
    if exc is not None and exc is not handler_exc:
      d.aborted = True            # the raise itself failed: judged below, once (not again as handlers that were skipped)
    self.mon.end_raise(d)
    del self.deliveries[d.id]
    self.flag("raise-nested" if nested else "raise")
    self.flag("raise-%s%s" % (form, "-noerr" if noerr else ""))
    if len(d.entries) >= 2:
      self.flag("delivery-2plus")
    if d.halted:
      self.flag("delivery-halted")
    if d.late:
      self.flag("delivery-with-late-subscriber")
    if d.optional:
      self.flag("delivery-with-removal")
    if self.harness_error is not None:
      return None
    if not declared and form == "inst":
      if isinstance(exc, RE.ReventError) and d.invocations == 0:
        self.flag("undeclared-raise-rejected")
        return exc
      if exc is None:
        self.out.fail("undeclared-accepted", "raising an instance of %s, which source %d does not declare, was accepted" % (T.__name__, si),
                      op="raise", noerr=noerr)
        return None
    unprintable = isinstance(handler_exc, UNPRINTABLE_CLASSES)
    if exc is None:
      if handler_exc is not None:
        self.flag("handler-exception-suppressed" if noerr else "handler-exception-not-propagated")
        if noerr:
          self.suppressed_for.add(self.abort_owner.get(d.id))
          if unprintable:
            self.flag("unprintable-exception-suppressed")
      return None
    if handler_exc is not None and exc is handler_exc:
      if noerr:
        self.out.fail("noerrors-propagated", "raiseEventNoErrors propagated a handler's exception to the raiser: %s" % (_sr(exc),),
                      exc=type(exc).__name__)
        return None
      self.flag("handler-exception-propagated")
      if unprintable:
        self.flag("unprintable-exception-propagated")
      self.propagated_for.add(self.abort_owner.get(d.id))
      return exc
    if noerr and handler_exc is not None:
      # the error-suppressing raise failed while it was dealing with the handler's exception: the handler's failure
      # reaches the raiser all the same, in the shape of whatever the suppression machinery tripped over
      k = exc_key(exc, clause="noerrors-propagated")
      k["exc"] = "raised-while-suppressing"
      self.out.violations.append({"key": k, "msg": "a handler raised %s; raiseEventNoErrors (%s form) did not suppress it but "
                                  "let %s reach the raiser\n%s" % (_sr(handler_exc), form, _sr(exc),
                                                                   "".join(traceback.format_exception(exc))[-1500:])})
      return None
    k = exc_key(exc, clause="raise-raised", noerr=noerr)
    if si in self.cleared:
      k["cleared"] = True       # the source dropped all its subscriptions at some point before / during this raise
    self.out.violations.append({"key": k,
                                "msg": "raise (%s form%s) raised %s, which no handler raised\n%s" % (
                                    form, ", NoErrors" if noerr else "", _sr(exc),
                                    "".join(traceback.format_exception(exc))[-1200:])})
    return None

  def op_drop(self, op, nested):
    i = op["h"] % self.nown
    if i not in self.owners:
      self.flag("op-skipped-owner-gone")
      return None
    if self.invocations_active(i):
      self.flag("op-skipped-owner-executing")
      return None
    had_weak = any(s.owner == i and s.weak and s.state != evmodel.DEAD for s in self.mon.subs)
    del self.owners[i]
    self.dropped.add(i)
    self.flag("drop")
    if i not in self.strong_ever and not self.mon.stack:
      # only ever subscribed weakly, nobody is executing: whatever happened to its handlers before (returned,
      # halted, raised with the exception propagated or suppressed), the owner goes when its holder lets go
      after = ("suppressed-exception" if i in self.suppressed_for else
               "propagated-exception" if i in self.propagated_for else
               "normal-returns" if self.invocations[i] else "no-invocation")
      if had_weak:
        self.flag("weak-only-owner-dropped-after-" + after)
      if self.wr[i]() is not None:
        gc.collect()
        if self.wr[i]() is not None:
          self.out.fail("weak-owner-kept-alive", "owner %d was only ever subscribed weakly, its last reference was dropped "
                        "(after %s of its handlers), and it is still alive after gc.collect()" % (i, after), after=after)
    self.poll_owners()
    if had_weak and i in self.known_dead:
      self.flag("weak-handler-owner-died")
    return None

  def in_use(self, si, ti, handler):
    """True when subscribing `handler` to (si, ti) now would make invocations ambiguous."""
    for s in self.mon.subs:
      if s.src == si and s.etype == ti and s.handler == handler:
        if s.state != evmodel.DEAD:
          return True
        for d in self.mon.stack:
          if d.src == si and d.etype == ti:
            return True
    return False

  def invocations_active(self, i):
    return any(s.owner == i and s.executing > 0 for s in self.mon.subs)

  def op_bind(self, op):
    RE = self.P["RE"]
    si = op["s"] % self.nsrc
    src = self.sources[si]
    i = op["h"] % self.nown
    o = self.wr[i]()
    if o is None:
      self.flag("op-skipped-owner-gone")
      return None
    pfx = op.get("pfx", "")
    weak, prio = bool(op.get("weak")), op.get("p", 0)
    if self.scripts[i].get("weakonly"):
      weak = True
    api = op.get("api", "addListeners")
    # expected wiring, from the documentation of autoBindEvents
    start = "_handle_" + (pfx + "_" if pfx else "")
    expect = []
    for m in sorted(METHODS):
      if m.startswith(start):
        ev = m[len(start):]
        if ev in TYPE_NAMES and self.mon.is_declared(si, TYPE_NAMES.index(ev)):
          expect.append((m, TYPE_NAMES.index(ev)))
    if any(self.in_use(si, ti, (i, m)) for m, ti in expect):
      self.flag("op-skipped-duplicate")
      return None
    try:
      if api == "addListeners":
        r = src.addListeners(o, pfx, weak, prio)
      elif api == "autoBind":
        r = RE.autoBindEvents(o, src, pfx, weak, prio)
      else:
        r = o.listenTo(src, pfx, weak, prio)
    except HarnessError:
      raise
    except Exception as e:
      del o
      self.out.violations.append({"key": exc_key(e, clause="bind-raised", api=api),
                                  "msg": "auto binding raised %r\n%s" % (e, traceback.format_exc()[-1200:])})
      return None
    del o
    got = None
    if isinstance(r, list):
      got = []
      for pair in r:
        t, eid = pair if isinstance(pair, tuple) and len(pair) == 2 else (None, None)
        hname = "?"
        for ent in getattr(src, "_eventMixin_handlers", {}).get(t, ()):
          if ent[3] == eid:
            h = ent[1]
            hname = getattr(getattr(h, "method", None), "__name__", None) or getattr(h, "__name__", "?")
        got.append((t.__name__ if isinstance(t, type) else repr(t), hname))
      got.sort()
    want = sorted((TYPE_NAMES[ti], m) for m, ti in expect)
    if got != want:
      self.out.fail("autobind-wiring", "auto binding with prefix %r bound (event, method) %r, expected %r" % (pfx, got, want), api=api)
      for pair in (r if isinstance(r, list) else ()):
        src.removeListener(pair)
      return None
    bytype = dict((t.__name__, eid) for t, eid in r)
    for m, ti in expect:
      s = self.mon.subscribe(si, ti, (i, m), i, prio, False, weak)
      s.eid = bytype[TYPE_NAMES[ti]]
      self.has_entry.add((si, ti))
    if not weak and expect:
      self.strong_ever.add(i)
    self.flag("bind-" + api)
    if weak:
      self.flag("sub-weak")
    return None


def run_case(case):
  setup()
  # listener ids restart at 1 in every case, as in a fresh process: small ids can then coincide with other small integers a
  # subscription carries (its priority, once=True == 1), which is where id-based removal can go wrong
  import pox.lib.revent.revent as _revent_mod
  _revent_mod._nextEventID = 0
  out = Outcome()
  rt = RT(case, out)
  sink = io.StringIO()
  gc.disable()                    # object lifetimes must not depend on when the cyclic collector happens to run
  unraisable = []

  def hook(u):
    # an exception inside a weakref callback / finaliser (the interpreter prints and drops it).  The statement says
    # nothing about them; they are counted, not judged.  (Keep nothing of `u`: it holds frames, hence owners.)
    unraisable.append(type(u.exc_value).__name__)
  old_hook, sys.unraisablehook = sys.unraisablehook, hook
  try:
    with contextlib.redirect_stdout(sink):
      for op in case["ops"]:
        rt.do_op(op, False)
  finally:
    # dismantle the case: drop the listener tables while every owner is still alive (no weakref
    # callback runs against a half-dismantled source), then the owners
    # (a CallProxy forms a cycle with its own weakref callbacks, so it outlives its table entry and its
    # _forgetMe still runs when the owner dies: keep the per-type keys, empty the lists)
    for s in rt.sources:
      h = getattr(s, "_eventMixin_handlers", {})
      for k in list(h) + _P["types"]:   # (a cleared table has lost its keys)
        h[k] = []
    rt.owners.clear()
    sys.unraisablehook = old_hook
    gc.enable()
  out.nontrivial = rt.nontrivial
  for f in sorted(rt.flags):
    out.label(f)
  for k, v in sorted(rt.mon.stats.items()):
    out.label(k)
  for n in sorted(set(unraisable)):
    out.label("unraisable-in-cleanup-" + n)
  if rt.nsrc >= 2:
    out.label("two-sources" if rt.nsrc == 2 else "three-sources")
  if out.violations:
    out.label("case-with-violation")
  return out


# --------------------------------------------------------------------------- exhaustive alphabets

def _o(**kw):
  d = {"ret": "none", "halt": False, "exc": False, "leak": False, "reps": 1, "ops": []}
  d.update(kw)
  return d


def _sub(h, t=0, p=0, s=0, **kw):
  d = {"op": "sub", "s": s, "t": t, "h": h, "m": 0, "p": p, "once": False, "weak": False, "api": "addListener"}
  d.update(kw)
  return d


def _raise(t=0, s=0, form="inst", noerr=False):
  return {"op": "raise", "s": s, "t": t, "form": form, "noerr": noerr}


def _unsub(k, how):
  return {"op": "unsub", "k": k, "how": how}


def _alphabets():
  A = {}
  # priorities, ordering, re-entrant subscription
  owners = [
    _o(),                                                       # 0 plain
    _o(ops=[_sub(0, p=5)]),                                     # 1 subscribes owner 0 with priority 5 during delivery
    _o(ops=[_sub(0, p=0)]),                                     # 2 subscribes owner 0 with default priority during delivery
    _o(ret="halt"),                                             # 3 halts
    _o(ops=[_raise(t=0, form="cls")], reps=1),                  # 4 re-raises the same type once
    _o(ops=[_sub(5, p=-1), _unsub(0, "eid")], reps=2),          # 5 subscribes itself low, removes the first subscription
  ]
  ops = [_sub(0), _sub(1), _sub(2), _sub(3), _sub(4), _sub(5), _sub(0, p=5), _sub(3, p=-1), _sub(1, p=5, once=True),
         _raise(), _raise(form="cls", noerr=True), _unsub(1, "pair")]
  A["prio"] = (owners, ops, 1)
  # removal forms, one-shot, return values, exceptions
  owners = [
    _o(),
    _o(ret="remove"),
    _o(ret="haltremove"),
    _o(exc=True),
    _o(ops=[_unsub(0, "handler")]),
    _o(ops=[_unsub(1, "pair"), _sub(0, t=0)], ret="cont"),
  ]
  ops = [_sub(0), _sub(1), _sub(2), _sub(3, once=True), _sub(4), _sub(5), _sub(0, once=True), _sub(0, t=1),
         _raise(), _raise(noerr=True), _raise(t=1, form="cls"),
         _unsub(0, "handler"), _unsub(0, "handler_type"), _unsub(1, "eid"),
         {"op": "unsubs", "items": [{"k": 0, "how": "pair"}, {"k": 1, "how": "pair"}]},
         {"op": "unsubs", "items": [{"k": 2, "how": "eid"}, {"k": 1, "how": "handler"}, {"k": 0, "how": "pair"}]}]
  A["remove"] = (owners, ops, 1)
  # weak handlers, owners, by-name wiring, two sources, undeclared types
  owners = [
    _o(),
    _o(ops=[{"op": "drop", "h": 0}]),
    _o(ops=[_sub(0, t=3)], leak=True),
    _o(ret="false"),
  ]
  ops = [_sub(0, weak=True), _sub(0, weak=True, once=True, api="byName"), _sub(1), _sub(2), _sub(3, s=1, api="add_listener_name"),
         _sub(0, t=1), _unsub(0, "eid"),
         _sub(0, t=2, s=1), _sub(0, t=3, api="byName"),
         {"op": "bind", "s": 0, "h": 0, "pfx": "", "weak": True, "p": 0, "api": "addListeners"},
         {"op": "bind", "s": 1, "h": 0, "pfx": "p", "weak": False, "p": 5, "api": "listenTo"},
         {"op": "drop", "h": 0}, _raise(), _raise(s=1, noerr=True), _raise(t=3), _unsub(0, "handler")]
  A["weak"] = (owners, ops, 2)
  # owners that compare equal to each other; a handler exception that is not an Exception
  owners = [
    _o(eq=1),
    _o(eq=1),
    _o(exc="base"),
  ]
  ops = [_sub(0, weak=True), _sub(1, weak=True), _sub(0), _sub(1, t=1), _sub(2),
         _unsub(0, "handler"), _unsub(1, "handler"), _unsub(0, "handler_type"), _unsub(1, "eid"),
         {"op": "drop", "h": 0}, _raise(), _raise(noerr=True), _raise(t=1, form="cls", noerr=True)]
  A["eq"] = (owners, ops, 1)
  # name-based wiring where prefixes, event names and "_handle_" share letters (source 2)
  owners = [_o(), _o(ret="remove")]
  ops = [{"op": "bind", "s": 2, "h": 0, "pfx": pf, "weak": False, "p": 0, "api": api}
         for pf, api in (("", "addListeners"), ("lan", "autoBind"), ("DHCPD", "listenTo"), ("handle", "addListeners"),
                         ("Up", "autoBind"), ("e_l", "addListeners"))]
  ops += [{"op": "bind", "s": 2, "h": 1, "pfx": "", "weak": True, "p": 5, "api": "addListeners"},
          {"op": "bind", "s": 2, "h": 1, "pfx": "DHCPD", "weak": True, "p": 0, "api": "autoBind"},
          _raise(s=2, t=4), _raise(s=2, t=6, form="cls"), _raise(s=2, t=8), _raise(s=2, t=9, noerr=True),
          _unsub(0, "handler"), {"op": "drop", "h": 1}]
  A["bind"] = (owners, ops, 3)
  # owners that only ever subscribe weakly and whose handlers end with an exception (suppressed by a NoErrors raise
  # through pox.core's hook, or propagated by a plain raise), then lose their holder: they must go, and their handlers with them
  owners = [
    _o(exc=True, weakonly=True),                                # 0 raises Boom
    _o(exc="base", weakonly=True),                              # 1 raises a BaseException
    _o(weakonly=True),                                          # 2 returns normally
    _o(ops=[{"op": "drop", "h": 0}]),                           # 3 (strong) drops owner 0 from inside a delivery
  ]
  ops = [_sub(0), _sub(0, t=1, api="byName"), _sub(1), _sub(2, p=5), _sub(3, p=7),
         {"op": "bind", "s": 0, "h": 0, "pfx": "", "weak": True, "p": 0, "api": "autoBind"},
         _raise(noerr=True), _raise(form="cls", noerr=True), _raise(), _raise(t=1, form="cls", noerr=True),
         {"op": "drop", "h": 0}, {"op": "drop", "h": 1}, {"op": "drop", "h": 2}]
  A["weakexc"] = (owners, ops, 1)
  # a source that drops all its subscriptions at once (clearHandlers), from outside and from inside a delivery,
  # with one-shot handlers / handlers that ask to be removed / weak handlers in the same delivery
  clear = {"op": "clear", "s": 0}
  owners = [
    _o(),                                                       # 0 plain
    _o(ops=[clear]),                                            # 1 clears the source
    _o(ops=[clear], ret="remove"),                              # 2 clears the source and asks to be removed
    _o(ops=[clear, _sub(0, t=1)], ret="false"),                 # 3 clears, subscribes owner 0 to another type, returns False
    _o(ops=[clear, _sub(0, t=0)], ret="cont"),                  # 4 clears, subscribes owner 0 to the same type again
    _o(ret="haltremove"),                                       # 5 halts and asks to be removed
  ]
  ops = [_sub(0), _sub(0, once=True, m=1), _sub(0, weak=True, p=-1, m=2), _sub(1, p=5), _sub(1), _sub(2), _sub(3), _sub(4),
         _sub(5, p=-1), _sub(0, t=1),
         clear, _raise(), _raise(form="cls", noerr=True), _raise(t=1, noerr=True),
         _unsub(0, "pair"), _unsub(1, "handler"), {"op": "drop", "h": 0}]
  A["clear"] = (owners, ops, 1)
  # the same, one step longer over fewer operations: an owner that listens both weakly and strongly and is kept alive by
  # its strong subscriptions only, so that it dies when the table goes -- possibly in the middle of a delivery whose
  # snapshot still holds its weak handler
  owners = [
    _o(),                                                       # 0 plain (the owner that is let go)
    _o(ops=[clear]),                                            # 1 clears the source
    _o(ops=[clear, _sub(2, t=0)], ret="cont"),                  # 2 clears, subscribes itself again
  ]
  ops = [_sub(0, weak=True, p=-1, m=2), _sub(0, t=1), _sub(0, m=1), _sub(1), _sub(2, p=5),
         {"op": "drop", "h": 0}, clear, _raise(), _raise(form="cls", noerr=True)]
  A["clearweak"] = (owners, ops, 1)
  # handlers whose exception is awkward to report (no arguments, a tuple argument, formatting characters in the text,
  # str()/repr() that fail or return a non-string), under plain and error-suppressing raises
  owners = [
    _o(),
    _o(exc="strraises"),
    _o(exc="base-strraises"),
    _o(exc="strnottext"),
    _o(exc="strmissingattr"),
    _o(exc="mute", weakonly=True),
    _o(exc="keyerr"),
    _o(exc="percent"),
    _o(exc="noargs"),
  ]
  ops = [_sub(0, p=5), _sub(1), _sub(2), _sub(3), _sub(4), _sub(5), _sub(6), _sub(7), _sub(8, once=True),
         _raise(), _raise(noerr=True), _raise(form="cls"), _raise(form="cls", noerr=True), {"op": "drop", "h": 5}]
  A["exc"] = (owners, ops, 1)
  return A


def _enum(name, maxlen):
  owners, ops, nsrc = _alphabets()[name]
  for n in range(1, maxlen + 1):
    for seq in itertools.product(range(len(ops)), repeat=n):
      yield {"nsrc": nsrc, "owners": owners, "ops": [ops[i] for i in seq], "alphabet": name}


# --------------------------------------------------------------------------- Hypothesis

def _s_op(nested):
  prio = st.sampled_from([-1, 0, 0, 0, 0, 5, 5, 7, 1, 2, 3, 4])
  # most operations meet on source 0 / type E0, so that deliveries with several handlers are the rule, not the exception
  src = st.sampled_from([0, 0, 0, 0, 0, 1, 2, 2])
  sub = st.fixed_dictionaries({
    "op": st.just("sub"), "s": src, "t": st.sampled_from([0] * 10 + [1, 1, 1, 2, 3, 4, 8]), "h": st.integers(0, 5),
    "m": st.sampled_from([0, 0, 0, 0, 1, 2, 4, 5, 8, 13]), "p": prio, "once": st.sampled_from([False, False, False, True]),
    "weak": st.sampled_from([False, False, False, True]), "api": st.sampled_from(SUB_APIS[:1] * 4 + SUB_APIS),
  })
  unsub = st.fixed_dictionaries({"op": st.just("unsub"), "k": st.integers(0, 11),
                                 "how": st.sampled_from(["handler", "handler", "eid", "pair"] + UNSUB_HOW)})
  unsubs = st.fixed_dictionaries({"op": st.just("unsubs"), "items": st.lists(
      st.fixed_dictionaries({"k": st.integers(0, 11), "how": st.sampled_from(["pair", "pair", "eid", "handler"])}), min_size=2, max_size=5)})
  rais = st.fixed_dictionaries({"op": st.just("raise"), "s": src, "t": st.sampled_from([0] * 12 + [1, 1, 1, 2, 3, 4, 5, 6, 8, 9]),
                                "form": st.sampled_from(["inst", "cls"]), "noerr": st.booleans()})
  drop = st.fixed_dictionaries({"op": st.just("drop"), "h": st.integers(0, 5)})
  bind = st.fixed_dictionaries({"op": st.just("bind"), "s": st.sampled_from([0, 1, 2, 2]), "h": st.integers(0, 5),
                                "pfx": st.sampled_from(BIND_PREFIXES), "weak": st.booleans(), "p": prio,
                                "api": st.sampled_from(BIND_APIS)})
  clear = st.fixed_dictionaries({"op": st.just("clear"), "s": src})
  # (st.one_of drops repeated branches, so the weights are drawn explicitly)
  if nested:
    table = [(3, sub), (2, unsub), (1, rais), (1, drop), (1, unsubs), (1, clear)]
  else:
    table = [(7, sub), (6, rais), (3, unsub), (1, drop), (2, bind), (1, unsubs), (1, clear)]
  idx = [i for i, (w, _) in enumerate(table) for _ in range(w)]
  return st.sampled_from(idx).flatmap(lambda i: table[i][1])


def _strategy(tier):
  maxops = 14 if tier == "quick" else 25
  owner = st.fixed_dictionaries({
    "ret": st.sampled_from(["none", "none", "none"] + RET_KINDS),
    "halt": st.sampled_from([False] * 7 + [True]),
    "exc": st.sampled_from([False] * 24 + [True, True, "base", "noargs", "keyerr", "percent"] + list(UNPRINTABLE)),
    "eq": st.sampled_from([0, 0, 0, 1, 1, 2]),
    "leak": st.sampled_from([False, False, True]),
    "weakonly": st.sampled_from([False, False, False, True]),
    "reps": st.sampled_from([1, 1, 2]),
    "ops": st.lists(_s_op(True), min_size=0, max_size=3),
  })
  return st.fixed_dictionaries({
    "nsrc": st.sampled_from([1, 1, 1, 2, 3]),
    "owners": st.lists(owner, min_size=2, max_size=5),
    "ops": st.lists(_s_op(False), min_size=3, max_size=maxops),
  })


def plan(tier):
  if tier == "quick":
    return [
      Enum("seq-prio", lambda: _enum("prio", 4), shards=4),
      Enum("seq-remove", lambda: _enum("remove", 4), shards=6),
      Enum("seq-weak", lambda: _enum("weak", 4), shards=8),
      Enum("seq-eq", lambda: _enum("eq", 4), shards=4),
      Enum("seq-bind", lambda: _enum("bind", 3), shards=4),
      Enum("seq-weakexc", lambda: _enum("weakexc", 4), shards=4),
      Enum("seq-clear", lambda: _enum("clear", 4), shards=8),
      Enum("seq-clearweak", lambda: _enum("clearweak", 5), shards=8),
      Enum("seq-exc", lambda: _enum("exc", 4), shards=4),
      Hyp("histories", lambda: _strategy(tier), examples=3000, shards=16),
    ]
  return [
    Enum("seq-prio", lambda: _enum("prio", 5), shards=16),
    Enum("seq-remove", lambda: _enum("remove", 5), shards=16),
    Enum("seq-weak", lambda: _enum("weak", 5), shards=16),
    Enum("seq-eq", lambda: _enum("eq", 5), shards=16),
    Enum("seq-bind", lambda: _enum("bind", 4), shards=16),
    Enum("seq-weakexc", lambda: _enum("weakexc", 5), shards=16),
    Enum("seq-clear", lambda: _enum("clear", 5), shards=16),
    Enum("seq-clearweak", lambda: _enum("clearweak", 6), shards=16),
    Enum("seq-exc", lambda: _enum("exc", 5), shards=16),
    Hyp("histories", lambda: _strategy(tier), examples=300000, shards=16),
  ]
