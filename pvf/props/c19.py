"""C19 -- discovered topology is the physical one; flooding is pruned to a tree.

Three kinds of cases:
  probe   one directed cable (dpid1, port1) -> (dpid2, port2) between two real software switches with the real
          openflow.discovery: the probe that leaves dpid1 is decoded by an independent LLDP/OpenFlow decoder and the
          adjacency must hold exactly that link; also the other encodings the receiver documents
  static  openflow.spanning_tree._calc_spanning_tree() on an injected adjacency, judged by pvf.ref.graph.check_tree
  topo    discovery + spanning_tree over a physical directed multigraph of software switches under a virtual clock;
          history of connect / disconnect / flap / cut / restore / silence / advance / quiesce ops; at every quiescent point
          adjacency, LinkEvent stream, the calculated tree and the NO_FLOOD bits in the switches' own port tables
          (by simulated floods over the physical cables) are judged.
          Control connections also go down from inside the controller: "react" rules are an application's LinkEvent
          listener that calls Connection.disconnect() on a switch from inside the handler (re-entrant ConnectionDown while
          a batch of withdrawals is being announced); op "sendfail" makes the k-th port_mod / packet_out / message of any
          type on a connection meet EPIPE (Connection.send drops the connection and defers the event; the world's settle()
          closes it as the I/O loop would on its next pass); ops "dup" / "closeold" are a datapath that reconnects while its
          previous connection is still open at the controller, and that stale connection being closed later.  The model
          takes such a switch out of the connected set at that very moment; everything else is judged as before.
"""
import errno
import itertools
import struct
import types
from collections import defaultdict

from hypothesis import strategies as st

from ..runner import Outcome, Enum, Hyp, HarnessError, exc_key
from ..ref import graph as G
from ..ref import c19_probe as P

ID = "C19"
LEVEL = "exploration"
TECHNIQUE = ("model-based testing: real discovery + spanning_tree + software switches under a virtual clock, judged against the "
             "physical cabling and graph predicates; exhaustive small graphs, boundary/random dpids and ports, Hypothesis histories")
LEVEL_TEXT = ("Exploration: the tree calculation is run on every directed multigraph in the enumerated bound (static predicate), "
              "the whole discovery/spanning-tree loop is run to convergence on every small graph and on Hypothesis-drawn change "
              "histories, and the probe codec on boundary and random 64-bit dpids / 16-bit ports. Graph families and histories are "
              "unbounded, so this is bounded enumeration plus random search with shrinking; nothing is claimed beyond the bounds.")
LEVEL_NOTE = ("trusts pvf/ref/graph.py (forest/component predicates, flood simulation) and pvf/ref/c19_probe.py (LLDP / packet_out "
              "decoder written from the standards); quiescence is 'a full probe cycle + link timeout + expiry sweep' of virtual time")
RULE = ("probe: (dpid1, port1, dpid2, port2, encoding) with boundary/random 64-bit dpids and ports in 1..0xfeff. static: a list of "
        "directed links. topo: physical directed multigraph (<= 2 cables per pair, each direction independently present) + history "
        "of ops. Non-trivial: the graph has a cycle of bidirectional links, or a one-way or parallel link (static/topo), or the "
        "history removes a link that was on the tree; probe cases are non-trivial when a dpid needs more than 48 bits or a port "
        "more than 8 bits, or the encoding is not POX's own; distinct by SHA-1 of the canonical JSON of the case")
ASSUMPTIONS = [
  "a cable is port-to-port and each direction is its own cable; self-loops (two ports of one switch) are not generated",
  "a disconnected switch takes no part (its data plane is treated as dead); a silent switch keeps its control connection but "
  "neither emits nor receives frames",
  "a quiescent point is reached after 24 s of virtual time without changes (probe cycle 5 s, link timeout 10 s, expiry sweep 5 s, "
  "port re-check 2 s)",
  "host-facing port = port of a connected switch that is not an endpoint of any adjacency link, as the property defines it",
  "flood semantics: a switch sends a flooded frame out of every port except the ingress port and those with OFPPC_NO_FLOOD; "
  "NO_FLOOD on the ingress port does not block reception (OpenFlow 1.0)",
  "2-byte binary port ids whose two bytes are both ASCII digits are ambiguous by design of the receiver and not generated",
  "a switch whose control connection the controller has dropped (application disconnect from a handler, failed send) counts as "
  "disconnected from that moment; after a failed send the I/O loop closes the connection (ConnectionDown) as soon as the "
  "running handler has returned",
  "a datapath that opens a second control connection stops using the first one; the controller's end of the first stays open "
  "until the history closes it (closeold); closing it changes nothing physical, so no link may be withdrawn for it",
]
EXHAUSTIVE_SCOPE = {
  "quick": "static: every directed multigraph on <= 3 labelled switches with 2 cable slots per pair and each direction "
           "independently present (16 states per pair), and on 4 switches with 5 states per pair {none, one-way, link, one-way + "
           "link, 2 links}; topo: every graph on 2 switches with 16 states per pair and on 3 switches with 7 states per pair "
           "{none, one-way either direction, link, one-way + link either order, 2 links}, run to convergence through the real "
           "controller and switches; every graph on 3 switches with 3 states per pair x each switch disconnecting and reconnecting; "
           "discovery.launch() options link_timeout in {default, 1, 2, 3, 4, 7, 20, 30} x explicit_drop x install_flow on two fixed graphs; "
           "every graph on 3 switches with 3 states per pair x each switch disconnecting or falling silent x a LinkEvent listener "
           "that drops the withdrawn link's source / destination / a fixed other switch from inside the handler x listener before "
           "or after spanning_tree's; the same graphs x each switch reconnecting while its old connection is open (4 orders of "
           "closing the stale one); two base graphs + a hot-plugged port x each switch's connection breaking on the 1st/2nd "
           "port_mod, 1st packet_out, 1st message x each single cable cut or other switch disconnecting",
  "thorough": "static: additionally 5 switches with 3 states per pair {none, link, one-way + link} and 4 switches with 7 states; "
              "topo: every graph on <= 3 switches with 16 states per pair and on 4 switches with 5 states per pair; the listener "
              "and overlapping-reconnect enumerations on 5 states per pair; a third base graph for send failures",
}

_S = {}


def setup():
  if _S:
    return
  from ..sim import world as W
  W.boot()
  import pox.openflow.discovery as D
  import pox.openflow.spanning_tree as ST
  import pox.openflow.libopenflow_01 as of
  from pox.lib.addresses import EthAddr
  _S.update(D=D, ST=ST, of=of, EthAddr=EthAddr)


def _reset_modules():
  D, ST = _S["D"], _S["ST"]
  D.random = lambda: 0.5                      # only consulted for fractional chunk sizes (> 75 ports)
  D.shuffle = lambda l: None
  ST._prev = defaultdict(lambda: defaultdict(lambda: None))
  ST._dirty_switches = {}
  ST._noflood_by_default = False
  ST._hold_down = False


def _port_mac(dpid, port):
  return bytes([2]) + (dpid % 0xffffff).to_bytes(3, "big") + (port & 0xffff).to_bytes(2, "big")


def _phy_ports(dpid, numbers):
  of, EthAddr = _S["of"], _S["EthAddr"]
  out = []
  for no in numbers:
    p = of.ofp_phy_port()
    p.port_no = no
    p.hw_addr = EthAddr(_port_mac(dpid, no))
    p.name = "p%d" % no
    p.config = of.OFPPC_NO_STP
    p.curr = p.advertised = p.supported = p.peer = of.OFPPF_10MB_HD
    out.append(p)
  return out


def _exc(out, e, clause):
  out.violations.append({"key": exc_key(e, clause=clause), "msg": "%s: %r" % (clause, e)})


# --------------------------------------------------------------------------- probe cases

def case_probe(c, out):
  from ..sim.net import NetWorld
  D = _S["D"]
  d1, p1, d2, p2, style = c["d1"], c["p1"], c["d2"], c["p2"], c["style"]
  if d1 == d2:
    raise HarnessError("self-loop probe case")
  out.label("style:" + style)
  out.nontrivial = d1 >= (1 << 48) or d2 >= (1 << 48) or p1 > 255 or p2 > 255 or style != "pox"
  if d1 >= (1 << 63) or d1 == 0:
    out.label("dpid:boundary")
  _reset_modules()
  w = NetWorld()
  try:
    D.launch()
    disc = w.core.openflow_discovery
    evs = []
    disc.addListenerByName("LinkEvent", lambda e: evs.append((bool(e.added), tuple(e.link))))
    net = w.net
    net.reset_budget(10 ** 9)
    net.add_switch(d2, ports=_phy_ports(d2, [p2]), expire=False, connect=False)
    net.add_switch(d1, ports=_phy_ports(d1, [p1]), expire=False, connect=False)
    if style == "pox":
      net.cable(d1, p1, d2, p2, both=False)
    net.connect(d2)
    net.connect(d1)
    w.settle()
    want = (d1, p1, d2, p2)
    if style == "pox":
      # (1) the packet_out the sender builds, decoded independently
      holder = types.SimpleNamespace(_ttl=120, _create_discovery_packet=D.LLDPSender._create_discovery_packet)
      raw = D.LLDPSender.create_packet_out(holder, d1, p1, _S["EthAddr"](_port_mac(d1, p1)))
      try:
        po = P.decode_packet_out(raw)
        if po["buffer_id"] != P.NO_BUFFER:
          out.fail("probe-packet-out", "buffer_id %#x" % po["buffer_id"], field="buffer_id")
        acts = po["actions"]
        if len(acts) != 1 or acts[0][0] != P.OFPAT_OUTPUT or struct.unpack("!H", acts[0][1][:2])[0] != p1:
          out.fail("probe-packet-out", "actions %r, expected one output to port %d" % (acts, p1), field="actions")
        for clause, msg in P.check_probe(po["data"], d1, p1, _port_mac(d1, p1)):
          out.fail(clause, "create_packet_out(%#x, %d): %s" % (d1, p1, msg))
      except P.Bad as e:
        out.fail("probe-packet-out", "create_packet_out(%#x, %d) is not a valid packet_out: %s" % (d1, p1, e), field="format")
      # (2) what actually left the switch
      hops, host_rx, stray = net.take()
      sent = [x for (d, p, x) in stray if d == d1 and p == p1]
      if not sent:
        out.fail("probe-not-sent", "no frame left switch %#x port %d on connection" % (d1, p1))
      for x in sent[:1]:
        for clause, msg in P.check_probe(x, d1, p1, _port_mac(d1, p1)):
          out.fail(clause, "frame emitted by switch %#x port %d: %s" % (d1, p1, msg))
    else:
      frame = P.build_probe(style, d1, p1, _port_mac(d1, p1))
      w.switches[d2].rx_frame(frame, p2)
      w.settle()
    got = sorted(tuple(l) for l in disc.adjacency)
    if got != [want]:
      out.fail("probe-link", "probe for %#x.%d received on %#x.%d recorded as %r" % (d1, p1, d2, p2, got), style=style)
    elif evs != [(True, want)]:
      out.fail("probe-link-event", "LinkEvents %r" % (evs,), style=style)
  finally:
    w.close()


# --------------------------------------------------------------------------- static tree cases

class _Stub(object):
  adjacency = {}


def case_static(c, out):
  import pox.core
  D, ST = _S["D"], _S["ST"]
  links = [tuple(l) for l in c["links"]]
  stub = _Stub()
  stub.adjacency = dict((D.Link(*l), 1000.0) for l in links)
  core = pox.core.core
  old = core.components.get("openflow_discovery")
  core.components["openflow_discovery"] = stub
  tree = None
  try:
    tree = ST._calc_spanning_tree()
  except Exception as e:
    _exc(out, e, "calc-tree-raises")
  finally:
    if old is None:
      core.components.pop("openflow_discovery", None)
    else:
      core.components["openflow_discovery"] = old
  _graph_labels(out, links)
  if any(l[0] == l[2] for l in links):
    out.label("graph:self-loop")
  if tree is None:
    return
  tree = {d: sorted(es) for d, es in tree.items()}
  for clause, msg in G.check_tree(links, tree):
    out.fail(clause, "links %r -> tree %r: %s" % (links, tree, msg))


def _graph_labels(out, links):
  bi = G.bidirectional(links)
  s = set(links)
  nodes = set()
  for (a, _, b, _) in s:
    nodes.add(a)
    nodes.add(b)
  oneway = any((b, bp, a, ap) not in s for (a, ap, b, bp) in s)
  pairs = defaultdict(int)
  for (a, _), (b, _) in bi:
    pairs[(a, b)] += 1
  parallel = any(v > 1 for v in pairs.values())
  comps = G.components(nodes, bi)
  cyc = len(set(pairs)) > len(nodes) - len(comps)
  if any(a == b for (a, _, b, _) in s):
    cyc = True
  if oneway:
    out.label("graph:one-way")
  if parallel:
    out.label("graph:parallel")
  if cyc:
    out.label("graph:cycle")
  if len(comps) > 1:
    out.label("graph:several-components")
  out.nontrivial = bool(oneway or parallel or cyc)
  return cyc, oneway, parallel


# --------------------------------------------------------------------------- topology histories

QUIESCE = 24.0

_WORLD = []


def _world():
  """A NetWorld whose settle() also plays the part of the controller's I/O loop towards broken sockets: a connection
  whose send failed (Connection.send has marked it disconnected and deferred the event) is closed on the loop's next
  pass, i.e. once the handler that was running has returned."""
  if not _WORLD:
    from ..sim.net import NetWorld

    class _LoopWorld(NetWorld):
      def __init__(self, **kw):
        NetWorld.__init__(self, **kw)
        self.broken = []                        # controller-side connections with a failed send, in order of failure
        self._closing = False

      def settle(self, max_rounds=10000):
        NetWorld.settle(self, max_rounds)
        if self._settling or self._closing:     # called from inside a delivery / a close: the outermost call finishes the job
          return
        self._closing = True
        try:
          while self.broken:
            self.broken.pop(0).close()
            NetWorld.settle(self, max_rounds)
        finally:
          self._closing = False
    _WORLD.append(_LoopWorld)
  return _WORLD[0]()


def case_topo(c, out):
  D, ST, of = _S["D"], _S["ST"], _S["of"]
  n = c["n"]
  cables = c["cables"]                       # [a, ap, b, bp, fwd, rev]
  opts = c.get("opts", {})
  dpids = c.get("dpids") or list(range(1, n + 1))
  _reset_modules()
  w = _world()
  try:
    lt = opts.get("link_timeout")
    D.launch(no_flow=not opts.get("install_flow", True), explicit_drop=opts.get("explicit_drop", True),
             link_timeout=lt, eat_early_packets=bool(opts.get("eat_early_packets")))
    ST.launch(no_flood=bool(opts.get("no_flood")), hold_down=bool(opts.get("hold_down")))
    disc = w.core.openflow_discovery
    evs = {}
    order_bad = []

    stale = [0]
    last_rx = {}                    # (dpid, port) -> virtual time a frame last entered that port
    event_bad = []
    TIMEOUT = float(lt or 10)                 # what the configuration asks for, not what the component ended up with
    CYCLE = TIMEOUT / 2.0                     # documented: every port is probed once per half timeout
    CALM = TIMEOUT + CYCLE + 1.0
    quiesce_dt = CYCLE + TIMEOUT + 5.0 + 4.0      # probe cycle + link timeout + expiry sweep period + slack (24 s by default)
    live_since = {}
    churn = [w.clock.now]                     # last time a switch connected or disconnected (the sender re-times itself)

    def on_link(e):
      k = tuple(e.link)
      now = w.clock.now
      if not e.added and e.link in disc.adjacency:
        stale[0] += 1
      last = evs.get(k)
      if (last is None and not e.added) or (last is not None and last == bool(e.added)):
        order_bad.append((k, last, bool(e.added), now))
      evs[k] = bool(e.added)
      if e.added:
        # an announced link must be a cable over which a probe can travel right now (a switch with a failed send is
        # still a connected switch to the controller's components until its ConnectionDown has been raised)
        if k not in live_cables(also=pending_down()):
          event_bad.append(("link-added-not-physical", k, now, "no live cable %r" % (k,), {}))
      else:
        # a withdrawal needs a reason: an end switch is gone, or no probe arrived over it for the timeout
        a, ap, b, bp = k
        gone = [d for d in (a, b) if d not in connected]
        seen = last_rx.get((b, bp))
        why = None
        if not gone and seen is not None and not (seen + TIMEOUT < now):
          why = "both switches are connected and a probe arrived over it %.3f s ago (timeout %g s)" % (now - seen, TIMEOUT)
        elif (not gone and k in live_cables() and live_since.get(k, now) <= now - CALM and churn[0] <= now - CALM):
          why = ("the cable has been healthy for %.3f s and no switch connected or disconnected for %.3f s, yet the last probe "
                 "over it arrived %s (timeout %g s, probe cycle %g s)" % (
                     now - live_since[k], now - churn[0],
                     "never" if seen is None else "%.3f s ago" % (now - seen), TIMEOUT, CYCLE))
        if why:
          event_bad.append(("link-removed-unjustified", k, now, why,
                            {"cause": "stale-connection-close"} if st_.get("op") == "closeold" else
                            {"during": {"disconnect": "switch-disconnect", "flap": "switch-disconnect", "connect": "switch-connect",
                                        "adv": "time-passing", "quiesce": "time-passing", "portflap": "time-passing",
                                        "dup": "overlapping-reconnect"}.get(st_.get("op"), "other")}))
    # first in line: an exception in another listener must not hide the event from the observer
    disc.addListenerByName("LinkEvent", on_link, priority=10 ** 9)
    net = w.net
    net.record = False
    net.reset_budget(10 ** 9)      # probes are never re-forwarded: no storm to guard against

    def on_deliver(dpid, port, data):
      last_rx[(dpid, port)] = w.clock.now
    net.on_deliver = on_deliver
    if opts.get("pad"):
      net.pad_to = 60                          # real wires carry at least 60 bytes (+ FCS)
    hot = sorted(set(k % len(cables) for k in c.get("hot", []))) if cables else []
    nports = {}
    for (a, ap, b, bp, f, r) in cables:
      nports[a] = max(nports.get(a, 0), ap)
      nports[b] = max(nports.get(b, 0), bp)
    extra = c.get("extra", 1)
    ports = {}
    for i in range(n):
      d = dpids[i]
      absent = set()
      for k in hot:
        (a, ap, b, bp, f, r) = cables[k]
        if a == i:
          absent.add(ap)
        if b == i:
          absent.add(bp)
      ports[d] = [p_ for p_ in range(1, nports.get(i, 0) + extra + 1) if p_ not in absent]
      net.add_switch(d, ports=_phy_ports(d, ports[d]), expire=False, connect=False)
    # directed cables
    dirs = []                                   # [a, ap, b, bp] by index: 2k forward, 2k+1 reverse (None when absent)
    for (a, ap, b, bp, f, r) in cables:
      A, B_ = dpids[a], dpids[b]
      dirs.append((A, ap, B_, bp) if f else None)
      dirs.append((B_, bp, A, ap) if r else None)
    up = {}
    for i_, dl in enumerate(dirs):
      if dl is not None:
        net.cable(dl[0], dl[1], dl[2], dl[3], both=False)
        up[dl] = (i_ // 2) not in hot
        net.set_cable(dl[0], dl[1], up[dl])
    plugged = set()
    connected = set()
    silent = set()
    removed_tree_link = [False]
    st_ = {"quiesced": 0, "tree_before": set(), "flood_reports": 0}

    def sync_dead():
      net.dead = set(d for d in ports if d not in connected) | silent

    cable_of = {}
    for i_, dl in enumerate(dirs):
      if dl is not None:
        cable_of[dl] = i_ // 2

    def live_cables(also=()):
      return set(dl for dl in up if up[dl] and (dl[0] in connected or dl[0] in also) and (dl[2] in connected or dl[2] in also)
                 and dl[0] not in silent and dl[2] not in silent
                 and (cable_of[dl] not in hot or cable_of[dl] in plugged))

    def track_live():
      lc = live_cables()
      for dl in list(live_since):
        if dl not in lc:
          del live_since[dl]
      for dl in lc:
        live_since.setdefault(dl, w.clock.now)

    # -- control connections that go down from inside the controller (not by a history op of their own)
    dropped = set()                 # switches whose connection went down that way in the course of the current op
    zombies = []                    # their Link objects; taken off the world's list between ops
    stale_cons = {}                 # dpid -> [Link]: older connections of a reconnected datapath whose controller end is still open
    probeless = set()               # connected switches that saw an older connection of theirs closed after the current one came up

    pending = []                    # (connection, dpid): sends that failed; ConnectionDown is due on the I/O loop's next pass

    def pending_down():
      return set(d_ for (con_, d_) in pending if con_ in w.broken)

    deleted_ports = defaultdict(set)   # dpid -> ports deleted (PortStatus DELETE) since the switch's last ConnectionUp
    readded_ports = set()              # (dpid, port) deleted and added again with the same number since then

    def lose_connection(d, link):
      """Bookkeeping for 'the controller's end of d's current connection is going down now'."""
      connected.discard(d)
      probeless.discard(d)
      dropped.add(d)
      churn[0] = w.clock.now
      link.alive = False
      w.switches[d].link = None
      zombies.append(link)
      sync_dead()
      track_live()

    def drop_now(d):
      """An application calls Connection.disconnect() on d's connection from inside an event handler."""
      link = w.switches[d].link
      if d not in connected or link is None or not link.alive or link.con.connect_time is None:
        return False                          # (an application only ever holds connections that have come up)
      if any(dl[0] == d or dl[2] == d for dl in live_cables() if touches_tree([(dl[0], dl[1]), (dl[2], dl[3])])):
        removed_tree_link[0] = True
      lose_connection(d, link)
      link.con.disconnect()
      link.csock.close()
      return True

    rules = [dict(r, left=r.get("n", 1)) for r in c.get("react", [])]

    def react(e):
      k = tuple(e.link)
      for r in rules:
        if r["left"] <= 0 or (r["on"] != "any" and (r["on"] == "added") != bool(e.added)):
          continue
        if r.get("at") is not None and dpids[r["at"] % n] not in (k[0], k[2]):
          continue
        tgt = k[0] if r["drop"] == "src" else k[2] if r["drop"] == "dst" else dpids[r["drop"] % n]
        if drop_now(tgt):
          r["left"] -= 1
          st_["reacted"] = st_.get("reacted", 0) + 1
    if rules:
      # an application's own LinkEvent listener, before or after spanning_tree's (default priority 0)
      disc.addListenerByName("LinkEvent", react, priority=(1000 if c.get("react_first", True) else -1000))

    OFPT = {"port_mod": of.OFPT_PORT_MOD, "packet_out": of.OFPT_PACKET_OUT, "any": None}

    def arm(link, d, typ, nth):
      """The nth message of the given type sent on this connection from now on meets a reset socket (EPIPE)."""
      sock = link.csock
      real = sock.send
      left = [nth]
      want = OFPT[typ]

      def send(data, flags=0):
        if left[0] > 0 and len(data) >= 2 and (want is None or data[1] == want):
          left[0] -= 1
          if left[0] == 0:
            if w.switches[d].link is link and d in connected:
              if any(dl[0] == d or dl[2] == d for dl in live_cables() if touches_tree([(dl[0], dl[1]), (dl[2], dl[3])])):
                removed_tree_link[0] = True
              lose_connection(d, link)
              w.broken.append(link.con)
              pending.append((link.con, d))
              st_["send_failure_since_judge"] = {of.OFPT_PORT_MOD: "port_mod", of.OFPT_PACKET_OUT: "packet_out"}.get(data[1], "other")
              st_.setdefault("send_failed", []).append(typ if want is not None else
                                                       {of.OFPT_PORT_MOD: "port_mod", of.OFPT_PACKET_OUT: "packet_out"}.get(data[1], "other"))
            raise OSError(errno.EPIPE, "Broken pipe")
        return real(data, flags)
      sock.send = send

    def noflood_bits():
      nf = set()
      for d in connected:
        for p, port in w.switches[d].sw.ports.items():
          if port.config & of.OFPPC_NO_FLOOD:
            nf.add((d, p))
      return nf

    def flood_state(got, want, tree):
      """[(clause, msg, offender_on_tree)] for the NO_FLOOD bits in the switches' own port tables."""
      r = []
      nf = noflood_bits()
      lp = G.link_ports(got)
      bi = G.bidirectional(got)
      comps = G.components(connected, bi)
      comp_of = {}
      for cc in comps:
        for d in cc:
          comp_of[d] = cc
      deg = defaultdict(int)
      for (a, _), (b, _) in bi:
        deg[a] += 1
        deg[b] += 1
      # which switches deviate from the component's own tree on this adjacency
      tports = set()
      for d, es in tree.items():
        for (_, p) in es:
          tports.add((d, p))
      offenders = sorted(d for d in connected
                         if any((((d, p) in nf) != ((d, p) in lp and (d, p) not in tports)) for p in ports[d]))
      on_tree = any(deg[d] for d in offenders)
      st_["offenders"] = offenders
      bad_ports = [(d, p) for d in offenders for p in ports[d] if ((d, p) in nf) != ((d, p) in lp and (d, p) not in tports)]
      st_["offending_readded"] = bool(bad_ports) and all(dp in readded_ports for dp in bad_ports)
      state = "NO_FLOOD %r, adjacency %r" % (sorted(nf), sorted(got))
      for d in sorted(connected):
        bad = [p for p in ports[d] if (d, p) not in lp and (d, p) in nf]
        if bad:
          r.append(("edge-port-noflood",
                    "t=%.3f switch %d ports %r are host-facing (no adjacency link ends there) but have NO_FLOOD set; %s" % (
                        w.clock.now, d, bad, state), on_tree))
          break
      cab = {}
      for dl in want:
        cab[(dl[0], dl[1])] = (dl[2], dl[3])
      pmap = {d: ports[d] for d in connected}
      for d in sorted(connected):
        starts = [p for p in ports[d] if (d, p) not in lp]
        if not starts:
          continue
        p = starts[0]      # the flood does not depend on which edge port of the switch it starts from
        recv, term = G.flood(d, p, pmap, nf, cab)
        if not term:
          r.append(("flood-loop", "t=%.3f a frame flooded from host port %d.%d circulates for ever; %s" % (
              w.clock.now, d, p, state), on_tree))
          break
        dup = sorted(x for x, k in recv.items() if k > 1)
        miss = sorted(x for x in comp_of[d] if recv.get(x, 0) == 0)
        if dup:
          r.append(("flood-duplicate", "t=%.3f a frame flooded from host port %d.%d reaches switches %r more than once; %s" % (
              w.clock.now, d, p, dup, state), on_tree))
          break
        if miss:
          r.append(("flood-miss", "t=%.3f a frame flooded from host port %d.%d never reaches %r (bidirectional component %r); %s" % (
              w.clock.now, d, p, miss, comp_of[d], state), on_tree))
          break
      return r

    def judge():
      st_["quiesced"] += 1
      want = live_cables()
      got = set(tuple(l) for l in disc.adjacency)
      if got != want:
        missing, extra_ = sorted(want - got), sorted(got - want)
        cause = {}
        if missing and not extra_ and all(k[0] in probeless for k in missing):
          # every missing link starts at a switch that is connected but had an older connection of its own closed
          cause["cause"] = "stale-connection-close"
        out.fail("adjacency", "t=%.3f physical live cables %r, adjacency %r (missing %r, extra %r)%s" % (
            w.clock.now, sorted(want), sorted(got), missing, extra_,
            "; switches %r are connected, but an older connection of theirs was closed after the present one came up" % (
                sorted(probeless),) if probeless else ""),
            shape=("missing" if missing else "") + ("+" if missing and extra_ else "") + ("stale" if extra_ else ""), **cause)
        return
      # the component's own calculation on the current adjacency
      try:
        tree = {d: sorted(es) for d, es in ST._calc_spanning_tree().items()}
      except Exception as e:
        _exc(out, e, "calc-tree-raises")
        return
      for clause, msg in G.check_tree(got, tree):
        out.fail(clause, "t=%.3f adjacency %r -> tree %r: %s" % (w.clock.now, sorted(got), tree, msg))
      # what the switches really do
      fs = flood_state(got, want, tree) if st_["flood_reports"] < 3 else []
      if fs:
        st_["flood_reports"] += 1
        offs = st_["offenders"]
        reconn = bool(offs) and all(d in st_.get("reconnected", ()) for d in offs)
        readd = st_.get("offending_readded", False)
        # diagnosis for the root-cause key: does a recomputation on this (correct) adjacency repair it?
        try:
          ST._update_tree()
          w.settle()
          again = flood_state(got, want, tree)
        except Exception as e:
          _exc(out, e, "update-tree-raises")
          again = fs
        for (clause, msg, on_tree) in fs[:1]:
          if again:
            on_tree = again[0][2]      # who is still wrong after the component recomputed on its own
          out.fail(clause, msg + "; removal events raised while the link was still in adjacency: %d; after a forced "
                   "_update_tree(): %s" % (stale[0], "repaired" if not again else "still wrong"),
                   removal_event_sees_link=bool(stale[0]), after_forced_update="fixed" if not again else "persists",
                   offender_on_tree=on_tree, offender_reconnected=reconn,
                   # every port with a wrong bit was deleted and added again (same number) since its switch last connected
                   offending_ports_deleted_and_readded=readd,
                   # a control connection broke on a send of this type since the previous quiescent point
                   send_failure=st_.get("send_failure_since_judge"))
      st_["send_failure_since_judge"] = None
      st_["tree_before"] = set()
      for d, es in tree.items():
        for (w2, p) in es:
          st_["tree_before"].add((d, p))

    def touches_tree(ends):
      return any(e in st_["tree_before"] for e in ends)

    def forget_ports(d):
      deleted_ports[d].clear()
      for dp in [dp for dp in readded_ports if dp[0] == d]:
        readded_ports.discard(dp)

    def do_connect(d):
      if d not in connected:
        if d in st_.setdefault("was_connected", set()):
          st_.setdefault("reconnected", set()).add(d)
          if not st_.get("reconnect"):
            st_["reconnect"] = True
            out.label("history:reconnect")
        st_["was_connected"].add(d)
        connected.add(d)
        forget_ports(d)
        churn[0] = w.clock.now
        sync_dead()
        track_live()
        net.connect(d, revive=d not in silent)
        sync_dead()
        w.settle()

    def do_disconnect(d):
      if d in connected:
        if any(dl[0] == d or dl[2] == d for dl in live_cables()
               if touches_tree([(dl[0], dl[1]), (dl[2], dl[3])])):
          removed_tree_link[0] = True
        connected.discard(d)
        churn[0] = w.clock.now
        track_live()
        net.disconnect(d)
        sync_dead()
        w.settle()

    def adj_now():
      return set(tuple(l) for l in disc.adjacency)

    def immediate(kind, before, d=None):
      """Right after an op, before any virtual time passes."""
      after = adj_now()
      gone = set(dropped)                     # connections that went down from inside the controller during this op
      if kind == "disconnect":
        gone.add(d)

      def touches_gone(k):
        return k[0] in gone or k[2] in gone
      if kind == "disconnect":
        want = set(k for k in before if not touches_gone(k))
        if after != want:
          out.fail("adjacency-after-disconnect",
                   "t=%.3f switch %d disconnected%s: adjacency was %r, is %r, expected %r (wrongly withdrawn %r, still listed %r)" % (
                       w.clock.now, d, (" (and, from a handler, %r)" % sorted(dropped)) if dropped else "",
                       sorted(before), sorted(after), sorted(want), sorted(want - after), sorted(after - want)),
                   shape=("withdrawn-too-much" if want - after else "") + ("not-withdrawn" if after - want else ""))
      else:
        lost = set(k for k in before - after if not touches_gone(k))
        kept = sorted(k for k in after if touches_gone(k))
        new_ = after - before
        notphys = sorted(k for k in new_ if k not in live_cables() and not touches_gone(k))
        if lost or notphys or kept:
          extra_key = {}
          if kind == "closeold":
            extra_key["cause"] = "stale-connection-close"
          out.fail("adjacency-after-" + kind,
                   "t=%.3f after %s: adjacency was %r, is %r (lost %r, added without a live cable %r, still listed although "
                   "their switch's connection went down %r)" % (
                       w.clock.now, kind, sorted(before), sorted(after), sorted(lost), notphys, kept),
                   shape=("lost" if lost else "") + ("added" if notphys else "") + ("not-withdrawn" if kept else ""), **extra_key)

    for op in c["ops"]:
      o = op["o"]
      st_["op"] = o
      dropped.clear()
      for z in zombies:
        if z in w.links:
          w.links.remove(z)
      del zombies[:]
      track_live()
      before_op = adj_now()
      if o == "connect":
        d = dpids[op["s"] % n]
        do_connect(d)
        immediate("connect", before_op)
      elif o == "disconnect":
        d = dpids[op["s"] % n]
        was = d in connected
        do_disconnect(d)
        if was:
          immediate("disconnect", before_op, d)
      elif o == "flap":            # the control connection drops and comes back dt/8 s later
        d = dpids[op["s"] % n]
        if d in connected:
          do_disconnect(d)
          immediate("disconnect", before_op, d)
          track_live()
          w.advance(op["dt"] / 8.0)
          b2 = adj_now()
          do_connect(d)
          immediate("connect", b2)
      elif o == "dup":
        # the datapath opens a new control channel while its previous one is still open at the controller (it has not
        # noticed yet that the peer is gone): the nexus now maps the dpid to the new connection
        d = dpids[op["s"] % n]
        sw_ = w.switches[d]
        if d in connected and sw_.link is not None and sw_.link.alive:
          old = sw_.link
          old.alive = False                    # nothing the controller writes there arrives any more
          if old in w.links:
            w.links.remove(old)
          sw_.link = None
          stale_cons.setdefault(d, []).append(old)
          probeless.discard(d)
          forget_ports(d)
          churn[0] = w.clock.now
          net.connect(d, revive=d not in silent)
          sync_dead()
          w.settle()
          st_["dup"] = True
          immediate("dup", before_op)
      elif o == "closeold":
        # the controller's loop finds the oldest stale connection of a datapath closed
        d = dpids[op["s"] % n]
        if stale_cons.get(d):
          old = stale_cons[d].pop(0)
          if d in connected:
            st_["stale_close"] = True
            probeless.add(d)
          old.con.close()
          w.settle()
          immediate("closeold", before_op)
      elif o == "sendfail":
        d = dpids[op["s"] % n]
        link_ = w.switches[d].link
        if d in connected and link_ is not None and link_.alive and not getattr(link_, "armed", False):
          link_.armed = True
          arm(link_, d, op["t"], op["k"])
      elif o in ("cut", "restore"):
        present = [dl for dl in dirs if dl is not None]
        if present:
          dl = present[op["c"] % len(present)]
          if o == "cut" and up[dl] and dl in live_cables() and touches_tree([(dl[0], dl[1]), (dl[2], dl[3])]):
            removed_tree_link[0] = True
          up[dl] = (o == "restore")
          net.set_cable(dl[0], dl[1], up[dl] and (cable_of[dl] not in hot or cable_of[dl] in plugged))
      elif o == "cutboth" or o == "restoreboth":
        k = op["c"] % max(1, len(cables))
        for dl in (dirs[2 * k], dirs[2 * k + 1]) if cables else ():
          if dl is None:
            continue
          if o == "cutboth" and up[dl] and dl in live_cables() and touches_tree([(dl[0], dl[1]), (dl[2], dl[3])]):
            removed_tree_link[0] = True
          up[dl] = (o == "restoreboth")
          net.set_cable(dl[0], dl[1], up[dl] and (cable_of[dl] not in hot or cable_of[dl] in plugged))
      elif o in ("plug", "unplug"):
        if hot:
          k = hot[op["c"] % len(hot)]
          (a, ap, b, bp, f, r) = cables[k]
          ends = [(dpids[a], ap), (dpids[b], bp)]
          if o == "plug" and k not in plugged:
            plugged.add(k)
            for (d, p_) in ends:
              if p_ not in ports[d]:
                ports[d].append(p_)
                ports[d].sort()
              if p_ in deleted_ports[d]:
                readded_ports.add((d, p_))
                st_["readded"] = True
              net.add_port(d, p_)
            for dl in (dirs[2 * k], dirs[2 * k + 1]):
              if dl is not None:
                up[dl] = True
                net.set_cable(dl[0], dl[1], True)
            st_["plugged"] = True
            w.settle()
          elif o == "unplug" and k in plugged:
            plugged.discard(k)
            for dl in (dirs[2 * k], dirs[2 * k + 1]):
              if dl is not None:
                if up[dl] and dl in live_cables() and touches_tree([(dl[0], dl[1]), (dl[2], dl[3])]):
                  removed_tree_link[0] = True
                up[dl] = False
                net.set_cable(dl[0], dl[1], False)
            for (d, p_) in ends:
              if p_ in ports[d]:
                ports[d].remove(p_)
              deleted_ports[d].add(p_)
              net.del_port(d, p_)
      elif o == "portflap":
        # the link state of a host port flaps: a burst of PortStatus MODIFY messages
        d = dpids[op["s"] % n]
        lp_ = G.link_ports(up)
        hostp = [p_ for p_ in ports[d] if (d, p_) not in lp_]
        if d in connected and hostp:
          st_["portflap"] = True
          k_ = op["k"] + (op["k"] & 1)             # end with the link up again
          for _ in range(k_):
            net.flap_port(d, hostp[-1])
            w.settle()
            track_live()
            w.advance(op["dt"] / 8.0)
      elif o == "silence":
        d = dpids[op["s"] % n]
        if d in connected and d not in silent:
          if any((dl[0] == d or dl[2] == d) and touches_tree([(dl[0], dl[1]), (dl[2], dl[3])]) for dl in live_cables()):
            removed_tree_link[0] = True
        silent.add(d)
        sync_dead()
      elif o == "unsilence":
        silent.discard(dpids[op["s"] % n])
        sync_dead()
      elif o == "adv":
        track_live()
        w.advance(op["dt"] / 8.0)
      elif o == "quiesce":
        track_live()
        w.advance(quiesce_dt)
        judge()
      else:
        raise HarnessError("bad op %r" % (op,))
      if o in ("cut", "restore", "cutboth", "restoreboth", "silence", "unsilence", "plug", "unplug"):
        w.settle()
        immediate(o, before_op)
      for (clause, k, t, msg, extra) in event_bad:
        out.fail(clause, "t=%.3f link %r %s: %s" % (t, k, "announced" if clause.startswith("link-added") else "withdrawn", msg), **extra)
      del event_bad[:]
      for (k, last, added, t) in order_bad:
        out.fail("link-event-order", "t=%.3f link %r announced %s after %s" % (
            t, k, "added" if added else "removed",
            "nothing" if last is None else ("added" if last else "removed")),
            shape=("removed-first" if last is None else ("added-twice" if added else "removed-twice")))
      del order_bad[:]
      if len(out.violations) > 6:
        break

    if net.overflow:
      raise HarnessError("data-plane delivery budget exceeded")
    all_links = [dl for dl in dirs if dl is not None]
    cyc, oneway, parallel = _graph_labels(out, all_links)
    out.nontrivial = bool(out.nontrivial or removed_tree_link[0]) and st_["quiesced"] > 0
    if removed_tree_link[0]:
      out.label("history:removes-tree-link")
    kinds = set(op["o"] for op in c["ops"])
    for k in ("disconnect", "flap", "cut", "cutboth", "silence", "restore", "restoreboth", "plug", "unplug", "portflap"):
      if k in kinds:
        out.label("history:" + k)
    # the following are labelled by what happened, not by what the history asked for
    if st_.get("reacted"):
      out.label("history:listener-dropped-a-switch")
      out.label("listener:%s-spanning-tree" % ("before" if c.get("react_first", True) else "after"))
    if st_.get("readded"):
      out.label("history:port-deleted-and-readded")
    if st_.get("dup"):
      out.label("history:overlapping-reconnect")
    if st_.get("stale_close"):
      out.label("history:stale-connection-closed-while-reconnected")
    for t_ in sorted(set(st_.get("send_failed", []))):
      out.label("history:send-failed:" + t_)
    out.label("switches:%d" % n)
    for k in ("no_flood", "hold_down"):
      if opts.get(k):
        out.label("opt:" + k)
    if not opts.get("install_flow", True):
      out.label("opt:no_flow")
    if opts.get("pad"):
      out.label("opt:padding-wires")
    if any(cb[0] == cb[2] for cb in cables):
      out.label("graph:self-loop")
    if lt:
      out.label("opt:link_timeout:%s" % ("short" if lt < 10 else "long"))
    if not opts.get("explicit_drop", True):
      out.label("opt:no_explicit_drop")
    if opts.get("eat_early_packets"):
      out.label("opt:eat_early_packets")
  finally:
    w.close()


_CASES = {"probe": case_probe, "static": case_static, "topo": case_topo}


def run_case(case):
  setup()
  out = Outcome()
  out.label("kind:" + case["k"])
  _CASES[case["k"]](case, out)
  return out


# --------------------------------------------------------------------------- enumerations

# per-pair states as lists of (fwd, rev) per cable slot
_PAIR16 = [[(a & 1, a >> 1 & 1), (b & 1, b >> 1 & 1)] for a in range(4) for b in range(4)]
_PAIR7 = [[], [(1, 0)], [(0, 1)], [(1, 1)], [(1, 0), (1, 1)], [(1, 1), (0, 1)], [(1, 1), (1, 1)]]
_PAIR5 = [[], [(1, 0)], [(1, 1)], [(1, 0), (1, 1)], [(1, 1), (1, 1)]]
_PAIR3 = [[], [(1, 1)], [(0, 1), (1, 1)]]


def _graphs(n, states):
  pairs = [(a, b) for a in range(n) for b in range(a + 1, n)]
  for combo in itertools.product(range(len(states)), repeat=len(pairs)):
    nxt = [1] * n
    cables = []
    for (a, b), si in zip(pairs, combo):
      for (f, r) in states[si]:
        if not (f or r):
          continue
        cables.append([a, nxt[a], b, nxt[b], int(f), int(r)])
        nxt[a] += 1
        nxt[b] += 1
    yield cables


_SELF = [[], [(1, 0)], [(1, 1)]]


def _graphs_selfloop(n, states, which=None):
  """As _graphs, plus on every switch (or only those in `which`) no / a one-way / a two-way cable between two of its own ports."""
  sw = list(range(n)) if which is None else list(which)
  for cables in _graphs(n, states):
    nxt = [1] * n
    for (a, ap, b, bp, f, r) in cables:
      nxt[a] = max(nxt[a], ap + 1)
      nxt[b] = max(nxt[b], bp + 1)
    for combo in itertools.product(range(len(_SELF)), repeat=len(sw)):
      if not any(combo):
        continue
      extra_, nx = [], list(nxt)
      for i, si in zip(sw, combo):
        for (f, r) in _SELF[si]:
          extra_.append([i, nx[i], i, nx[i] + 1, f, r])
          nx[i] += 2
      yield cables + extra_


def _links_of(cables, dpids):
  out = []
  for (a, ap, b, bp, f, r) in cables:
    if f:
      out.append([dpids[a], ap, dpids[b], bp])
    if r:
      out.append([dpids[b], bp, dpids[a], ap])
  return out


def enum_static(tier):
  plans = [(1, _PAIR16), (2, _PAIR16), (3, _PAIR16), (4, _PAIR5)]
  if tier == "thorough":
    plans += [(4, _PAIR7), (5, _PAIR3)]
  for n, states in plans:
    ids = list(range(1, n + 1))
    for cables in _graphs(n, states):
      yield {"k": "static", "links": _links_of(cables, ids)}
  for n, states in [(1, _PAIR3), (2, _PAIR5), (3, _PAIR5 if tier == "thorough" else _PAIR3)]:
    ids = list(range(1, n + 1))
    for cables in _graphs_selfloop(n, states):
      yield {"k": "static", "links": _links_of(cables, ids)}


def _converge_ops(n):
  return [{"o": "connect", "s": i} for i in range(n)] + [{"o": "quiesce"}]


def enum_topo(tier):
  plans = [(2, _PAIR16), (3, _PAIR7)] if tier == "quick" else [(2, _PAIR16), (3, _PAIR16), (4, _PAIR5)]
  for n, states in plans:
    for cables in _graphs(n, states):
      if not cables:
        continue
      # real wires pad short frames; without padding only on 2 switches (POX's own switch does not pad)
      for pad in ((True, False) if n == 2 else (True,)):
        yield {"k": "topo", "n": n, "cables": cables, "extra": 1, "opts": {"pad": pad}, "ops": _converge_ops(n)}
  for n, states, which in [(1, _PAIR3, None), (2, _PAIR5, None), (3, _PAIR3, [1])]:
    for cables in _graphs_selfloop(n, states, which):
      yield {"k": "topo", "n": n, "cables": cables, "extra": 1, "opts": {"pad": True}, "ops": _converge_ops(n)}


def enum_disconnect(tier):
  """Every graph on 3 switches (3 or 5 states per pair): converge, one switch disconnects, judge at once and after quiescence."""
  states = _PAIR3 if tier == "quick" else _PAIR5
  for cables in _graphs(3, states):
    if not cables:
      continue
    for s_ in range(3):
      yield {"k": "topo", "n": 3, "cables": cables, "extra": 1, "opts": {},
             "ops": _converge_ops(3) + [{"o": "disconnect", "s": s_}, {"o": "quiesce"}, {"o": "connect", "s": s_}, {"o": "quiesce"}]}


def enum_hotplug(tier):
  """Every graph on 3 switches (3 states per pair) plus one cable that is plugged in later into ports that did not exist
  at handshake time, between each pair of switches: converge, plug, quiesce, unplug, quiesce."""
  for cables in _graphs(3, _PAIR3):
    nxt = [1, 1, 1]
    for (a, ap, b, bp, f, r) in cables:
      nxt[a] = max(nxt[a], ap + 1)
      nxt[b] = max(nxt[b], bp + 1)
    for (a, b) in ((0, 1), (0, 2), (1, 2)):
      cs = cables + [[a, nxt[a], b, nxt[b], 1, 1]]
      yield {"k": "topo", "n": 3, "cables": cs, "hot": [len(cs) - 1], "extra": 1, "opts": {"pad": True},
             "ops": _converge_ops(3) + [{"o": "plug", "c": 0}, {"o": "quiesce"}, {"o": "unplug", "c": 0}, {"o": "quiesce"}]}


def enum_portflap(tier):
  """A host port whose link state flaps for longer than the link timeout, at several rates, on three fixed graphs."""
  tri = [[0, 1, 1, 1, 1, 1], [1, 2, 2, 1, 1, 1], [0, 2, 2, 2, 1, 1]]
  line = [[0, 1, 1, 1, 1, 1], [1, 2, 2, 1, 1, 1]]
  par = [[0, 1, 1, 1, 1, 1], [0, 2, 1, 2, 1, 1], [1, 3, 2, 1, 1, 0]]
  for cables in (tri, line, par):
    for (k, dt) in ((130, 1), (70, 2), (40, 4), (20, 8)):
      for s_ in range(3):
        yield {"k": "topo", "n": 3, "cables": cables, "extra": 1, "opts": {"pad": True},
               "ops": _converge_ops(3) + [{"o": "portflap", "s": s_, "k": k, "dt": dt}, {"o": "quiesce"}]}


def enum_options(tier):
  """discovery.launch() options on a few fixed graphs: converge, stay quiet, lose a switch, stay quiet."""
  tri = [[0, 1, 1, 1, 1, 1], [1, 2, 2, 1, 1, 1], [0, 2, 2, 2, 1, 1]]
  par = [[0, 1, 1, 1, 1, 1], [0, 2, 1, 2, 1, 1], [1, 3, 2, 1, 1, 0]]
  for cables in (tri, par):
    for lt in (None, 1, 2, 3, 4, 7, 20, 30):
      for xd in (True, False):
        for flow in (True, False):
          opts = {"explicit_drop": xd, "install_flow": flow, "eat_early_packets": not xd}
          if lt:
            opts["link_timeout"] = lt
          yield {"k": "topo", "n": 3, "cables": cables, "extra": 1, "opts": opts,
                 "ops": _converge_ops(3) + [{"o": "quiesce"}, {"o": "disconnect", "s": 2}, {"o": "quiesce"}, {"o": "quiesce"}]}


def enum_reentrant(tier):
  """An application's LinkEvent listener that drops a switch's control connection from inside the handler (re-entrant
  ConnectionDown while a batch of withdrawals is being announced).  Every graph on 3 switches x the batch is caused by a
  disconnect or by a switch falling silent (expiry sweep) x the listener drops the link's source / its destination / a fixed
  other switch x the listener runs before or after spanning_tree's; then everything reconnects."""
  states = _PAIR3 if tier == "quick" else _PAIR5
  for cables in _graphs(3, states):
    if not cables:
      continue
    for s_ in range(3):
      for trig in ("disconnect", "silence"):
        for rule in ({"on": "removed", "at": None, "drop": "src", "n": 3},
                     {"on": "removed", "at": None, "drop": "dst", "n": 3},
                     {"on": "removed", "at": s_, "drop": (s_ + 1) % 3, "n": 1}):
          for first in (True, False):
            yield {"k": "topo", "n": 3, "cables": cables, "extra": 1, "opts": {}, "react": [rule], "react_first": first,
                   "ops": _converge_ops(3) + [{"o": trig, "s": s_}, {"o": "quiesce"}, {"o": "unsilence", "s": s_}]
                   + _converge_ops(3)}


def enum_overlap(tier):
  """A datapath opens a new control channel before the controller has closed the previous one (once or twice), and the
  stale connection(s) are closed afterwards; every graph on 3 switches x each switch."""
  states = _PAIR3 if tier == "quick" else _PAIR5
  for cables in _graphs(3, states):
    if not cables:
      continue
    for s_ in range(3):
      d, c_, q = {"o": "dup", "s": s_}, {"o": "closeold", "s": s_}, {"o": "quiesce"}
      for tail in ([d, q, c_, q], [d, c_, q], [d, d, c_, q, c_, q], [d, {"o": "adv", "dt": 20}, c_, {"o": "adv", "dt": 41}, q]):
        yield {"k": "topo", "n": 3, "cables": cables, "extra": 1, "opts": {}, "ops": _converge_ops(3) + tail}


def enum_sendfail(tier):
  """A control connection breaks on a send (EPIPE on the k-th port_mod / packet_out / message of any type) while the topology
  changes elsewhere.  Switch 0 gets a port hot-plugged towards switch 3 (which is silent in half of the cases, so that no link
  forms there); switches 1..3 carry a base graph; each switch's connection in turn is the one that breaks; each single change
  of the base graph (one direction or both directions of a cable cut, another switch disconnecting) is the trigger."""
  bases = [[[1, 1, 2, 1, 1, 1], [1, 2, 2, 2, 1, 1]],
           [[1, 1, 2, 1, 1, 1], [1, 2, 2, 2, 1, 1], [2, 3, 3, 1, 1, 1]]]
  if tier == "thorough":
    bases.append([[1, 1, 2, 1, 1, 1], [2, 2, 3, 1, 1, 1], [1, 2, 3, 2, 1, 1]])
  for base in bases:
    p3 = 1 + max([bp for (a, ap, b, bp, f, r) in base if b == 3] + [0])
    cables = base + [[0, 1, 3, p3, 1, 1]]
    hot = [len(cables) - 1]
    trig = [{"o": "cut", "c": i} for i in range(2 * len(base))] + [{"o": "cutboth", "c": i} for i in range(len(base))]
    trig += [{"o": "disconnect", "s": i} for i in (1, 2)]
    for silent3 in (True, False):
      for x in range(4):
        for (t, k) in (("port_mod", 1), ("port_mod", 2), ("packet_out", 1), ("any", 1)):
          for tr in trig:
            if tr["o"] == "disconnect" and tr["s"] == x:
              continue
            yield {"k": "topo", "n": 4, "cables": cables, "hot": hot, "extra": 1, "opts": {},
                   "ops": _converge_ops(4) + ([{"o": "silence", "s": 3}] if silent3 else [])
                   + [{"o": "plug", "c": 0}, {"o": "sendfail", "s": x, "t": t, "k": k}, tr, {"o": "quiesce"},
                      {"o": "connect", "s": x}, {"o": "quiesce"}]}


_B64 = [0, 1, 2, 0xff, 0x100, 0xffff, 0x10000, 0xffffffff, 0x100000000, (1 << 48) - 1, 1 << 48, (1 << 48) + 1,
        (1 << 63) - 1, 1 << 63, (1 << 64) - 2, (1 << 64) - 1, 0x0123456789abcdef, 0xa, 0xabcdef, 0xdead00000000beef]
_B16 = [1, 2, 9, 10, 99, 100, 255, 256, 999, 1000, 0x3030, 0x3031, 0x7fff, 0x8000, 9999, 10000, 0xfefe, 0xfeff]


def enum_probe(tier):
  for i, d1 in enumerate(_B64):
    d2 = _B64[(i + 7) % len(_B64)]
    for j, p1 in enumerate(_B16):
      yield {"k": "probe", "d1": d1, "p1": p1, "d2": d2, "p2": _B16[(j + 5) % len(_B16)], "style": "pox"}
  for style in ("nox", "port2", "mac", "fv"):
    for i, d1 in enumerate(_B64):
      if style == "mac" and d1 >= (1 << 48):
        continue
      d2 = _B64[(i + 3) % len(_B64)]
      for p1 in (1, 10, 256, 0x8000, 0xfeff):
        if style == "port2" and all(0x30 <= b <= 0x39 for b in struct.pack("!H", p1)):
          continue
        yield {"k": "probe", "d1": d1, "p1": p1, "d2": d2, "p2": 3, "style": style}


# --------------------------------------------------------------------------- Hypothesis

def _u64():
  return st.one_of(st.sampled_from(_B64), st.integers(0, (1 << 64) - 1), st.integers(0, (1 << 48) - 1))


def _port():
  return st.one_of(st.sampled_from(_B16), st.integers(1, 0xfeff))


@st.composite
def _probe(draw):
  d1 = draw(_u64())
  d2 = draw(_u64().filter(lambda x: x != d1))
  style = draw(st.sampled_from(["pox", "pox", "pox", "nox", "port2", "mac", "fv"]))
  p1 = draw(_port())
  if style == "mac":
    d1 &= (1 << 48) - 1
    if d1 == d2:
      d2 = d1 + 1
  if style == "port2" and all(0x30 <= b <= 0x39 for b in struct.pack("!H", p1)):
    p1 = 0x0100 + (p1 & 0xff)
    if all(0x30 <= b <= 0x39 for b in struct.pack("!H", p1)):
      p1 = 0x0101
  return {"k": "probe", "d1": d1, "p1": p1, "d2": d2, "p2": draw(_port()), "style": style}


@st.composite
def _random_graph(draw, nmax):
  n = draw(st.integers(2, nmax))
  pairs = [(a, b) for a in range(n) for b in range(a + 1, n)]
  nxt = [1] * n
  cables = []
  # a random connected-ish skeleton plus extras
  density = draw(st.sampled_from([0.3, 0.5, 0.8]))
  for (a, b) in pairs:
    k = draw(st.integers(0, 99))
    if k >= density * 100:
      continue
    for (f, r) in draw(st.sampled_from(_PAIR7[1:] + [[(1, 1)]] * 4)):
      cables.append([a, nxt[a], b, nxt[b], int(f), int(r)])
      nxt[a] += 1
      nxt[b] += 1
  # now and then a cable between two ports of one switch
  for a in range(n):
    if draw(st.integers(0, 11)) == 0:
      f, r = draw(st.sampled_from([(1, 1), (1, 1), (1, 0)]))
      cables.append([a, nxt[a], a, nxt[a] + 1, f, r])
      nxt[a] += 2
  return n, cables


@st.composite
def _static(draw, nmax):
  n, cables = draw(_random_graph(nmax))
  ids = draw(st.permutations(list(range(1, n + 1))))
  return {"k": "static", "links": _links_of(cables, ids)}


@st.composite
def _topo(draw, nmax, maxops):
  n, cables = draw(_random_graph(nmax))
  sw = st.integers(0, n - 1)
  cab = st.integers(0, 63)
  op = st.one_of(
      st.fixed_dictionaries({"o": st.just("disconnect"), "s": sw}),
      st.fixed_dictionaries({"o": st.just("connect"), "s": sw}),
      st.fixed_dictionaries({"o": st.just("flap"), "s": sw, "dt": st.sampled_from([0, 1, 8, 40, 88, 160])}),
      st.fixed_dictionaries({"o": st.just("cut"), "c": cab}),
      st.fixed_dictionaries({"o": st.just("cutboth"), "c": cab}),
      st.fixed_dictionaries({"o": st.just("cutboth"), "c": cab}),
      st.fixed_dictionaries({"o": st.just("restore"), "c": cab}),
      st.fixed_dictionaries({"o": st.just("restoreboth"), "c": cab}),
      st.fixed_dictionaries({"o": st.just("silence"), "s": sw}),
      st.fixed_dictionaries({"o": st.just("unsilence"), "s": sw}),
      st.fixed_dictionaries({"o": st.just("plug"), "c": cab}),
      st.fixed_dictionaries({"o": st.just("plug"), "c": cab}),
      st.fixed_dictionaries({"o": st.just("unplug"), "c": cab}),
      st.fixed_dictionaries({"o": st.just("portflap"), "s": sw, "k": st.sampled_from([3, 10, 40, 100, 130]),
                             "dt": st.sampled_from([0, 1, 1, 2, 4])}),
      st.fixed_dictionaries({"o": st.just("adv"), "dt": st.sampled_from([1, 8, 20, 40, 41, 80, 100, 120])}),
      st.fixed_dictionaries({"o": st.just("dup"), "s": sw}),
      st.fixed_dictionaries({"o": st.just("closeold"), "s": sw}),
      st.fixed_dictionaries({"o": st.just("sendfail"), "s": sw, "t": st.sampled_from(["port_mod", "port_mod", "packet_out", "any"]),
                             "k": st.sampled_from([1, 1, 2, 3])}),
      st.just({"o": "quiesce"}),
      st.just({"o": "quiesce"}),
  )
  order = draw(st.permutations(list(range(n))))
  ops = [{"o": "connect", "s": i} for i in order]
  if draw(st.booleans()):
    ops.insert(draw(st.integers(0, len(ops))), {"o": "adv", "dt": draw(st.sampled_from([8, 24, 40]))})
  ops.append({"o": "quiesce"})
  ops += draw(st.lists(op, min_size=1, max_size=maxops))
  ops.append({"o": "quiesce"})
  opts = {}
  k = draw(st.integers(0, 9))
  # no_flood is only drawn together with hold_down (the combination spanning_tree.py says makes sense): alone,
  # a switch without links is never looked at again by design and keeps every port disabled
  if k == 0:
    opts["hold_down"] = True
  elif k in (1, 2):
    opts["no_flood"] = True
    opts["hold_down"] = True
  elif k == 3:
    opts["install_flow"] = False
  # discovery.launch() options
  k2 = draw(st.integers(0, 9))
  if k2 in (0, 1, 2):
    opts["link_timeout"] = draw(st.sampled_from([2, 3, 4, 7]))
  elif k2 == 3:
    opts["link_timeout"] = draw(st.sampled_from([20, 30]))
  if draw(st.integers(0, 7)) == 0:
    opts["explicit_drop"] = False
  if draw(st.integers(0, 7)) == 0:
    opts["eat_early_packets"] = True
  if draw(st.integers(0, 9)) < 7:
    opts["pad"] = True
  hot = []
  if cables and draw(st.booleans()):
    hot = draw(st.lists(st.integers(0, len(cables) - 1), min_size=1, max_size=2, unique=True))
  case = {"k": "topo", "n": n, "cables": cables, "hot": hot, "extra": draw(st.integers(1, 2)), "opts": opts, "ops": ops}
  # in a third of the histories an application listens to LinkEvents and drops control connections from inside its handler
  if draw(st.integers(0, 2)) == 0:
    rule = st.fixed_dictionaries({"on": st.sampled_from(["removed", "removed", "added", "any"]),
                                  "at": st.one_of(st.none(), sw),
                                  "drop": st.one_of(st.sampled_from(["src", "dst"]), sw),
                                  "n": st.integers(1, 3)})
    case["react"] = draw(st.lists(rule, min_size=1, max_size=2))
    case["react_first"] = draw(st.booleans())
  return case


def plan(tier):
  if tier == "quick":
    return [Enum("static-graphs", lambda: enum_static("quick"), shards=16),
            Enum("probe-boundaries", lambda: enum_probe("quick"), shards=8),
            Enum("converge-small-graphs", lambda: enum_topo("quick"), shards=16),
            Enum("disconnect-each-switch", lambda: enum_disconnect("quick"), shards=16),
            Enum("launch-options", lambda: enum_options("quick"), shards=16),
            Enum("hot-plugged-cable", lambda: enum_hotplug("quick"), shards=16),
            Enum("flapping-host-port", lambda: enum_portflap("quick"), shards=16),
            Enum("listener-drops-a-switch", lambda: enum_reentrant("quick"), shards=16),
            Enum("overlapping-reconnect", lambda: enum_overlap("quick"), shards=16),
            Enum("send-failure", lambda: enum_sendfail("quick"), shards=16),
            Hyp("probe-random", _probe, examples=400, shards=4),
            Hyp("static-random", lambda: _static(8), examples=2000, shards=4),
            Hyp("histories", lambda: _topo(5, 8), examples=900, shards=16)]
  return [Enum("static-graphs", lambda: enum_static("thorough"), shards=16),
          Enum("probe-boundaries", lambda: enum_probe("thorough"), shards=8),
          Enum("converge-small-graphs", lambda: enum_topo("thorough"), shards=16),
          Enum("disconnect-each-switch", lambda: enum_disconnect("thorough"), shards=16),
          Enum("launch-options", lambda: enum_options("thorough"), shards=16),
          Enum("hot-plugged-cable", lambda: enum_hotplug("thorough"), shards=16),
          Enum("flapping-host-port", lambda: enum_portflap("thorough"), shards=16),
          Enum("listener-drops-a-switch", lambda: enum_reentrant("thorough"), shards=16),
          Enum("overlapping-reconnect", lambda: enum_overlap("thorough"), shards=16),
          Enum("send-failure", lambda: enum_sendfail("thorough"), shards=16),
          Hyp("probe-random", _probe, examples=6000, shards=8),
          Hyp("static-random", lambda: _static(12), examples=40000, shards=8),
          Hyp("histories", lambda: _topo(12, 20), examples=12000, shards=16)]
