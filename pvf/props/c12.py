"""C12 -- the software datapath applies actions and port rules as OpenFlow 1.0 prescribes.

One SoftwareSwitch on a fake IOWorker (pvf.sim.world.SwitchEnd, no controller).  A case is a small
script: port-mods, link-down marks, a fragment-handling mode (OFPT_SET_CONFIG; it may be changed again between deliveries), then 1..3 deliveries of a frame with an
action list, either by OFPT_PACKET_OUT, or by installing a flow and injecting the frame on a port, or
with an empty table (table miss).  Between deliveries further port-mods, link changes and "the next
transmit fails once" (a DpPacketOut listener of the harness raising) may occur; every delivery is judged
against the port state of its own moment, and the delivery in which a transmit failed is not judged.
A "buffer_out" step is a packet-out that names a buffer announced by an earlier, judged packet-in (output to
CONTROLLER or a table miss): its list must be applied to the frame exactly as that packet-in showed it.  All OpenFlow messages are encoded here with `struct` from
openflow.h 1.0 and replies are decoded the same way; POX's own codec is only on the receiving side.

Besides well-formed frames, "irregular" ones are delivered: frames whose packet is not a well-formed one of the protocol its
EtherType / IP protocol names (header lengths that contradict each other or the octets present, wrong versions, cut-off
headers, wrong checksums, length fields that lie, TLVs running over the end), built constructively by pvf.ref.frames12m with one
named irregularity each.  A datapath forwards frames, it does not police them: link-layer rewrites and outputs mean for
them what they mean for any frame, and every octet behind the link-layer headers has to come out as it went in.

Oracle: pvf.ref.of10_actions.apply() on the raw bytes (independent of pox.lib.packet), compared with
the (port, bytes) of every DpPacketOut, the packet-in messages and the port statistics reply.
"""
import struct

from hypothesis import strategies as st

from ..runner import Outcome, Enum, Hyp, HarnessError, exc_key
from ..ref import frames as F
from ..ref import frames12 as F12
from ..ref import frames12m as F12M
from ..ref import of10_actions as R

ID = "C12"
LEVEL = "exploration"
TECHNIQUE = ("model-based property testing: exhaustive 2^6 x 2^6 port-config grid plus Hypothesis-drawn (frame, action list, "
             "port state, delivery mode) scripts, judged byte-for-byte against an independent OpenFlow 1.0 action model on raw bytes")
LEVEL_TEXT = ("Exploration by generated-input search over frames x action lists x port configurations, with the complete "
              "2^6 x 2^6 config-bit product on one ingress/egress pair enumerated exhaustively for a fixed action list in each "
              "delivery mode. Every case runs the real switch and a byte-level reference model in lock-step; the input space "
              "(all frames x all lists up to length 6) is far too large to exhaust, so dense structured sampling is the level "
              "that fits; absence of violations outside the sampled space is not claimed.")
LEVEL_NOTE = ("trusts the reference model's reading of OpenFlow 1.0.0 section 3.3 / Table 5 and RFC 1071/791/793/768; zones the "
              "specification leaves open are counted (label ambiguous:*), judged only for 'no exception' and for the port guards")
RULE = ("a case is a script of port-mods, link-down marks and 1..3 deliveries (packet-out / installed flow / table miss) of a built "
        "frame with an action list of length 0..6; it is non-trivial when some delivery (a) has a rewrite before its first emitting "
        "output and another rewrite between that and its last emitting output, or (b) pushes a VLAN tag on an untagged frame before "
        "an emitting output, or (c) addresses (directly, by IN_PORT, or by FLOOD/ALL) a port that may not transmit (PORT_DOWN, link "
        "down, NO_FWD, NO_FLOOD under FLOOD), or (d) arrives on a port that is receive-disabled for it or is dropped at a down ingress port, or (e) misses the "
        "table on a NO_PACKET_IN port, or (f) emits after a field-modify action that is not applicable to the frame (nw/tp rewrite on "
        "ARP, on a 0x9100/0x88a8 frame that only resembles tagged IPv4, tp rewrite on ICMP ...), or (g) has a transmit failure fire in a "
        "delivery that is followed by a judged one, or (h) releases a buffer by packet-out, or (i) must emit a datagram whose transport checksum "
        "computes to zero (UDP 0xffff, TCP 0x0000), or (j) emits, or shows to the controller, an irregular frame (one whose packet is not a well-formed packet "
        "of the protocol its EtherType / IP protocol names; label irregular:<layer>:<what>); or (k) has an IPv4 fragment arrive on a port (not by packet-out) while OFPC_FRAG_DROP is configured (labels fragment-dropped:<kind> / fragment-dropped:<encapsulation>); "
        "distinct by SHA-1 of the canonical JSON of the case")
ASSUMPTIONS = [
  "regular frames carry valid checksums and consistent lengths (the generator builds them with ref/frames.py and ref/frames12.py; the validator re-checks every such input frame); "
  "a link-layer trailer behind an IPv4/IPv6/ARP packet (padding to 60 octets, or a few octets) is part of the frame: it must come out again and no length or checksum covers it",
  "IPv6 (no extension headers; UDP, TCP, ICMPv6 echo) is an 'other' EtherType to OpenFlow 1.0: VLAN and dl rewrites apply, nw/tp rewrites are not applicable",
  "output to the ingress port's own number is dropped; OFPP_IN_PORT is needed to send back (OpenFlow 1.0.0 section 3.3)",
  "ambiguous zones, judged only for 'no exception' and port guards: OFPP_TABLE from a flow entry and anything after an OFPP_TABLE output, OFPP_NORMAL/OFPP_LOCAL, "
  "nw/tp rewrites on IPv4 behind two tags or in SNAP, nw_src/nw_dst/tp rewrites on first fragments of TCP/UDP, enqueue to virtual ports",
  "0x8100 is the only VLAN TPID of OpenFlow 1.0: a frame of EtherType 0x9100 / 0x88a8 / 0x9200 / ... is untagged and not IPv4 whatever its payload looks like (set_vlan_* push a 0x8100 tag in front, strip_vlan is a no-op)",
  "a field-modify action that 1.0 defines 'only for IPv4 / TCP / UDP packets' and meets another frame (ARP, other EtherTypes, ICMP or a later fragment for tp rewrites) may touch no byte: "
  "either the list goes on with the frame unchanged or the datapath stops executing the list at that action; both are accepted, anything else is a violation (label inapplicable:*)",
  "set_nw_tos may either replace the 6 DSCP bits (keeping the packet's 2 low bits) or the whole octet; a UDP checksum of 0 (none) must stay 0 when the datagram is merely forwarded; when an nw/tp rewrite touches what it would cover it may stay 0 or be filled in",
  "a frame arriving on a port that is administratively down or link-down may be processed or dropped; frames dropped by NO_RECV/NO_RECV_STP may or may not be counted in rx_packets/rx_bytes; "
  "rx counters may or may not count OFPP_TABLE lookups; tx counters must equal exactly what was emitted",
  "OFPPC_NO_PACKET_IN must suppress table-miss packet-ins; whether it suppresses packet-ins of an explicit output to OFPP_CONTROLLER is left open (all or none accepted)",
  "link-down / link-up is set by the harness on the switch's ofp_phy_port.state (POX has no other way; it derives link state from PORT_DOWN only) and re-asserted after every port-mod; "
  "ports are not added or deleted (OpenFlow 1.0 has no message for it)",
  "a transmit that fails (the harness's DpPacketOut listener raising once) may abort the delivery it happens in - that delivery and the counters it moved are not judged - "
  "but must leave the switch behaving, for every later delivery, as one that never had the failure",
  "OFPC_FRAG_DROP (set by OFPT_SET_CONFIG, at the start or between deliveries; the mode of the moment decides) makes the datapath drop every IPv4 fragment (MF set or a non-zero offset) that ARRIVES on a port, "
  "whatever link-layer encapsulation OpenFlow 1.0 looks through carries it (Ethernet II, one 802.1Q tag of any pcp / cfi / vid, LLC/SNAP with OUI 0): nothing is emitted, no packet-in, no tx counter moves; whether it is counted as received is left open; "
  "whole datagrams, and fragments under OFPC_FRAG_NORMAL, are forwarded like any frame; OFPC_FRAG_REASM is not offered by this datapath (no OFPC_IP_REASM capability) and is judged as NORMAL; "
  "a packet-out is not an arrival (its explicit outputs are executed); its OFPP_TABLE lookup of a fragment under DROP is an open zone",
  "TCP option VALUES are payload to a datapath: a window-scale shift above 14, an MSS of 0, a SACK block running backwards are carried as they are (RFC 7323's 'use 14' is a rule for the receiving end host)",
  "a buffer id announced by a packet-in names the frame that packet-in showed (its data is a prefix of it, total_len its length), whatever the rest of the action list did afterwards; "
  "a packet-out releasing it carries the in_port the packet-in reported; only buffers of judged deliveries are released",
  "'other' frames are 802.3/LLC, SNAP (OUI 0 + IPv4/ARP PID with a well-formed packet of that kind, or a PID nothing dissects, or another OUI with opaque bytes), well-formed LLDP and EAPOL-Start/Logoff, RARP, "
  "and EtherTypes / IP protocols the packet library does not dissect; IPv6 extension headers, IGMP, GRE and MPLS are left to C14/C15",
  "irregular frames (about one step in eight of the generated scripts, and the 'irregular-frames' driver) carry, behind regular Ethernet II / 802.1Q headers, a packet with exactly ONE named irregularity, "
  "constructed by ref/frames12m.py and confirmed by its independent judge: IPv4 cut off before 20 octets, version not 4, IHL below 5, IHL beyond the octets present, IHL beyond the total length, total length below 20, "
  "total length beyond the octets present (datagram cut short), wrong header checksum; TCP cut off, data offset below 5 or beyond the segment, option lengths 0 / 1 / running over the header, wrong checksum; "
  "UDP cut off, length field below 8 / beyond / short of the segment, wrong checksum; ICMP cut off before 4 octets, wrong checksum; ARP cut off, with address lengths other than 6 / 4, for other hardware / protocol types; "
  "IPv6 cut off, version not 6, payload length beyond the octets present, UDP / TCP cut off or with a wrong checksum inside it, octets behind a No-Next-Header (legal, nothing to dissect); LLDP cut off, a TLV running over the end, no End TLV, "
  "mandatory TLVs missing or out of order; EAPOL cut off, body length beyond the octets present (Key / ASF-Alert).  They are real inputs: damaged, truncated or hostile frames reach every switch port",
  "for an irregular frame outputs, VLAN set / strip and dl rewrites mean what they always mean and every octet behind the link-layer headers must come out as it went in (to ports, in packet-ins, in the byte counters); "
  "an nw/tp rewrite on a packet whose IPv4 header can still be read but which is irregular elsewhere is an open zone (which lengths it trusts, which checksums it repairs) - judged for 'no exception' and the port guards from that action on; "
  "on a packet whose IPv4 header cannot be read it is open as before (ipv4-malformed / ipv4-truncated), on ARP / IPv6 / LLDP / EAPOL it may touch nothing",
  "where only a DERIVED field lies (a checksum, the UDP length, the IP length of a datagram cut short) the frame must still come out as it went in - no action touched it; a datapath that re-serialises emits it with that field 'made valid' "
  "instead. That outcome is computed too (ref/of10_actions.make_derived_valid), only to name it apart from any other damage: it is reported under its own key (family checksum-lie / length-lie, field = the lying field; "
  "open known findings of the re-serialisation family), anything else under the key of what differs (shorter / longer / the first differing field)",
]
EXHAUSTIVE_SCOPE = {
  "quick": "all 64 x 64 combinations of {PORT_DOWN, NO_RECV, NO_RECV_STP, NO_FLOOD, NO_FWD, NO_PACKET_IN} on ingress port 1 and egress port 2 of a 3-port switch (set by port-mod), "
           "x {flow, packet-out} delivery x {ordinary, STP-destination} frame with the fixed list [set_dl_src, output:2, set_vlan_vid, FLOOD, set_nw_tos, IN_PORT, ALL, CONTROLLER]; plus the 64 ingress configs x 2 frames for a table miss; "
           "and each of the 10 field-modify actions alone before an output x 13 frames it must leave alone or that only resemble tagged IPv4 (EtherTypes 0x9100/0x88a8/0x9200/0x9300/0x8101/0x0801 before a tag-like word + IPv4/TCP, ARP, ICMP, later fragment, LLC) x {flow, packet-out} x 2 output tails; "
           "and 8 first deliveries x 44 changes in between (each of the 6 config bits set / cleared by port-mod on port 1, 2 or 3, link down / up on each, one failing transmit, nothing) x 8 second deliveries "
           "(flow FLOOD / ALL / FLOOD of an STP frame / [set_dl_dst, 2, IN_PORT, CONTROLLER], packet-out FLOOD / ALL / TABLE, table miss); "
           "and 23 TCP option layouts (every option kind as the last option ending exactly at the data offset, NOP and EOL padding variants, option values outside what an end host accepts: window-scale shift 15 / 255, MSS 0 / 65535, timestamps of all ones, a SACK block running backwards) x payload {none, even, odd} x {untagged, tagged} x {no rewrite, set_nw_src/dst/tos, set_tp_src/dst} x {flow, packet-out}; "
           "and [CONTROLLER, one of the 10 field-modify actions, output:2] on 4 frames x {flow, packet-out} x max_len {0, 0xffff} followed by a packet-out releasing the announced buffer with 3 lists, plus table-miss buffers; "
           "and UDP and TCP datagrams whose checksum computes to zero as they arrive or after one of set_nw_src / set_nw_dst / set_tp_src / set_tp_dst, the free word being the first payload word, the source or the destination port, "
           "x even / odd payload x {untagged, tagged} x {flow, packet-out}, and over IPv6 for plain output; "
           "and IPv4 UDP/TCP/ICMP, IPv6 UDP/TCP and ARP frames x {untagged, tagged} x {padded to 60 octets, 3-octet non-zero trailer} x {no rewrite, 6 rewrites} x {flow, packet-out} plus table miss; "
           "and each of the 36 kinds of irregular packet (see ASSUMPTIONS) x 3 parameter sets x {untagged, tagged} x {as built, padded to 60 octets, 3-octet non-zero trailer - where the irregularity admits a trailer} "
           "x {plain output, set_vlan_vid, strip_vlan, set_dl_src} x {flow, packet-out}, each with output:2 and output:CONTROLLER, plus table miss; "
           "and fragment handling {NORMAL, DROP, REASM} x {whole datagram, first / middle / last fragment} of UDP / TCP / ICMP x {Ethernet II, three kinds of 802.1Q tag (ordinary, priority, CFI set), LLC/SNAP, tagged LLC/SNAP} "
           "x {flow [2, CONTROLLER], flow [set_dl_src, FLOOD], table miss, packet-out}, plus the mode switched DROP / NORMAL / DROP between deliveries of each fragment",
  "thorough": "as quick, additionally with a tagged TCP frame and the list [strip_vlan, ALL, set_tp_dst, output:2, set_nw_dst, FLOOD, enqueue:2, CONTROLLER]",
}

BITS = [("PORT_DOWN", R.OFPPC_PORT_DOWN), ("NO_RECV", R.OFPPC_NO_RECV), ("NO_RECV_STP", R.OFPPC_NO_RECV_STP),
        ("NO_FLOOD", R.OFPPC_NO_FLOOD), ("NO_FWD", R.OFPPC_NO_FWD), ("NO_PACKET_IN", R.OFPPC_NO_PACKET_IN)]
KNOWN_BITS = 0
for _n, _b in BITS:
  KNOWN_BITS |= _b
REWRITES = ("set_vlan_vid", "set_vlan_pcp", "strip_vlan", "set_dl_src", "set_dl_dst", "set_nw_src", "set_nw_dst",
            "set_nw_tos", "set_tp_src", "set_tp_dst")
SHORT = {"output": "out", "enqueue": "enq", "set_vlan_vid": "vid", "set_vlan_pcp": "pcp", "strip_vlan": "strip",
         "set_dl_src": "dls", "set_dl_dst": "dld", "set_nw_src": "nws", "set_nw_dst": "nwd", "set_nw_tos": "tos",
         "set_tp_src": "tps", "set_tp_dst": "tpd"}

_SPECIAL_UDP = [53, 67, 68, 520, 4789, 5353]      # ports behind which pox.lib.packet dissects an application protocol
# EtherTypes used elsewhere as stacked-VLAN TPIDs.  OpenFlow 1.0 knows 0x8100 only: to every action these are opaque frames.
_NOT_VLAN_TPIDS = (0x9100, 0x88a8, 0x9200, 0x9300)

_W = None


def setup():
  global _W
  if _W is None:
    from ..sim import world
    world.boot()
    _W = world


# --------------------------------------------------------------------------- openflow.h 1.0 on the wire

OFPT_ERROR, OFPT_SET_CONFIG, OFPT_PACKET_IN, OFPT_PORT_STATUS = 1, 9, 10, 12
OFPT_PACKET_OUT, OFPT_FLOW_MOD, OFPT_PORT_MOD, OFPT_STATS_REQUEST, OFPT_STATS_REPLY = 13, 14, 15, 16, 17
NO_BUFFER = 0xffffffff
OFPFW_ALL = (1 << 22) - 1
OFPFW_IN_PORT = 1
OFPR_NO_MATCH, OFPR_ACTION = 0, 1


def enc_action(a):
  k = a["a"]
  code = R.ACTION_CODE[k]
  if k == "output":
    return struct.pack("!HHHH", code, 8, a["port"], a.get("max_len", 0xffff))
  if k == "enqueue":
    return struct.pack("!HHH6xL", code, 16, a["port"], a.get("queue", 0))
  if k == "set_vlan_vid":
    return struct.pack("!HHH2x", code, 8, a["v"])
  if k == "set_vlan_pcp":
    return struct.pack("!HHB3x", code, 8, a["v"])
  if k == "strip_vlan":
    return struct.pack("!HH4x", code, 8)
  if k in ("set_dl_src", "set_dl_dst"):
    return struct.pack("!HH6s6x", code, 16, bytes(a["v"]))
  if k in ("set_nw_src", "set_nw_dst"):
    return struct.pack("!HHL", code, 8, a["v"])
  if k == "set_nw_tos":
    return struct.pack("!HHB3x", code, 8, a["v"])
  if k in ("set_tp_src", "set_tp_dst"):
    return struct.pack("!HHH2x", code, 8, a["v"])
  raise HarnessError("unknown action %r" % (a,))


def _hdr(t, length, xid):
  return struct.pack("!BBHL", 1, t, length, xid)


def enc_packet_out(frame, in_port, actions, xid, buffer_id=None):
  acts = b"".join(enc_action(a) for a in actions)
  if buffer_id is not None:
    frame = b""                        # the switch holds the frame
  return (_hdr(OFPT_PACKET_OUT, 16 + len(acts) + len(frame), xid)
          + struct.pack("!LHH", NO_BUFFER if buffer_id is None else buffer_id, in_port, len(acts)) + acts + frame)


def enc_flow_mod(command, wildcards, in_port, actions, xid, priority=0x8000):
  match = struct.pack("!LH6s6sHBxHBB2xLLHH", wildcards, in_port, bytes(6), bytes(6), 0, 0, 0, 0, 0, 0, 0, 0, 0)
  acts = b"".join(enc_action(a) for a in actions)
  body = match + struct.pack("!QHHHHLHH", 0, command, 0, 0, priority, NO_BUFFER, R.OFPP_NONE, 0)
  return _hdr(OFPT_FLOW_MOD, 8 + len(body) + len(acts), xid) + body + acts


def enc_port_mod(port, hw, config, mask, xid):
  return _hdr(OFPT_PORT_MOD, 32, xid) + struct.pack("!H6sLLL4x", port, hw, config, mask, 0)


def enc_set_config(flags, miss_send_len, xid):
  return _hdr(OFPT_SET_CONFIG, 12, xid) + struct.pack("!HH", flags, miss_send_len)


def enc_port_stats_request(port, xid):
  return _hdr(OFPT_STATS_REQUEST, 20, xid) + struct.pack("!HHH6x", 4, 0, port)


def split_messages(data):
  out = []
  off = 0
  while off < len(data):
    if len(data) - off < 8:
      raise HarnessError("switch sent a truncated OpenFlow header")
    ver, t, ln, xid = struct.unpack_from("!BBHL", data, off)
    if ver != 1 or ln < 8 or off + ln > len(data):
      raise HarnessError("switch sent an unframeable OpenFlow message (version %d type %d length %d)" % (ver, t, ln))
    out.append((t, xid, data[off + 8:off + ln]))
    off += ln
  return out


def dec_packet_in(body):
  if len(body) < 10:
    return None
  buffer_id, total_len, in_port, reason = struct.unpack_from("!LHHB", body, 0)
  return {"buffer_id": buffer_id, "total_len": total_len, "in_port": in_port, "reason": reason, "data": body[10:]}


def dec_port_stats(body):
  """-> {port_no: (rx_packets, tx_packets, rx_bytes, tx_bytes)} or None if malformed."""
  if len(body) < 4:
    return None
  t, flags = struct.unpack_from("!HH", body, 0)
  if t != 4:
    return None
  rest = body[4:]
  if len(rest) % 104:
    return None
  out = {}
  for off in range(0, len(rest), 104):
    port = struct.unpack_from("!H", rest, off)[0]
    rxp, txp, rxb, txb = struct.unpack_from("!QQQQ", rest, off + 8)
    out[port] = (rxp, txp, rxb, txb)
  return out


# --------------------------------------------------------------------------- classification of inputs

def frame_class(frame):
  """(class, number of 802.1Q tags, dissection).  The class names the kind of frame and, where a kind is known to
  hit a distinct code path of the packet library, that too (it is part of the root-cause key of byte mismatches)."""
  d = F.dissect(frame)
  tags = len(d.get("vlan", ()))
  et = d.get("ethertype")
  if "llc" in d and et not in (F.ETH_IP, F.ETH_ARP):
    k = "snap" if "snap" in d else "llc"
  elif et == F.ETH_ARP:
    k = "arp"
  elif et == F.ETH_IP and "ipv4" in d:
    ip = d["ipv4"]
    k = {1: "icmp", 6: "tcp", 17: "udp"}.get(ip["proto"], "ip-other")
    if ip["frag"] != 0:
      k = "later-fragment"
    elif ip["mf"]:
      k = "first-fragment"
    elif k == "icmp" and "icmp" in d and d["icmp"]["type"] in (3, 11):
      k = "icmp-error"
    elif k == "tcp" and "tcp" in d and d["tcp"]["options"]:
      names = set(F12.tcp_option_name(kind) for off, kind, ln in F12.tcp_option_kinds(bytes(d["tcp"]["options"])))
      for n in ("sack", "unknown", "eol"):
        if n in names:
          k = "tcp+" + n
          break
    elif k == "udp" and "udp" in d and (d["udp"]["sport"] in _SPECIAL_UDP or d["udp"]["dport"] in _SPECIAL_UDP):
      k = "udp-app-port"
    elif k == "udp" and "udp" in d and d["udp"]["checksum"] == 0:
      k = "udp-csum0"
  elif et == F12.ETH_IPV6 and F12.dissect6(frame) is not None:
    k = "ipv6-" + {6: "tcp", 17: "udp", 58: "icmp"}.get(F12.dissect6(frame)["next"], "other")
  elif et in _NOT_VLAN_TPIDS:
    k = "other-tpid"
  elif et == 0x88cc:
    k = "lldp"
  elif et == 0x888e:
    k = "eapol"
  else:
    k = "other"
  return k, tags, d


def _bits_name(config):
  return "+".join(n for n, b in BITS if config & b) or "none"


# --------------------------------------------------------------------------- the executor

class _InjectedFault(Exception):
  """Raised by the harness's own DpPacketOut listener: a transmit that fails once."""


class _Sw(object):
  """The switch under test plus the bookkeeping of what it did."""

  def __init__(self, nports):
    setup()
    self.world = _W.World()
    self.end = self.world.add_switch(1, ports=nports)
    self.swallowed = []
    conn = self.end.conn
    orig = conn._error_handler

    def spy(reason, info, _orig=orig, _conn=conn):
      if reason == _conn.ERR_EXCEPTION:
        self.swallowed.append(info[0])
      else:
        self.swallowed.append(HarnessError("the switch's connection rejected a message of the harness (reason %r, info %r)" % (reason, info)))
      return _orig(reason, info)
    conn._error_handler = spy
    self.xid = 100
    self.fault_armed = False
    self.fault_fired = False
    # the "wire" of the simulated switch: runs before SwitchEnd's recorder, so a failed transmit is not recorded
    self.end.sw.addListenerByName("DpPacketOut", self._wire, priority=1000)

  def _wire(self, ev):
    if self.fault_armed:
      self.fault_armed = False
      self.fault_fired = True
      raise _InjectedFault("transmit failed on port %s" % (ev.port.port_no,))

  def send(self, data):
    self.end.rx_bytes(data)
    if self.swallowed:
      e = self.swallowed[0]
      self.swallowed = []
      raise e

  def nx(self):
    self.xid += 1
    return self.xid

  def close(self):
    self.world.close()


def _refusable(actions, port_state, packet_out):
  """The list names an output port the switch may legitimately refuse (OFPBAC_BAD_OUT_PORT)."""
  ok_virtual = {R.OFPP_IN_PORT, R.OFPP_FLOOD, R.OFPP_ALL, R.OFPP_CONTROLLER}
  if packet_out:
    ok_virtual.add(R.OFPP_TABLE)
  for a in actions:
    if a["a"] == "output":
      if (a["port"] < R.OFPP_MAX and a["port"] not in port_state) or (a["port"] >= R.OFPP_MAX and a["port"] not in ok_virtual):
        return True
    elif a["a"] == "enqueue":
      if a["port"] not in port_state and a["port"] != R.OFPP_IN_PORT:
        return True
  return False


def _explicit_targets(lists, in_port):
  """Which ports may legitimately carry a frame given the outputs present anywhere in the lists."""
  has_in_port = has_all = has_flood = False
  phys = set()
  for l in lists:
    for a in l:
      if a["a"] in ("output", "enqueue"):
        p = a["port"]
        if p == R.OFPP_IN_PORT:
          has_in_port = True
        elif p == R.OFPP_ALL:
          has_all = True
        elif p == R.OFPP_FLOOD:
          has_flood = True
        elif p < R.OFPP_MAX:
          phys.add(p)
  return has_in_port, has_all, has_flood, phys


def _structural(out, emitted, lists, in_port, port_state):
  """Port guards that hold whatever the action list means.  True if one is broken."""
  has_in_port, has_all, has_flood, phys = _explicit_targets(lists, in_port)
  broken = False
  for p, b in emitted:
    if p not in port_state:
      _vkey(out, "emit-on-missing-port", "frame emitted on port %d which does not exist" % p)
      broken = True
      continue
    c, s = port_state[p]
    if c & R.OFPPC_NO_FWD:
      _vkey(out, "emit-on-blocked-port", "frame emitted on port %d which has NO_FWD" % p, why="NO_FWD")
      broken = True
    elif c & R.OFPPC_PORT_DOWN:
      _vkey(out, "emit-on-blocked-port", "frame emitted on port %d which has PORT_DOWN" % p, why="PORT_DOWN")
      broken = True
    elif s & R.OFPPS_LINK_DOWN:
      _vkey(out, "emit-on-blocked-port", "frame emitted on port %d whose link is down" % p, why="LINK_DOWN")
      broken = True
    if p == in_port and not has_in_port:
      _vkey(out, "emit-on-ingress", "frame emitted on the ingress port %d without an OFPP_IN_PORT output (lists: %s)" % (
          p, [[SHORT[a["a"]] + (":%x" % a["port"] if "port" in a else "") for a in l] for l in lists]),
            via="flood" if has_flood and not has_all else ("all" if has_all else "physical"))
      broken = True
    if (c & R.OFPPC_NO_FLOOD) and not has_all and p not in phys and not (p == in_port and has_in_port):
      _vkey(out, "flood-on-noflood-port", "frame emitted on port %d which has NO_FLOOD, and no output names it" % p)
      broken = True
  return broken


def _emitting(a, in_port, port_state):
  if a["a"] not in ("output", "enqueue"):
    return False
  x = R.expand_output(a["port"], in_port, port_state)
  return (x[0] in ("ports", "flood") and bool(x[1])) or x[0] == "ctl"


def _classify(out, res, lists, actions, in_port, port_state, ntags, mode, no_pktin):
  """Class labels of one delivery; returns True when it meets the non-trivial rule."""
  nontrivial = False
  emit_idx = [i for i, a in enumerate(actions) if _emitting(a, in_port, port_state)]
  if emit_idx:
    first, last = emit_idx[0], emit_idx[-1]
    if any(a["a"] in REWRITES for a in actions[:first]) and any(a["a"] in REWRITES for a in actions[first + 1:last]):
      nontrivial = True
      out.label("rewrite-output-rewrite-output")
    tags = ntags
    for a in actions[:last]:
      if a["a"] in ("set_vlan_vid", "set_vlan_pcp") and tags == 0:
        tags = 1
        nontrivial = True
        out.label("vlan-push-on-untagged")
      elif a["a"] == "strip_vlan" and tags > 0:
        tags -= 1
    out.label("emits")
  for l in lists:
    for a in l:
      if a["a"] not in ("output", "enqueue"):
        continue
      p = a["port"]
      if p < R.OFPP_MAX:
        targets = [p] if p != in_port else []
        if p not in port_state:
          out.label("output-to-missing-port")
        elif p == in_port:
          out.label("output-to-ingress-number")
      else:
        out.label("vport:%x" % p)
        if p == R.OFPP_IN_PORT:
          targets = [in_port]
        elif p in (R.OFPP_FLOOD, R.OFPP_ALL):
          targets = [q for q in port_state if q != in_port]
        else:
          targets = []
      for q in targets:
        if q not in port_state:
          continue
        c, s = port_state[q]
        if not R.may_transmit(port_state, q):
          nontrivial = True
          out.label("blocked:" + ("NO_FWD" if c & R.OFPPC_NO_FWD else "PORT_DOWN" if c & R.OFPPC_PORT_DOWN else "LINK_DOWN"))
        elif p == R.OFPP_FLOOD and (c & R.OFPPC_NO_FLOOD):
          nontrivial = True
          out.label("blocked:NO_FLOOD")
  if any(e[0] == "ctl" for e in res.events):
    out.label("controller-output")
    if no_pktin:
      out.label("controller-output-with-NO_PACKET_IN")
  if mode == "miss":
    out.label("table-miss")
    if no_pktin:
      nontrivial = True
      out.label("miss-with-NO_PACKET_IN")
  return nontrivial


def _vkey(out, clause, msg, **kw):
  k = {"clause": clause}
  k.update(kw)
  for v in out.violations:
    if v["key"] == k:
      return
  out.fail(clause, msg, **kw)


def _exc(out, e, clause, **extra):
  from ..runner import exc_is_from_harness
  if isinstance(e, HarnessError):
    raise e
  if exc_is_from_harness(e):
    raise HarnessError("harness exception: %r" % (e,)) from e
  import traceback
  k = exc_key(e, clause=clause, **extra)
  if isinstance(e, RecursionError):
    k["where"] = "recursion"          # the innermost frame is wherever the limit happened to be hit
  for v in out.violations:
    if v["key"] == k:
      return
  out.violations.append({"key": k, "msg": "%r\n%s" % (e, "".join(traceback.format_exception(e))[-1500:])})


def _variants(frame, lists):
  has_tos = any(a["a"] == "set_nw_tos" for l in lists for a in l)
  d = F.dissect(frame)
  udp0 = "udp" in d and d["udp"]["checksum"] == 0
  vs = []
  for uz in (("keep", "fill") if udp0 else ("keep",)):
    for tos in (("dscp", "byte") if has_tos else ("dscp",)):
      vs.append({"udp_zero": uz, "tos": tos})
  return vs


def _check_pktin(pi, frame, in_port, reason, want_len):
  """None if the packet-in carries `frame`, else (field, message)."""
  if pi["reason"] != reason:
    return "reason", "packet-in reason %d, expected %d" % (pi["reason"], reason)
  if pi["in_port"] != in_port:
    return "in_port", "packet-in in_port %d, expected %d" % (pi["in_port"], in_port)
  data = pi["data"]
  if frame[:len(data)] != data or len(data) > len(frame):
    return "data", "packet-in data is not a prefix of the frame as modified so far\n expected %s\n actual   %s" % (frame.hex(), data.hex())
  if pi["buffer_id"] == NO_BUFFER and len(data) != len(frame):
    return "unbuffered-truncated", "unbuffered packet-in carries %d of %d bytes" % (len(data), len(frame))
  if len(data) < min(want_len, len(frame)):
    return "too-short", "packet-in carries %d bytes, at least %d required" % (len(data), min(want_len, len(frame)))
  if pi["total_len"] != len(frame):
    return "total_len", "packet-in total_len %d but the frame has %d bytes (data %d bytes)" % (pi["total_len"], len(frame), len(data))
  return None


def _match(events, emitted, pktins, in_port, ctl_optional, miss_send_len, complete):
  """Compare one reference event list with what happened.  -> None or (clause, discriminators, message[, distance])."""
  i = 0
  ctl_expected = []
  for e in events:
    if e[0] == "out":
      if i >= len(emitted):
        return "emit-ports", {"kind": "missing"}, "expected a frame on port %d, nothing more was emitted" % e[1]
      p, b = emitted[i]
      if p != e[1]:
        return "emit-ports", {"kind": "wrong-port"}, "expected a frame on port %d, got one on port %d" % (e[1], p)
      if b != e[2]:
        return "frame-bytes", {"field": F12.first_difference(e[2], b), "_delta": len(b) - len(e[2])}, \
               "frame on port %d differs\n expected %s\n actual   %s" % (p, e[2].hex(), b.hex()), F12.byte_distance(e[2], b)
      i += 1
    elif e[0] == "flood":
      k = len(e[1])
      chunk = emitted[i:i + k]
      if sorted(p for p, _ in chunk) != sorted(p for p, _ in e[1]):
        return "emit-ports", {"kind": "flood-set"}, "flood/all expected on ports %s, got the next frames on %s" % (
            sorted(p for p, _ in e[1]), [p for p, _ in emitted[i:i + k + 1]])
      for (p, b) in chunk:
        if b != e[1][0][1]:
          return "frame-bytes", {"field": F12.first_difference(e[1][0][1], b), "_delta": len(b) - len(e[1][0][1])}, \
                 "flooded frame on port %d differs\n expected %s\n actual   %s" % (p, e[1][0][1].hex(), b.hex()), F12.byte_distance(e[1][0][1], b)
      i += k
    elif e[0] == "ctl":
      ctl_expected.append((e[1], OFPR_ACTION, e[2], True))
    elif e[0] == "miss":
      ctl_expected.append((e[1], OFPR_NO_MATCH, miss_send_len, False))
  if complete and i != len(emitted):
    return "emit-ports", {"kind": "extra"}, "unexpected extra frame on port %d: %s" % (emitted[i][0], emitted[i][1].hex())
  # packet-ins
  if ctl_optional:
    must = [c for c in ctl_expected if not c[3]]
    may = [c for c in ctl_expected if c[3]]
    if len(pktins) == len(must) and may:
      ctl_expected = must
  if complete and len(pktins) != len(ctl_expected) or len(pktins) < len(ctl_expected):
    return "packet-in-count", {"expected": min(len(ctl_expected), 2), "actual": min(len(pktins), 2)}, \
           "expected %d packet-in(s), the switch sent %d" % (len(ctl_expected), len(pktins))
  for (frame, reason, want, _), pi in zip(ctl_expected, pktins):
    r = _check_pktin(pi, frame, in_port, reason, want)
    if r is not None:
      if r[0] == "data":
        n = len(pi["data"])
        return "frame-bytes", {"field": F12.first_difference(frame[:n], pi["data"]),
                               "_delta": (pi["total_len"] - len(frame)) if pi["buffer_id"] != NO_BUFFER else (n - len(frame))}, \
               r[1], F12.byte_distance(frame[:n], pi["data"])
      return "packet-in", {"field": r[0], "_delta": (pi["total_len"] - len(frame)) if r[0] == "total_len" else 0}, r[1]
  return None


def run_case(case):
  out = Outcome()
  nports = case["nports"]
  sw = _Sw(nports)
  nt = [False]
  try:
    _run(case, sw, out, nt)
  finally:
    sw.close()
  out.nontrivial = nt[0]
  if case.get("seq"):
    out.labels = ["seq"] + sorted(set("seq:" + l for l in out.labels
                                      if l.startswith(("blocked:", "ingress-", "fault-", "portmod-between", "link-", "table-lookup", "miss-with"))))
  if case.get("grid"):
    # keep the evidence readable: the grid is one fixed scenario, only its port-rule classes are of interest
    out.labels = ["grid"] + sorted(set("grid:" + l for l in out.labels
                                       if l.startswith(("blocked:", "ingress-", "miss-with", "controller-output-with", "mode:"))))
  return out


def _run(case, sw, out, nt):
  nports = case["nports"]
  end = sw.end
  ports = end.sw.ports
  cfg = {p: 0 for p in range(1, nports + 1)}             # the six judged config bits per port
  link_down = set()                                      # ports whose link the harness has taken down
  if sorted(ports) != sorted(cfg):
    raise HarnessError("switch has ports %r" % (sorted(ports),))
  end.take_sent()

  def port_state_now():
    return {p: (c, R.OFPPS_LINK_DOWN if (p in link_down or c & R.OFPPC_PORT_DOWN) else 0) for p, c in cfg.items()}

  def apply_portmod(pm):
    """Send one ofp_port_mod, follow it in the model, check the resulting config words.  False on a violation."""
    p = pm["port"]
    hw = ports[p].hw_addr.toRaw() if p in ports else bytes(6)
    if not pm.get("hw", True):
      hw = bytes([hw[0] ^ 0x10]) + hw[1:]
    try:
      sw.send(enc_port_mod(p, hw, pm["config"], pm["mask"], sw.nx()))
    except HarnessError:
      raise
    except Exception as e:
      _exc(out, e, "exception")
      return False
    if p in cfg and pm.get("hw", True):
      cfg[p] = R.port_config_after(cfg[p], [(pm["config"] & KNOWN_BITS, pm["mask"] & KNOWN_BITS)])
      out.label("portmod")
    else:
      out.label("portmod-rejected")
    for q in sorted(cfg):
      got = ports[q].config & KNOWN_BITS
      if got != cfg[q]:
        _vkey(out, "port-mod", "port %d config is %s after the port-mod, expected %s" % (q, _bits_name(got), _bits_name(cfg[q])),
              bit=_bits_name(got ^ cfg[q]))
        return False
    for q in link_down:
      ports[q].state |= R.OFPPS_LINK_DOWN      # the cable stays unplugged whatever the port-mod did to the state word
    end.take_sent()
    return True

  def apply_link(p, down):
    """The physical link of port p goes down / comes back (POX has no message for it: the state word is set here)."""
    if p not in cfg:
      return
    if down:
      link_down.add(p)
      ports[p].state |= R.OFPPS_LINK_DOWN
      out.label("link-down")
    else:
      link_down.discard(p)
      if not (cfg[p] & R.OFPPC_PORT_DOWN):
        ports[p].state &= ~R.OFPPS_LINK_DOWN
      out.label("link-up")

  # ---- configuration
  for pm in case.get("portmods", ()):
    if not apply_portmod(pm):
      return
  for p in case.get("link_down", ()):
    apply_link(p, True)
  frag_mode = case.get("frag", 0)
  miss_send_len = 128
  if frag_mode:
    try:
      sw.send(enc_set_config(frag_mode, miss_send_len, sw.nx()))
    except Exception as e:
      _exc(out, e, "exception")
      return
    out.label("frag-mode-%d" % frag_mode)
  end.take_sent()
  port_state = port_state_now()

  rx_lo = {p: [0, 0] for p in cfg}
  rx_hi = {p: [0, 0] for p in cfg}
  tx = {p: [0, 0] for p in cfg}
  flow = None
  # buffer_id -> (frame the packet-in showed, its in_port, origin), from judged deliveries only; origin is "action"
  # (output:CONTROLLER), "miss" (a frame that arrived on a port) or "table-miss" (miss of a packet-out's OFPP_TABLE lookup)
  buffers = {}

  for si, step in enumerate(case["steps"]):
    mode = step["mode"]
    # ---- steps that are not deliveries
    if mode == "portmod":
      if not apply_portmod(step):
        return
      out.label("portmod-between-deliveries")
      continue
    if mode == "link":
      apply_link(step["port"], step["down"])
      continue
    if mode == "fault":
      sw.fault_armed = True                 # the next emission, whenever it comes, fails once
      out.label("fault-armed")
      continue
    if mode == "set_config":
      try:
        sw.send(enc_set_config(step["frag"], miss_send_len, sw.nx()))
      except HarnessError:
        raise
      except Exception as e:
        _exc(out, e, "exception")
        return
      frag_mode = step["frag"]
      out.label("set-config-between-deliveries", "frag-mode-%d" % frag_mode)
      end.take_sent()
      continue
    port_state = port_state_now()
    buffer_id = None
    if mode == "buffer_out":
      # packet-out naming a buffer an earlier packet-in announced: the switch must apply the list to the frame
      # exactly as it was shown to the controller
      if not buffers:
        out.label("buffer_out-without-buffer")
        continue
      ids = sorted(buffers)
      buffer_id = ids[step.get("which", 0) % len(ids)]
      candidates, in_port, buffer_origin, _si = buffers.pop(buffer_id)
      frame = candidates[0]
      out.label("mode:buffer_out")
      nt[0] = True
      mode = "packet_out"
    else:
      frame = step["frame"]
      in_port = step["in_port"]
      candidates = [frame]
    is_packet_out = mode == "packet_out"
    actions = step.get("actions") or []
    # An irregular frame: what follows the link-layer headers is not a well-formed packet of the kind its EtherType / IP
    # protocol names.  The generator says so (a released buffer holds whatever the earlier delivery put there) and the
    # independent judge in ref/frames12m.py must agree and names the irregularity.
    irregular = None
    if step.get("irregular") or buffer_id is not None:
      irr = F12M.problems(frame)
      if irr:
        irregular = irr[0]
      elif step.get("irregular"):
        raise HarnessError("generator announced an irregular frame, the judge finds it regular: %s" % frame.hex())
    if irregular is None:
      problems = F12.validate(frame)
      if problems:
        raise HarnessError("generator produced an invalid input frame: %r %s" % (problems, frame.hex()))
    fclass, ntags, dis = frame_class(frame)
    if irregular is not None:
      fclass = "irregular-" + irregular.split(":")[0]
      out.label("irregular:" + irregular, "irregular-family:" + F12M.family(irregular))
    is_frag = fclass.endswith("-fragment")
    kd = {"frame": fclass}            # what byte-level damage is keyed by: the kind of frame ...
    d6 = F12.dissect6(frame)
    if irregular is not None:
      # ... for an irregular frame: the family of the irregularity and the layer it sits in
      kd = {"family": F12M.family(irregular), "inner": irregular.split(":")[0]}
      if F12M.trailer_len(frame):
        kd["trailer"] = "ip"
        out.label("trailer")
    elif ("ipv4" in dis and dis.get("ethertype") == F.ETH_IP and dis["ipv4"]["off"] + dis["ipv4"]["total_len"] < len(frame)) or (d6 and d6["trailer"]):
      kd["trailer"] = "ip"            # ... and whether link-layer padding follows the IP datagram
      out.label("trailer")
    if buffer_id is None:
      out.label("mode:" + mode)
    out.label("frame:" + fclass, "tags:%d" % ntags)
    if frame[:6] == R.STP_MAC:
      out.label("stp-dst")
    if "snap" in dis and dis.get("ethertype") in (F.ETH_IP, F.ETH_ARP):
      out.label("encap:snap-" + ("ipv4" if dis["ethertype"] == F.ETH_IP else "arp"))
    if "tcp" in dis and dis["tcp"]["options"]:
      out.label("tcp-options")
      _ob = bytes(dis["tcp"]["options"])
      if any(kind == 3 and ln == 3 and _ob[off + 2] > 14 for off, kind, ln in F12.tcp_option_kinds(_ob)):
        out.label("tcp-option-value:ws-shift>14")
    if "ipv4" in dis and dis["ipv4"]["options"]:
      out.label("ip-options")
    if "ipv4" in dis and (dis["ipv4"]["total_len"] - dis["ipv4"]["hlen"]) % 2:
      out.label("odd-l4-length")
    if "vlan" in dis and dis["vlan"][0]["cfi"]:
      out.label("vlan-cfi")
    out.label("len:%d" % len(actions))
    for a, b in zip(actions, actions[1:]):
      out.label("adj:%s>%s" % (SHORT[a["a"]], SHORT[b["a"]]))

    end.take_emitted()
    end.take_sent()
    # ---- drive the switch
    try:
      if mode == "packet_out":
        sw.send(enc_packet_out(frame, in_port, actions, sw.nx(), buffer_id=buffer_id))
      else:
        sw.send(enc_flow_mod(3, OFPFW_ALL, 0, [], sw.nx()))            # OFPFC_DELETE everything
        flow = None
        if mode == "flow":
          wc = OFPFW_ALL if step.get("match", "all") == "all" else (OFPFW_ALL & ~OFPFW_IN_PORT)
          end.take_sent()
          sw.send(enc_flow_mod(0, wc, in_port, actions, sw.nx()))      # OFPFC_ADD
          if any(t == OFPT_ERROR for t, xid, body in split_messages(end.take_sent())):
            # a switch may refuse a flow-mod whose outputs it cannot honour (OFPBAC_BAD_OUT_PORT); nothing is installed then
            if not _refusable(actions, port_state, False):
              _vkey(out, "flow-mod-refused", "the switch answered a flow-mod with valid actions %s with an error" % (
                  [SHORT[a["a"]] + (":%x" % a["port"] if "port" in a else "") for a in actions],))
              return
            out.label("flow-mod-refused")
            mode = "miss"
            actions = []
          else:
            flow = {"match": step.get("match", "all"), "in_port": in_port, "actions": actions}
        end.take_sent()
        end.rx_frame(frame, in_port)
    except HarnessError:
      raise
    except _InjectedFault:
      pass
    except Exception as e:
      _exc(out, e, "exception")
      return
    if sw.fault_fired:
      # A transmit failed in the middle of this delivery: what it did is not judged.  From here on the switch
      # must behave as one that never had the failure; the counters are taken as they stand now.
      sw.fault_fired = False
      out.label("fault-fired")
      nt[0] = True
      end.take_emitted()
      if not _check_stats(out, sw, port_state, tx, rx_lo, rx_hi, "-", rebase=True):
        return
      continue
    emitted = end.take_emitted()
    msgs = split_messages(end.take_sent())
    pktins = []
    refused = False
    for t, xid, body in msgs:
      if t == OFPT_PACKET_IN:
        pi = dec_packet_in(body)
        if pi is None:
          _vkey(out, "packet-in", "packet-in shorter than its fixed part", field="short")
          return
        pktins.append(pi)
      elif t == OFPT_ERROR:
        out.label("error-reply")
        if is_packet_out and not emitted and _refusable(actions, port_state, True):
          refused = True                   # a packet-out with an output it cannot honour may be refused as a whole

    if refused and not pktins:
      out.label("packet-out-refused")
      continue

    # ---- what should have happened
    lists = [actions]
    if mode == "packet_out" and flow is not None:
      lists.append(flow["actions"])
    ingress_exists = in_port in port_state
    icfg = port_state[in_port][0] if ingress_exists else 0
    ingress_down = ingress_exists and bool((icfg & R.OFPPC_PORT_DOWN) or (port_state[in_port][1] & R.OFPPS_LINK_DOWN))
    no_pktin = bool(icfg & R.OFPPC_NO_PACKET_IN)

    for p, b in emitted:
      if p in tx:
        tx[p][0] += 1
        tx[p][1] += len(b)
    if _structural(out, emitted, lists, in_port, port_state):
      return

    table_lookup = None
    if mode != "packet_out":
      if not ingress_exists or not R.accepts(port_state, in_port, frame):
        if ingress_exists:
          nt[0] = True
          out.label("ingress-recv-disabled")
          rx_hi[in_port][0] += 1
          rx_hi[in_port][1] += len(frame)
        else:
          out.label("ingress-missing")
        if emitted or pktins:
          _vkey(out, "accepted-from-recv-disabled-port",
                "frame with dst %s arriving on port %d (%s) was processed: %d frame(s) emitted, %d packet-in(s)" % (
                    F.mac_str(frame[:6]), in_port, _bits_name(icfg) if ingress_exists else "no such port", len(emitted), len(pktins)),
                stp=frame[:6] == R.STP_MAC)
          return
        if not _check_stats(out, sw, port_state, tx, rx_lo, rx_hi, kd):
          return
        continue
      rx_hi[in_port][0] += 1
      rx_hi[in_port][1] += len(frame)
      if is_frag:
        out.label("fragment-arrives:frag-mode-%d" % frag_mode)
      if frag_mode == 1 and is_frag:
        encap = ("snap" if "snap" in dis else "eth2") + "+%dtag" % ntags
        out.label("fragment-dropped", "fragment-dropped:" + fclass, "fragment-dropped:" + encap)
        nt[0] = True
        if emitted or pktins:
          _vkey(out, "fragment-not-dropped", "OFPC_FRAG_DROP is set but a %s (%s) arriving on port %d was processed: %d frame(s) emitted, %d packet-in(s)\n frame %s" % (
              fclass, encap, in_port, len(emitted), len(pktins), frame.hex()), encap=encap)
          return
        if not _check_stats(out, sw, port_state, tx, rx_lo, rx_hi, kd):
          return
        continue
      if ingress_down and not emitted and not pktins:
        out.label("ingress-down-no-effect")
        nt[0] = True
        if not _check_stats(out, sw, port_state, tx, rx_lo, rx_hi, kd):
          return
        continue
      if ingress_down:
        out.label("ingress-down-processed")
      rx_lo[in_port][0] += 1
      rx_lo[in_port][1] += len(frame)
    else:
      def table_lookup(f, ip, _flow=flow):
        if _flow is None:
          return None
        if _flow["match"] == "in_port" and _flow["in_port"] != ip:
          return None
        return _flow["actions"]

    failures = []
    res0 = None
    matches = []
    # every admitted reading (and, for a released buffer, every frame the packet-in was consistent with) is tried
    readings = [(c, v) for c in candidates for v in _variants(c, lists)]
    if irregular in F12M.LYING_FIELD:
      # only a derived field (a checksum, a length) is wrong: besides the frame as it is, the frame with that field made
      # valid is computed -- not as an admitted outcome, but to name that outcome (re-serialisation) apart from any other
      readings = [(c, dict(v, derived=dv)) for dv in ("keep", "valid") for c, v in readings]
    normalised = []
    for cand, v in readings:
      f0 = cand
      derived = v.pop("derived", "keep")
      if mode == "miss":
        res = R.Result()
        res.events.append(("miss", f0))
        res.final = f0
      else:
        res = R.apply(f0, actions, in_port, port_state, from_flow=(mode == "flow"), table=table_lookup, irregular=irregular, **v)
      if derived == "valid":
        mk = R.make_derived_valid
        res.events = [("flood", [(p_, mk(f_)) for p_, f_ in e[1]]) if e[0] == "flood" else
                      (("out", e[1], mk(e[2])) if e[0] == "out" else (e[0], mk(e[1])) + tuple(e[2:])) for e in res.events]
      if res0 is None:
        res0 = res
      if res.table_lookups and ((icfg & (R.OFPPC_NO_RECV | R.OFPPC_NO_RECV_STP)) or ingress_down or (frag_mode == 1 and is_frag)):
        # POX (like the 1.0 reference switch) runs the lookup through its receive path; whether the
        # ingress port's receive restrictions apply to a packet-out is not specified
        res.ambiguous = "OFPP_TABLE lookup with a receive-restricted ingress port"
        res.events = res.events[:res.first_lookup_event]
      if no_pktin:
        res.events = [e for e in res.events if e[0] != "miss"]
      for e in res.physical():
        bad = F12.validate(e[1]) if irregular is None else []
        if bad:
          raise HarnessError("reference model produced an invalid frame %r: %s" % (bad, e[1].hex()))
      # An action that OpenFlow 1.0 defines only for IPv4 / TCP / UDP met another kind of frame: it may touch nothing.
      # Either the list went on with the frame unchanged, or the datapath stopped executing it right there.
      n = len(res.events)
      cuts = [n] + sorted(set(k for k, why in res.inapplicable if k < n), reverse=True)
      m = None
      matched = None
      for k in cuts:
        mk = _match(res.events[:k], emitted, pktins, in_port, ctl_optional=no_pktin, miss_send_len=miss_send_len,
                    complete=(res.ambiguous is None) if k == n else True)
        if mk is None:
          matched = res.events[:k]
          break
        if m is None:
          m = mk
      if matched is not None and derived == "valid":
        if any(e[0] in ("out", "flood", "ctl", "miss") and (e[1] if e[0] != "out" else True) for e in matched):
          normalised.append(matched)      # (a reading under which nothing is shown to anybody proves nothing)
      elif matched is not None:
        matches.append(matched)
      elif derived == "keep":
        failures.append(m)
    if matches:
      failures = []
      # remember which frame each announced buffer holds: the one its packet-in showed.  Where two readings both fit
      # what was observed (a truncated packet-in does not tell them apart) both frames stay candidates.
      for matched in matches:
        shown = [(e[1], "action" if e[0] == "ctl" else ("miss" if mode == "miss" else "table-miss"))
                 for e in matched if e[0] in ("ctl", "miss")]
        if len(pktins) >= len(shown):
          for (fr, origin), pi in zip(shown, pktins):
            if pi["buffer_id"] != NO_BUFFER:
              old = buffers.get(pi["buffer_id"])
              frames_ = old[0] if old is not None and old[3] == si else []
              if fr not in frames_:
                frames_ = frames_ + [fr]
              buffers[pi["buffer_id"]] = (frames_, in_port, origin, si)
    res = res0
    if res.table_lookups:
      out.label("table-lookup")
    n_table = sum(1 for l in lists for a in l if a["a"] == "output" and a["port"] == R.OFPP_TABLE)
    if n_table and ingress_exists:
      # a datapath may run OFPP_TABLE lookups through its receive path and count them as received
      nested = any(a["a"] == "output" and a["port"] == R.OFPP_TABLE for l in lists[1:] for a in l) or mode == "flow"
      k = 10 ** 6 if nested else n_table
      rx_hi[in_port][0] += k
      rx_hi[in_port][1] += k * 65535
    if res.ambiguous is not None:
      out.label("ambiguous:" + res.ambiguous.split(" on ")[0].split(" 0x")[0])
    for port_, fr_ in res.physical()[:4]:
      dd = F.dissect(fr_)
      d6_ = F12.dissect6(fr_)
      l4 = None
      if "udp" in dd and dd["ipv4"]["frag"] == 0 and not dd["ipv4"]["mf"]:
        l4 = ("udp", dd["udp"]["checksum"])
      elif "tcp" in dd and dd["ipv4"]["frag"] == 0 and not dd["ipv4"]["mf"]:
        l4 = ("tcp", dd["tcp"]["checksum"])
      elif d6_ and d6_["next"] in (6, 17) and d6_["payload_len"] >= 20:
        o_ = d6_["l4_off"] + (6 if d6_["next"] == 17 else 16)
        l4 = ("udp" if d6_["next"] == 17 else "tcp", int.from_bytes(fr_[o_:o_ + 2], "big"))
      if l4 and ((l4[0] == "udp" and l4[1] == 0xffff) or (l4[0] == "tcp" and l4[1] == 0)):
        out.label("checksum-boundary:" + l4[0])
        nt[0] = True
    for k, why in res.inapplicable:
      out.label("inapplicable:" + why.split(" on ")[0])
      if k < len(res.events):
        nt[0] = True                      # something is emitted after an action that had to leave the frame alone
    if _classify(out, res, lists, actions, in_port, port_state, ntags, mode, no_pktin):
      nt[0] = True
    if irregular is not None and res.events:
      nt[0] = True                        # an irregular frame has to leave (or be shown to the controller) as it is
      out.label("irregular-emitted")
      if any(a["a"] in REWRITES for a in actions):
        out.label("irregular-rewritten")

    if failures:
      # several readings were tried: report against the one the switch came closest to
      failures.sort(key=lambda m: (m[0] != "frame-bytes", m[3] if len(m) > 3 else 0))
      clause, disc, msg = failures[0][:3]
      disc = dict(disc)
      delta = disc.pop("_delta", 0)
      if irregular is not None and clause in ("frame-bytes", "packet-in"):
        if normalised and clause == "frame-bytes":
          # exactly the frame a re-serialising datapath emits: the field that was wrong has been made valid
          disc["field"] = F12M.LYING_FIELD[irregular]
          msg = "no action touches the packet, yet it left with %s made valid (re-serialised)\n%s" % (disc["field"], msg)
        elif delta:
          disc["field"] = "shorter" if delta < 0 else "longer"
      if clause in ("frame-bytes", "packet-in"):
        disc.update(kd)                 # byte-level damage is a matter of the frame kind; port decisions are not
        if buffer_id is not None:
          disc["buffer"] = buffer_origin  # ... or of what the switch kept in the buffer this packet-out released
      _vkey(out, clause, "step %d (%s, in_port %s, frame %s, actions %s):\n%s" % (
          si, mode, in_port, fclass, [SHORT[a["a"]] for a in actions], msg), **disc)
      return
    if not _check_stats(out, sw, port_state, tx, rx_lo, rx_hi, kd):
      return

  if out.violations:
    return
  sp = case.get("stats_port")
  if sp is not None and sp in port_state:
    _check_stats(out, sw, port_state, tx, rx_lo, rx_hi, "-", single=sp)
  if any(v[0] for v in tx.values()) or any(v[0] for v in rx_lo.values()):
    out.label("stats-nonzero")


def _check_stats(out, sw, port_state, tx, rx_lo, rx_hi, fclass, single=None, rebase=False):
  """Ask for port statistics (all ports, or one) and compare with what was really emitted / accepted.
  rebase=True: do not compare, adopt the reported counters as the new baseline."""
  end = sw.end
  end.take_sent()
  try:
    sw.send(enc_port_stats_request(R.OFPP_NONE if single is None else single, sw.nx()))
  except HarnessError:
    raise
  except Exception as e:
    _exc(out, e, "exception")
    return False
  replies = [dec_port_stats(body) for t, xid, body in split_messages(end.take_sent()) if t == OFPT_STATS_REPLY]
  if len(replies) != 1 or replies[0] is None:
    _vkey(out, "port-stats", "expected one well-formed port stats reply, got %r" % (replies,), field="reply")
    return False
  want = sorted(port_state) if single is None else [single]
  if sorted(replies[0]) != want:
    _vkey(out, "port-stats", "stats reply lists ports %r, expected %r" % (sorted(replies[0]), want), field="ports")
    return False
  ok = True
  for p in want:
    rxp, txp, rxb, txb = replies[0][p]
    if rebase:
      tx[p][:] = [txp, txb]
      rx_lo[p][:] = [rxp, rxb]
      rx_hi[p][:] = [rxp, rxb]
      continue
    bad = None
    if txp != tx[p][0]:
      bad = ("tx_packets", "port %d (%s): tx_packets %d but %d frame(s) were emitted" % (p, _bits_name(port_state[p][0]), txp, tx[p][0]))
    elif txb != tx[p][1]:
      bad = ("tx_bytes", "port %d: tx_bytes %d but %d byte(s) were emitted" % (p, txb, tx[p][1]))
    elif not (rx_lo[p][0] <= rxp <= rx_hi[p][0]):
      bad = ("rx_packets", "port %d (%s): rx_packets %d, expected %d..%d" % (p, _bits_name(port_state[p][0]), rxp, rx_lo[p][0], rx_hi[p][0]))
    elif not (rx_lo[p][1] <= rxb <= rx_hi[p][1]):
      bad = ("rx_bytes", "port %d: rx_bytes %d, expected %d..%d" % (p, rxb, rx_lo[p][1], rx_hi[p][1]))
    if bad:
      if bad[0].endswith("_bytes") and isinstance(fclass, dict) and "family" in fclass:
        # an irregular frame counted with another length than it has: the same damage as a frame emitted shorter / longer
        less = (rxb < rx_lo[p][1]) if bad[0] == "rx_bytes" else (txb < tx[p][1])
        _vkey(out, "port-stats", bad[1], field="shorter" if less else "longer", counter=bad[0], **fclass)
      elif bad[0].endswith("_bytes") and isinstance(fclass, dict):
        _vkey(out, "port-stats", bad[1], field=bad[0], **fclass)
      else:
        _vkey(out, "port-stats", bad[1], field=bad[0])
      ok = False
  return ok


# --------------------------------------------------------------------------- generators

_U16 = st.one_of(st.sampled_from([0, 1, 2, 0x7fff, 0x8000, 0xfffe, 0xffff, 80, 443, 1024]), st.integers(0, 0xffff))
_U32 = st.one_of(st.sampled_from([0, 1, 0x7fffffff, 0x80000000, 0xfffffffe, 0xffffffff, 0x0a000001, 0xc0a80101, 0xe0000001]),
                 st.integers(0, 0xffffffff))
_MAC = st.one_of(st.sampled_from([bytes(6), b"\xff" * 6, R.STP_MAC, bytes.fromhex("0180c200000e"), bytes.fromhex("020000000001")]),
                 st.binary(min_size=6, max_size=6))


@st.composite
def _payload(draw, odd_rate=2, maxlen=40):
  n = draw(st.integers(0, maxlen // 2)) * 2
  if draw(st.integers(0, odd_rate - 1)) == odd_rate - 1:
    n += 1
  return draw(st.binary(min_size=n, max_size=n))


def _tcp_option_layouts():
  """Option areas as real stacks write them, with every kind of option as the LAST one, ending exactly at the data
  offset, plus the padding variants (name, bytes)."""
  T = F12.tcp_options
  sack1 = ["sack", [[3000, 4000]]]
  return [
    ("mss", T([["mss", 1460]])),
    ("mss-nop-nop-sackperm", T([["mss", 1460], ["nop"], ["nop"], ["sackperm"]])),
    ("mss-nop-ws-nop-nop-sackperm", T([["mss", 1460], ["nop"], ["ws", 7], ["nop"], ["nop"], ["sackperm"]])),
    ("nop-nop-sackperm", T([["nop"], ["nop"], ["sackperm"]])),
    ("mss-sackperm-ts-nop-ws", T([["mss", 1460], ["sackperm"], ["ts", 0x11223344, 0], ["nop"], ["ws", 7]])),
    ("nop-ws", T([["nop"], ["ws", 2]])),
    # option VALUES an end host would refuse or clamp, which a forwarder has to carry as they are
    ("nop-ws14", T([["nop"], ["ws", 14]])),
    ("nop-ws15", T([["nop"], ["ws", 15]])),
    ("mss0-nop-ws255-sackperm", T([["mss", 0], ["nop"], ["ws", 255], ["sackperm"]])),
    ("mss65535-ts-max", T([["mss", 0xffff], ["nop"], ["nop"], ["ts", 0xffffffff, 0xffffffff]])),
    ("nop-nop-sack-reversed", T([["nop"], ["nop"], ["sack", [[4000, 3000], [0xffffffff, 0]]]])),
    ("nop-nop-ts", T([["nop"], ["nop"], ["ts", 0x01020304, 0x05060708]])),
    ("nop-nop-sack", T([["nop"], ["nop"], sack1])),
    ("ts-nop-nop-sack", T([["nop"], ["nop"], ["ts", 1, 2], ["nop"], ["nop"], sack1])),
    ("nop-nop-unknown2", T([["nop"], ["nop"], ["raw", 254, b""]])),
    ("unknown4", T([["raw", 253, b"\xab\xcd"]])),
    ("mss-unknown2-unknown2", T([["mss", 536], ["raw", 28, b""], ["raw", 34, b""]])),
    ("mss-nop-nop-nop-nop", T([["mss", 1460], ["nop"], ["nop"], ["nop"], ["nop"]])),
    ("nop-nop-nop-nop", T([["nop"], ["nop"], ["nop"], ["nop"]])),
    ("mss-ws-eol", T([["mss", 1460], ["ws", 7]], pad="eol")),
    ("sackperm-eol-eol", T([["sackperm"]], pad="eol")),
    ("nop-nop-nop-eol", b"\x01\x01\x01\x00"),
    ("eol-eol-eol-eol", bytes(4)),
  ]


@st.composite
def _tcp_opts(draw):
  kind = draw(st.integers(0, 11))
  if kind >= 10:
    return draw(st.sampled_from([b for n, b in _tcp_option_layouts()]))
  if kind <= 5:
    return b""
  opts = []
  pool = draw(st.lists(st.integers(0, 7), min_size=1, max_size=4))
  for k in pool:
    if k == 0:
      opts.append(["nop"])
    elif k == 1:
      opts.append(["mss", draw(_U16)])
    elif k == 2:
      # the shift count is one octet on the wire: 0..14 is what RFC 7323 lets a receiver USE, a forwarder carries any
      opts.append(["ws", draw(st.one_of(st.integers(0, 14), st.sampled_from([14, 15, 16, 127, 128, 255]), st.integers(0, 255)))])
    elif k == 3:
      opts.append(["sackperm"])
    elif k == 4:
      opts.append(["ts", draw(_U32), draw(_U32)])
    elif k == 5:
      opts.append(["sack", [[draw(_U32), draw(_U32)] for _ in range(draw(st.integers(1, 2)))]])
    elif k == 6:
      opts.append(["raw", draw(st.sampled_from([19, 28, 34, 253, 254])), draw(st.binary(min_size=0, max_size=6))])
    else:
      opts.append(["nop"])
  pad = "eol" if draw(st.integers(0, 7)) == 7 else "nop"
  try:
    return F12.tcp_options(opts, pad=pad)
  except ValueError:
    return F12.tcp_options(opts[:2], pad=pad)


@st.composite
def _ipv4_packet(draw, proto_kind, fragment=None):
  """fragment: None (mostly whole datagrams), or "first" / "middle" / "last" to force that kind of fragment."""
  src = draw(_U32)
  dst = draw(_U32)
  tos = draw(st.one_of(st.sampled_from([0, 0x10, 0xb8, 0xfc]), st.integers(0, 255)))
  ident = draw(_U16)
  ttl = draw(st.sampled_from([1, 64, 128, 255]))
  df = draw(st.booleans())
  options = b""
  if draw(st.integers(0, 9)) == 9:
    options = draw(st.sampled_from([b"\x01\x01\x01\x01", b"\x94\x04\x00\x00", b"\x07\x07\x04\x00\x00\x00\x00\x00",
                                    b"\x44\x0c\x05\x00\x00\x00\x00\x00\x00\x00\x00\x00"]))
  frag = draw(st.integers(0, 11))
  mf = False
  fragoff = 0
  if frag == 10:
    mf = True                                   # first fragment: built whole below, then cut
  elif frag == 11:
    fragoff = draw(st.sampled_from([1, 2, 185, 0x1fff]))
    mf = draw(st.booleans())
  if fragment is not None:
    mf = fragment != "last"
    fragoff = 0 if fragment == "first" else (fragoff or draw(st.sampled_from([1, 3, 185, 0x1fff])))
  whole = not mf and fragoff == 0
  if proto_kind == "tcp":
    proto = 6
    seg = F.build_tcp(src, dst, draw(_U16), draw(_U16), payload=draw(_payload()), seq=draw(_U32), ack=draw(_U32),
                      flags=draw(st.sampled_from([0x02, 0x12, 0x10, 0x18, 0x11, 0x04, 0x38, 0xc2, 0x1ff])),
                      window=draw(_U16), urg=draw(st.sampled_from([0, 0, 1, 0xffff])), options=draw(_tcp_opts()))
  elif proto_kind == "udp":
    proto = 17
    sport, dport = draw(_U16), draw(_U16)
    if draw(st.integers(0, 29)) == 29:
      if draw(st.booleans()):
        sport = draw(st.sampled_from(_SPECIAL_UDP))
      else:
        dport = draw(st.sampled_from(_SPECIAL_UDP))
    csum = 0 if draw(st.integers(0, 19)) == 19 else None
    seg = F.build_udp(src, dst, sport, dport, payload=draw(_payload()), checksum=csum)
  elif proto_kind == "icmp":
    proto = 1
    k = draw(st.integers(0, 5))
    if k <= 2:
      seg = F.echo(type=draw(st.sampled_from([8, 0])), ident=draw(_U16), seq=draw(_U16), payload=draw(_payload()))
    elif k <= 4:
      inner_payload = draw(st.binary(min_size=8, max_size=8))
      inner = F.build_ipv4(draw(_U32), draw(_U32), draw(st.sampled_from([1, 6, 17])), inner_payload,
                           total_len=draw(st.sampled_from([28, 60, 1500])), ttl=1, ident=draw(_U16))
      seg = F.build_icmp(draw(st.sampled_from([3, 11])), draw(st.integers(0, 5)), payload=inner,
                         rest=draw(st.sampled_from([bytes(4), b"\x00\x00\x05\xdc"])))
    else:
      seg = F.build_icmp(draw(st.sampled_from([5, 13, 17, 40, 255])), draw(st.integers(0, 255)), payload=draw(_payload()),
                         rest=draw(st.binary(min_size=4, max_size=4)))
  else:
    proto = draw(st.sampled_from([50, 51, 89, 132, 253]))   # protocols the datapath does not dissect
    seg = draw(_payload())
  if proto in (6, 17) and whole and draw(st.integers(0, 9)) == 9:
    # boundary value: a datagram whose checksum COMPUTES to zero (sent as 0xffff by UDP, as 0x0000 by TCP)
    hl = 8 if proto == 17 else (seg[12] >> 4) * 4
    if len(seg) < hl + 2:
      seg = seg + b"\0\0"
      if proto == 17:
        seg = seg[:4] + struct.pack("!H", len(seg)) + seg[6:]
    seg = F12.solve_checksum_word(seg, F.pseudo_header(src, dst, proto, len(seg)), hl, 6 if proto == 17 else 16, proto == 17)
  if fragoff != 0:
    seg = draw(_payload())                      # a later fragment carries no transport header
    if mf:
      seg = (seg + bytes(8))[:max(8, len(seg) // 8 * 8)]
  elif mf:
    # first fragment of a longer datagram: lengths and checksum inside it describe the whole datagram
    seg = seg + draw(st.binary(min_size=8, max_size=24))
    if proto == 17:
      seg = F.build_udp(src, dst, int.from_bytes(seg[0:2], "big"), int.from_bytes(seg[2:4], "big"), seg[8:])
    keep = draw(st.integers(1, max(1, (len(seg) - 1) // 8))) * 8
    seg = seg[:keep]
  return F.build_ipv4(src, dst, proto, seg, tos=tos, ident=ident, df=df and whole, mf=mf, frag=fragoff, ttl=ttl, options=options)


_IP6 = [bytes.fromhex("20010db8000000000000000000000001"), bytes.fromhex("20010db80000000000000000000000ff"),
        bytes.fromhex("fe80000000000000020000fffe000001"), bytes.fromhex("ff020000000000000000000000000001"), bytes(15) + b"\x01"]


@st.composite
def _ipv6_packet(draw):
  src, dst = draw(st.sampled_from(_IP6)), draw(st.sampled_from(_IP6))
  k = draw(st.integers(0, 5))
  if k <= 2:
    sport, dport = draw(_U16), draw(_U16)
    sport += sport in _SPECIAL_UDP       # application dissection behind these ports is another matter (udp-app-port)
    dport += dport in _SPECIAL_UDP
    nh, seg = 17, F12.build_udp6(src, dst, sport, dport, draw(_payload()))
  elif k <= 4:
    nh, seg = 6, F12.build_tcp6(src, dst, draw(_U16), draw(_U16), draw(_payload()), seq=draw(_U32), ack=draw(_U32),
                                flags=draw(st.sampled_from([0x02, 0x10, 0x18])), window=draw(_U16))
  else:
    nh, seg = 58, F12.build_icmp6_echo(src, dst, draw(_U16), draw(_U16), draw(_payload()), reply=draw(st.booleans()))
  if nh in (6, 17) and draw(st.integers(0, 9)) == 9:
    hl = 8 if nh == 17 else 20
    if len(seg) < hl + 2:
      seg = seg + b"\0\0"
      if nh == 17:
        seg = seg[:4] + struct.pack("!H", len(seg)) + seg[6:]
    seg = F12.solve_checksum_word(seg, F12.pseudo_header6(src, dst, nh, len(seg)), hl, 6 if nh == 17 else 16, nh == 17)
  return F12.build_ipv6(src, dst, nh, seg, tc=draw(st.sampled_from([0, 0xb8, 0xff])), flow=draw(st.sampled_from([0, 1, 0xfffff])),
                        hlim=draw(st.sampled_from([1, 64, 255])))


@st.composite
def frame_strategy(draw):
  fr = draw(_frame_no_trailer())
  cls = frame_class(fr)[0]
  t = draw(st.integers(0, 9))
  if t >= 8 and (cls in ("tcp", "udp", "icmp", "ip-other", "arp", "later-fragment") or cls.startswith(("ipv6-", "tcp+"))) and "llc" not in F.dissect(fr):
    # link-layer trailer: padding to the Ethernet minimum, or a few octets of anything
    if t == 8 and len(fr) < 60:
      fr = fr + bytes(60 - len(fr))
    else:
      fr = fr + draw(st.binary(min_size=1, max_size=8))
  return fr


@st.composite
def _frame_no_trailer(draw):
  dst = draw(st.one_of(st.sampled_from([R.STP_MAC, R.STP_MAC, b"\xff" * 6]), _MAC, _MAC, _MAC))
  src = draw(_MAC)
  v = draw(st.integers(0, 19))
  vlan = None
  if v >= 11:
    cfi = 1 if draw(st.integers(0, 11)) == 11 else 0
    tag = [draw(st.integers(0, 7)), cfi, draw(st.sampled_from([0, 1, 100, 4094, 4095]))]
    vlan = [tag]
    if v == 19:
      vlan = [tag, [draw(st.integers(0, 7)), 0, draw(st.integers(0, 4095))]]
  k = draw(st.integers(0, 23))
  if k >= 22:
    return F.build_eth(dst, src, F12.ETH_IPV6, draw(_ipv6_packet()), vlan=vlan)
  if k >= 20:
    # not a VLAN tag to OpenFlow 1.0, although what follows looks exactly like TCI + EtherType + packet
    inner = draw(st.sampled_from(["tcp", "udp", "icmp", "arp"]))
    if inner == "arp":
      body = struct.pack("!HH", draw(_U16), F.ETH_ARP) + F.build_arp(1, draw(_MAC), draw(_U32), draw(_MAC), draw(_U32))
    else:
      body = struct.pack("!HH", draw(_U16), F.ETH_IP) + draw(_ipv4_packet(inner))
    return F.build_eth(dst, src, draw(st.sampled_from(list(_NOT_VLAN_TPIDS) + [0x9100, 0x8101, 0x0801])), body,
                       vlan=vlan if k == 21 else None)
  if k <= 5:
    return F.build_eth(dst, src, F.ETH_IP, draw(_ipv4_packet("tcp")), vlan=vlan)
  if k <= 10:
    return F.build_eth(dst, src, F.ETH_IP, draw(_ipv4_packet("udp")), vlan=vlan)
  if k <= 13:
    return F.build_eth(dst, src, F.ETH_IP, draw(_ipv4_packet("icmp")), vlan=vlan)
  if k == 14:
    return F.build_eth(dst, src, F.ETH_IP, draw(_ipv4_packet("other")), vlan=vlan)
  if k <= 16:
    arp = F.build_arp(draw(st.sampled_from([1, 2, 3, 4])), draw(_MAC), draw(_U32), draw(_MAC), draw(_U32))
    return F.build_eth(dst, src, draw(st.sampled_from([F.ETH_ARP, F.ETH_ARP, 0x8035])), arp, vlan=vlan)
  o = draw(st.integers(0, 6))
  body = draw(_payload(odd_rate=2))
  if o == 0:
    return F.build_8023(dst, src, body, dsap=draw(st.sampled_from([0x42, 0xe0, 0xfe])), ssap=0x42, vlan=vlan)
  if o == 1:
    # SNAP: under OUI 0 the PID is an EtherType and the body is what that EtherType announces (or an EtherType nothing
    # dissects); under another OUI the body is opaque
    w = draw(st.integers(0, 5))
    if w <= 1:
      return F.build_8023(dst, src, draw(_ipv4_packet(draw(st.sampled_from(["tcp", "udp", "icmp", "other"])))), snap=(bytes(3), F.ETH_IP), vlan=vlan)
    if w == 2:
      arp = F.build_arp(draw(st.sampled_from([1, 2])), draw(_MAC), draw(_U32), draw(_MAC), draw(_U32))
      return F.build_8023(dst, src, arp, snap=(bytes(3), F.ETH_ARP), vlan=vlan)
    if w == 3:
      return F.build_8023(dst, src, body, snap=(bytes(3), draw(st.sampled_from([0x809b, 0x8137, 0x1234]))), vlan=vlan)
    return F.build_8023(dst, src, body, snap=(draw(st.sampled_from([b"\x00\x00\x0c", b"\x00\x80\xc2", b"\x08\x00\x07"])),
                                               draw(st.sampled_from([0x2000, 0x2004, 0x0800, 0x0806, 0x000b]))), vlan=vlan)
  if o == 2:
    # a well-formed LLDPDU: chassis id, port id, ttl, (system name), end
    def tlv(t, v):
      return struct.pack("!H", (t << 9) | len(v)) + v
    pdu = tlv(1, b"\x04" + draw(_MAC)) + tlv(2, b"\x02" + draw(st.binary(min_size=1, max_size=4))) + tlv(3, struct.pack("!H", draw(_U16)))
    if draw(st.booleans()):
      pdu += tlv(5, draw(st.binary(min_size=1, max_size=8)))
    pdu += tlv(0, b"")
    return F.build_eth(draw(st.sampled_from([bytes.fromhex("0180c200000e"), dst])), src, 0x88cc, pdu, vlan=vlan)
  if o == 3:
    # EAPOL-Start / Logoff: no body
    return F.build_eth(bytes.fromhex("0180c2000003"), src, 0x888e, struct.pack("!BBH", 1, draw(st.sampled_from([1, 2])), 0), vlan=vlan)
  if o == 4:
    return F.build_eth(dst, src, draw(st.sampled_from([0x88a8, 0x9100, 0x9200, 0x8808, 0x88f7])), body, vlan=vlan)
  return F.build_eth(dst, src, draw(st.sampled_from([0x0600, 0x0801, 0x1234, 0xffff, 0x22f3])), body, vlan=vlan)


@st.composite
def _fragment_frame(draw):
  """An IPv4 fragment (first / middle / last, of TCP / UDP / ICMP / another protocol) in every encapsulation OpenFlow 1.0
  looks through: Ethernet II, one 802.1Q tag (any pcp / cfi / vid, priority tag included), LLC/SNAP with OUI 0, both."""
  dst = draw(st.one_of(st.sampled_from([R.STP_MAC, b"\xff" * 6]), _MAC, _MAC, _MAC))
  src = draw(_MAC)
  pkt = draw(_ipv4_packet(draw(st.sampled_from(["tcp", "udp", "udp", "icmp", "other"])),
                          fragment=draw(st.sampled_from(["first", "middle", "last"]))))
  v = draw(st.integers(0, 9))
  vlan = None
  if v >= 3:
    vlan = [[draw(st.integers(0, 7)), 1 if v == 9 else 0, draw(st.sampled_from([0, 0, 1, 5, 100, 4094, 4095]))]]
  if draw(st.integers(0, 5)) == 5:
    return F.build_8023(dst, src, pkt, snap=(bytes(3), F.ETH_IP), vlan=vlan)
  return F.build_eth(dst, src, F.ETH_IP, pkt, vlan=vlan)


@st.composite
def _irregular_frame(draw):
  """A frame whose packet has exactly one named irregularity (ref/frames12m.py builds it from a few drawn integers):
  header lengths that contradict each other or the octets present, wrong versions, cut-off headers, wrong checksums,
  TLVs running over the end -- under IPv4 (and TCP / UDP / ICMP inside it), ARP, IPv6, LLDP and EAPOL; untagged or tagged,
  with or without a link-layer trailer where the irregularity admits one."""
  dst = draw(st.one_of(st.sampled_from([R.STP_MAC, b"\xff" * 6]), _MAC, _MAC, _MAC))
  src = draw(_MAC)
  kind = draw(st.sampled_from(F12M.KINDS))
  p = {"a": draw(st.integers(0, 255)), "b": draw(st.integers(0, 15)),
       "n": draw(st.integers(0, 20)) * 2 + (1 if draw(st.integers(0, 2)) == 2 else 0), "seed": draw(st.integers(0, 250))}
  if draw(st.integers(0, 3)) == 3:
    p.update({"src": draw(_U32), "dst": draw(_U32), "tos": draw(st.sampled_from([0, 0xb8, 0xff])), "ident": draw(_U16),
              "ttl": draw(st.sampled_from([1, 64, 255])), "sport": draw(_U16), "dport": draw(_U16)})
  et, pkt = F12M.build(kind, p)
  v = draw(st.integers(0, 9))
  vlan = None
  if v >= 6:
    vlan = [[draw(st.integers(0, 7)), 1 if v == 8 else 0, draw(st.sampled_from([0, 1, 100, 4095]))]]
    if v == 9:
      vlan.append([draw(st.integers(0, 7)), 0, draw(st.integers(0, 4095))])
  fr = F.build_eth(dst, src, et, pkt, vlan=vlan)
  if F12M.may_take_trailer(kind):
    t = draw(st.integers(0, 5))
    if t == 3:
      fr = fr + bytes(max(1, 60 - len(fr)))
    elif t >= 4:
      fr = fr + draw(st.binary(min_size=1, max_size=8))
  return fr


_TO_L2 = {"set_nw_src": "set_dl_src", "set_nw_dst": "set_dl_dst", "set_nw_tos": "set_vlan_pcp", "set_tp_src": "set_vlan_vid", "set_tp_dst": "strip_vlan"}


def _l2_only(actions):
  """The list with every nw/tp rewrite turned into a link-layer rewrite carrying the same number."""
  out = []
  for a in actions:
    k = _TO_L2.get(a["a"])
    if k is None:
      out.append(a)
    elif k in ("set_dl_src", "set_dl_dst"):
      out.append({"a": k, "v": b"\x02\x00" + struct.pack("!L", a["v"] & 0xffffffff)})
    elif k == "set_vlan_pcp":
      out.append({"a": k, "v": a["v"] & 7})
    elif k == "set_vlan_vid":
      out.append({"a": k, "v": a["v"] & 0x0fff})
    else:
      out.append({"a": k})
  return out


def _phys_port(nports):
  return st.integers(1, nports)


@st.composite
def action_strategy(draw, nports, allow_table):
  k = draw(st.integers(0, 15))
  if k <= 3 or k == 15:
    w = draw(st.integers(0, 19))
    if w <= 8:
      port = draw(_phys_port(nports))
    elif w == 9:
      port = draw(st.sampled_from([nports + 1, 0, 0xfeff]))
    elif w <= 11:
      port = R.OFPP_IN_PORT
    elif w <= 13:
      port = R.OFPP_FLOOD
    elif w <= 15:
      port = R.OFPP_ALL
    elif w <= 17:
      port = R.OFPP_CONTROLLER
    elif w == 18:
      port = R.OFPP_TABLE if allow_table else R.OFPP_FLOOD
    else:
      port = draw(st.sampled_from([R.OFPP_NORMAL, R.OFPP_LOCAL, R.OFPP_TABLE]))
    return {"a": "output", "port": port, "max_len": draw(st.sampled_from([0, 1, 14, 60, 128, 0xffff]))}
  if k == 4:
    return {"a": "enqueue", "port": draw(st.one_of(_phys_port(nports), _phys_port(nports), st.just(R.OFPP_IN_PORT))),
            "queue": draw(st.sampled_from([0, 1, 0xffffffff]))}
  if k == 5:
    return {"a": "set_vlan_vid", "v": draw(st.sampled_from([0, 1, 2, 100, 4094, 4095]))}
  if k == 6:
    return {"a": "set_vlan_pcp", "v": draw(st.integers(0, 7))}
  if k == 7:
    return {"a": "strip_vlan"}
  if k == 8:
    return {"a": "set_dl_src", "v": draw(_MAC)}
  if k == 9:
    return {"a": "set_dl_dst", "v": draw(_MAC)}
  if k == 10:
    return {"a": "set_nw_src", "v": draw(_U32)}
  if k == 11:
    return {"a": "set_nw_dst", "v": draw(_U32)}
  if k == 12:
    return {"a": "set_nw_tos", "v": draw(st.one_of(st.sampled_from([0, 0x20, 0xb8, 0xfc]), st.integers(0, 255)))}
  if k == 13:
    return {"a": "set_tp_src", "v": draw(_U16)}
  return {"a": "set_tp_dst", "v": draw(_U16)}


@st.composite
def _action_list(draw, nports, allow_table):
  n = draw(st.integers(0, 6))
  acts = [draw(action_strategy(nports, allow_table)) for _ in range(n)]
  if n >= 3 and draw(st.integers(0, 3)) == 3:
    # interleave: make the odd positions outputs that can emit, so rewrites sit between outputs
    for i in range(1, n, 2):
      if acts[i]["a"] not in ("output", "enqueue"):
        acts[i] = {"a": "output", "port": draw(st.one_of(_phys_port(nports), st.sampled_from([R.OFPP_FLOOD, R.OFPP_ALL, R.OFPP_IN_PORT, R.OFPP_CONTROLLER]))),
                   "max_len": draw(st.sampled_from([0, 64, 0xffff]))}
  return acts


@st.composite
def step_strategy(draw, nports, mode=None, fragments=False):
  if mode is None:
    m = draw(st.integers(0, 19))
    mode = "packet_out" if m <= 8 else ("flow" if m <= 17 else "miss")
    if fragments and m <= 5:
      mode = "flow" if m <= 3 else "miss"        # fragment handling is a matter of frames that ARRIVE
  irregular = draw(st.integers(0, 7)) == 7
  if fragments and draw(st.integers(0, 2)) != 0:
    irregular = False
    frame = draw(_fragment_frame())
  else:
    frame = draw(_irregular_frame() if irregular else frame_strategy())
  if mode == "packet_out":
    in_port = draw(st.one_of(_phys_port(nports), _phys_port(nports), _phys_port(nports),
                             st.sampled_from([R.OFPP_NONE, R.OFPP_NONE, R.OFPP_NONE, R.OFPP_CONTROLLER, R.OFPP_CONTROLLER, nports + 1])))
  else:
    in_port = draw(_phys_port(nports))
    if draw(st.integers(0, 24)) == 24:
      in_port = nports + 1
  step = {"mode": mode, "frame": frame, "in_port": in_port}
  if mode != "miss":
    step["actions"] = draw(_action_list(nports, mode == "packet_out"))
  if mode == "flow":
    step["match"] = draw(st.sampled_from(["all", "all", "in_port"]))
  if irregular:
    step["irregular"] = True
    step["l2_only"] = draw(st.integers(0, 3)) != 0      # mostly lists whose meaning for such a frame is fully specified
  return step


@st.composite
def _portmod(draw, nports):
  bits = draw(st.integers(0, 63))
  config = sum(b for i, (n, b) in enumerate(BITS) if bits >> i & 1)
  mk = draw(st.integers(0, 9))
  if mk <= 5:
    mask = config
  elif mk <= 7:
    mask = KNOWN_BITS
  else:
    mb = draw(st.integers(0, 63))
    mask = sum(b for i, (n, b) in enumerate(BITS) if mb >> i & 1)
  if draw(st.integers(0, 9)) == 9:
    config |= draw(st.sampled_from([R.OFPPC_NO_STP, 0x80, 0x80000000]))
    mask |= draw(st.sampled_from([R.OFPPC_NO_STP, 0x80, 0x80000000]))
  return {"port": nports + 1 if draw(st.integers(0, 11)) == 11 else draw(_phys_port(nports)),
          "config": config, "mask": mask, "hw": draw(st.integers(0, 11)) != 11}


@st.composite
def case_strategy(draw):
  nports = draw(st.sampled_from([1, 2, 3, 4, 4, 4, 5]))
  case = {"nports": nports}
  if draw(st.booleans()):
    case["portmods"] = [draw(_portmod(nports)) for _ in range(draw(st.integers(1, 3)))]
  if draw(st.integers(0, 7)) == 7:
    case["link_down"] = [draw(_phys_port(nports))]
  fm = draw(st.integers(0, 19))
  if fm >= 16:
    case["frag"] = 2 if fm == 19 else 1
  # a case that configures fragment handling (now, or between deliveries) meets fragments, in every encapsulation
  reconfig = draw(st.integers(0, 19)) == 19
  fragments = "frag" in case or reconfig
  ns = draw(st.sampled_from([1, 1, 1, 1, 1, 2, 2, 2, 3, 0, -1]))
  if ns == -1:
    # buffered packet-out scenario: show the frame to the controller in the middle of a list that goes on rewriting it,
    # then release the announced buffer with another list
    first = draw(step_strategy(nports, mode=draw(st.sampled_from(["flow", "packet_out"]))))
    acts = first["actions"][:3]
    acts.insert(draw(st.integers(0, len(acts))), {"a": "output", "port": R.OFPP_CONTROLLER, "max_len": draw(st.sampled_from([0, 14, 60, 0xffff]))})
    acts.append(draw(action_strategy(nports, False).filter(lambda a: a["a"] in REWRITES)))
    acts.append({"a": "output", "port": draw(_phys_port(nports)), "max_len": 0})
    first["actions"] = acts
    case["steps"] = [first, {"mode": "buffer_out", "which": draw(st.integers(0, 3)), "actions": draw(_action_list(nports, True))}]
  elif ns == 0:
    # OFPP_TABLE scenario: install a flow (its own frame is delivered too), then packet-out through the table
    first = draw(step_strategy(nports, mode=draw(st.sampled_from(["flow", "flow", "flow", "miss"])), fragments=fragments))
    second = draw(step_strategy(nports, mode="packet_out", fragments=fragments))
    if draw(st.integers(0, 3)) != 0:
      second["in_port"] = first["in_port"] if draw(st.booleans()) else draw(_phys_port(nports))
    acts = second["actions"][:5]
    acts.insert(draw(st.integers(0, len(acts))), {"a": "output", "port": R.OFPP_TABLE, "max_len": 0})
    second["actions"] = acts
    case["steps"] = [first, second]
  else:
    if reconfig and ns < 2:
      ns = 2
    case["steps"] = [draw(step_strategy(nports, fragments=fragments)) for _ in range(ns)]
  # things that happen between deliveries: port-mods, link changes, a transmit that fails once
  deliveries = case["steps"]
  if len(deliveries) >= 2:
    steps = []
    for i, d in enumerate(deliveries):
      r = draw(st.integers(0, 9))
      if reconfig and i > 0 and draw(st.booleans()):
        # OFPT_SET_CONFIG between deliveries: the fragment handling mode of the moment decides
        steps.append({"mode": "set_config", "frag": draw(st.sampled_from([0, 1, 1, 2]))})
      if i == 0:
        if r == 9:
          steps.append({"mode": "fault"})
      elif r >= 9:
        steps.append({"mode": "fault"})
      elif r == 8:
        steps.append({"mode": "link", "port": draw(_phys_port(nports)), "down": draw(st.booleans())})
      elif r >= 4:
        pm = draw(_portmod(nports))
        pm["mode"] = "portmod"
        steps.append(pm)
      steps.append(d)
    case["steps"] = steps
  if draw(st.integers(0, 3)) == 3:
    # release a buffer announced by some earlier packet-in (skipped at run time if there is none)
    case["steps"] = case["steps"] + [{"mode": "buffer_out", "which": draw(st.integers(0, 3)), "actions": draw(_action_list(nports, True))}]
  if draw(st.booleans()):
    case["stats_port"] = draw(_phys_port(nports))
  if any(s_.get("l2_only") for s_ in case["steps"]):
    # every list that can meet the irregular frame (its own, a flow's behind OFPP_TABLE, a later buffer release)
    for s_ in case["steps"]:
      if "actions" in s_:
        s_["actions"] = _l2_only(s_["actions"])
  for s_ in case["steps"]:
    s_.pop("l2_only", None)
  return case


# --------------------------------------------------------------------------- the exhaustive port-config grid

def _cfg(i):
  return sum(b for k, (n, b) in enumerate(BITS) if i >> k & 1)


_GRID_SRC = bytes.fromhex("0200000000a1")
_GRID_LIST_A = [
  {"a": "set_dl_src", "v": bytes.fromhex("02aabbccdd01")},
  {"a": "output", "port": 2, "max_len": 0},
  {"a": "set_vlan_vid", "v": 7},
  {"a": "output", "port": R.OFPP_FLOOD, "max_len": 0},
  {"a": "set_nw_tos", "v": 0x20},
  {"a": "output", "port": R.OFPP_IN_PORT, "max_len": 0},
  {"a": "output", "port": R.OFPP_ALL, "max_len": 0},
  {"a": "output", "port": R.OFPP_CONTROLLER, "max_len": 64},
]
_GRID_LIST_B = [
  {"a": "strip_vlan"},
  {"a": "output", "port": R.OFPP_ALL, "max_len": 0},
  {"a": "set_tp_dst", "v": 8080},
  {"a": "output", "port": 2, "max_len": 0},
  {"a": "set_nw_dst", "v": 0x0a0000fe},
  {"a": "output", "port": R.OFPP_FLOOD, "max_len": 0},
  {"a": "enqueue", "port": 2, "queue": 1},
  {"a": "output", "port": R.OFPP_CONTROLLER, "max_len": 0xffff},
]


def _grid_frames():
  udp = F.build_ipv4("10.0.0.1", "10.0.0.2", 17, F.build_udp("10.0.0.1", "10.0.0.2", 1234, 4321, b"grid-payload"), tos=0x10, ident=7)
  tcp = F.build_ipv4("10.0.0.1", "10.0.0.2", 6, F.build_tcp("10.0.0.1", "10.0.0.2", 1234, 80, b"GET / HTTP/1.0\r\n", seq=1, ack=2, flags=0x18), ident=9)
  return {
    ("A", 0): F.build_eth(bytes.fromhex("0200000000b2"), _GRID_SRC, F.ETH_IP, udp),
    ("A", 1): F.build_eth(R.STP_MAC, _GRID_SRC, F.ETH_IP, udp),
    ("B", 0): F.build_eth(bytes.fromhex("0200000000b2"), _GRID_SRC, F.ETH_IP, tcp, vlan=(3, 0, 100)),
    ("B", 1): F.build_eth(R.STP_MAC, _GRID_SRC, F.ETH_IP, tcp, vlan=(3, 0, 100)),
  }


def _grid(tier, mode):
  frames = _grid_frames()
  lists = {"A": _GRID_LIST_A, "B": _GRID_LIST_B}
  which = ["A"] if tier == "quick" else ["A", "B"]
  for w in which:
    for stp in (0, 1):
      for ic in range(64):
        for ec in (range(64) if mode != "miss" else [0]):
          case = {"nports": 3, "grid": True,
                  "portmods": [{"port": 1, "config": _cfg(ic), "mask": KNOWN_BITS, "hw": True},
                               {"port": 2, "config": _cfg(ec), "mask": KNOWN_BITS, "hw": True}],
                  "steps": [{"mode": mode, "frame": frames[(w, stp)], "in_port": 1}]}
          if mode != "miss":
            case["steps"][0]["actions"] = lists[w]
          if mode == "flow":
            case["steps"][0]["match"] = "all"
          yield case


def _inapplicable_cases():
  """Every field-modify action, alone in front of an output, on frames it must not alter or that are not what they
  resemble: EtherTypes that look like stacked-VLAN TPIDs in front of a tag-like word and a valid IPv4/TCP packet,
  ARP, ICMP, a later fragment, LLC."""
  S, D = "10.0.0.1", "10.0.0.2"
  A, B = bytes.fromhex("0200000000a1"), bytes.fromhex("0200000000b2")
  tcp = F.build_ipv4(S, D, 6, F.build_tcp(S, D, 1234, 80, b"lookalike!", seq=1, ack=2, flags=0x18), ident=11)
  udp = F.build_ipv4(S, D, 17, F.build_udp(S, D, 1234, 4321, b"lookalike!"), ident=12)
  frames = []
  for et in _NOT_VLAN_TPIDS + (0x8101, 0x0801):
    frames.append(F.build_eth(B, A, et, struct.pack("!HH", 0x6064, F.ETH_IP) + tcp))
  frames.append(F.build_eth(B, A, 0x9100, struct.pack("!HH", 0x0005, F.ETH_IP) + udp, vlan=(1, 0, 9)))
  frames.append(F.build_eth(B, A, 0x88a8, struct.pack("!HH", 0x0005, F.ETH_ARP) + F.build_arp(1, A, S, bytes(6), D)))
  frames.append(F.build_eth(b"\xff" * 6, A, F.ETH_ARP, F.build_arp(1, A, S, bytes(6), D)))
  frames.append(F.build_eth(B, A, F.ETH_ARP, F.build_arp(2, A, S, B, D), vlan=(0, 0, 5)))
  frames.append(F.build_eth(B, A, F.ETH_IP, F.build_ipv4(S, D, 1, F.echo(8, 1, 1, b"ping-pong!"), ident=13)))
  frames.append(F.build_eth(B, A, F.ETH_IP, F.build_ipv4(S, D, 17, b"later-fragment-x", frag=2, ident=14)))
  frames.append(F.build_8023(B, A, b"llc-payload!", dsap=0x42, ssap=0x42))
  acts = [{"a": "set_vlan_vid", "v": 7}, {"a": "set_vlan_pcp", "v": 5}, {"a": "strip_vlan"},
          {"a": "set_dl_src", "v": bytes.fromhex("02aabbccdd01")}, {"a": "set_dl_dst", "v": bytes.fromhex("02aabbccdd02")},
          {"a": "set_nw_src", "v": 0x0a0000fe}, {"a": "set_nw_dst", "v": 0x0a0000fd}, {"a": "set_nw_tos", "v": 0x20},
          {"a": "set_tp_src", "v": 8080}, {"a": "set_tp_dst", "v": 8081}]
  for fr in frames:
    for a in acts:
      for mode in ("flow", "packet_out"):
        for tail in ([{"a": "output", "port": 2, "max_len": 0}],
                     [{"a": "output", "port": R.OFPP_CONTROLLER, "max_len": 0xffff}, {"a": "output", "port": R.OFPP_FLOOD, "max_len": 0}]):
          step = {"mode": mode, "frame": fr, "in_port": 1, "actions": [a] + tail}
          if mode == "flow":
            step["match"] = "all"
          yield {"nports": 3, "steps": [step]}


def _sequence_cases():
  """{first delivery} x {something changes: one config bit of one port set or cleared by port-mod, a link going down or
  coming back, a transmit failing once during the first delivery, nothing} x {second delivery}: the second delivery must
  be judged by the port state of its own moment, whatever the first one left behind in the switch."""
  fr = _grid_frames()
  ordinary, stp = fr[("A", 0)], fr[("A", 1)]
  def out(p):
    return {"a": "output", "port": p, "max_len": 0xffff}
  kinds = [
    {"mode": "flow", "match": "all", "in_port": 1, "frame": ordinary, "actions": [out(R.OFPP_FLOOD)]},
    {"mode": "flow", "match": "in_port", "in_port": 1, "frame": ordinary, "actions": [out(R.OFPP_ALL)]},
    {"mode": "flow", "match": "all", "in_port": 1, "frame": stp, "actions": [out(R.OFPP_FLOOD)]},
    {"mode": "flow", "match": "all", "in_port": 1, "frame": ordinary,
     "actions": [{"a": "set_dl_dst", "v": bytes.fromhex("02aabbccdd02")}, out(2), out(R.OFPP_IN_PORT), out(R.OFPP_CONTROLLER)]},
    {"mode": "packet_out", "in_port": 1, "frame": ordinary, "actions": [out(R.OFPP_FLOOD)]},
    {"mode": "packet_out", "in_port": R.OFPP_NONE, "frame": ordinary, "actions": [out(R.OFPP_ALL)]},
    {"mode": "miss", "in_port": 1, "frame": ordinary},
    {"mode": "packet_out", "in_port": 1, "frame": ordinary, "actions": [out(R.OFPP_TABLE)]},
  ]
  changes = [("none",), ("fault",)]
  for port in (1, 2, 3):
    for name, bit in BITS:
      changes.append(("set", port, bit))
      changes.append(("clear", port, bit))
    changes.append(("link", port, True))
    changes.append(("link", port, False))
  for first in kinds:
    for ch in changes:
      for second in kinds:
        case = {"nports": 3, "seq": True}
        mid = []
        if ch[0] == "fault":
          case["steps"] = [{"mode": "fault"}, dict(first), dict(second)]
          yield case
          continue
        if ch[0] == "set":
          mid = [{"mode": "portmod", "port": ch[1], "config": ch[2], "mask": ch[2], "hw": True}]
        elif ch[0] == "clear":
          case["portmods"] = [{"port": ch[1], "config": ch[2], "mask": ch[2], "hw": True}]
          mid = [{"mode": "portmod", "port": ch[1], "config": 0, "mask": ch[2], "hw": True}]
        elif ch[0] == "link":
          if not ch[2]:
            case["link_down"] = [ch[1]]
          mid = [{"mode": "link", "port": ch[1], "down": ch[2]}]
        case["steps"] = [dict(first)] + mid + [dict(second)]
        yield case


def _tcp_layout_cases():
  """Every option layout x payload {none, even, odd} x {untagged, tagged} x {no rewrite, each nw / tp rewrite} x {flow, packet-out}."""
  S, D = "10.0.0.1", "10.0.0.2"
  A, B = bytes.fromhex("0200000000a1"), bytes.fromhex("0200000000b2")
  rewrites = [None, {"a": "set_nw_src", "v": 0x0a0000fe}, {"a": "set_nw_dst", "v": 0xc0a80001}, {"a": "set_nw_tos", "v": 0x20},
              {"a": "set_tp_src", "v": 8080}, {"a": "set_tp_dst", "v": 1}]
  for name, opts in _tcp_option_layouts():
    for payload in (b"", b"payload!", b"odd"):
      for vlan in (None, (2, 0, 77)):
        fr = F.build_eth(B, A, F.ETH_IP, F.build_ipv4(S, D, 6, F.build_tcp(S, D, 40000, 80, payload, seq=7, ack=9, flags=0x18 if payload else 0x02,
                                                                               options=opts), ident=21), vlan=vlan)
        for rw in rewrites:
          for mode in ("flow", "packet_out"):
            step = {"mode": mode, "frame": fr, "in_port": 1,
                    "actions": ([rw] if rw else []) + [{"a": "output", "port": 2, "max_len": 0}]}
            if mode == "flow":
              step["match"] = "all"
            yield {"nports": 3, "steps": [step]}


def _buffered_cases():
  """[output:CONTROLLER, one field-modify action, output:2], then a packet-out releasing the announced buffer: it must
  carry the frame as the packet-in showed it, not as the rest of the first list left it."""
  S, D = "10.0.0.1", "10.0.0.2"
  A, B = bytes.fromhex("0200000000a1"), bytes.fromhex("0200000000b2")
  tcp = F.build_ipv4(S, D, 6, F.build_tcp(S, D, 1234, 80, b"buffered", seq=1, ack=2, flags=0x18), ident=31)
  udp = F.build_ipv4(S, D, 17, F.build_udp(S, D, 1234, 4321, b"buffered"), ident=32)
  icmp = F.build_ipv4(S, D, 1, F.echo(8, 1, 1, b"buffered"), ident=33)
  frames = [F.build_eth(B, A, F.ETH_IP, tcp, vlan=(3, 0, 100)), F.build_eth(B, A, F.ETH_IP, udp),
            F.build_eth(B, A, F.ETH_IP, icmp, vlan=(0, 0, 1)), F.build_eth(B, A, F.ETH_ARP, F.build_arp(1, A, S, bytes(6), D))]
  acts = [{"a": "set_vlan_vid", "v": 7}, {"a": "set_vlan_pcp", "v": 5}, {"a": "strip_vlan"},
          {"a": "set_dl_src", "v": bytes.fromhex("02aabbccdd01")}, {"a": "set_dl_dst", "v": bytes.fromhex("02aabbccdd02")},
          {"a": "set_nw_src", "v": 0x0a0000fe}, {"a": "set_nw_dst", "v": 0x0a0000fd}, {"a": "set_nw_tos", "v": 0x20},
          {"a": "set_tp_src", "v": 8080}, {"a": "set_tp_dst", "v": 8081}]
  seconds = [[{"a": "output", "port": 3, "max_len": 0}],
             [{"a": "set_dl_src", "v": bytes.fromhex("02aabbccdd09")}, {"a": "output", "port": R.OFPP_FLOOD, "max_len": 0}],
             [{"a": "output", "port": R.OFPP_CONTROLLER, "max_len": 0xffff}, {"a": "set_nw_tos", "v": 0x40}, {"a": "output", "port": R.OFPP_IN_PORT, "max_len": 0}]]
  for fr in frames:
    for a in acts:
      for mode in ("flow", "packet_out"):
        for max_len in (0, 0xffff):
          for second in seconds:
            first = {"mode": mode, "frame": fr, "in_port": 1,
                     "actions": [{"a": "output", "port": R.OFPP_CONTROLLER, "max_len": max_len}, a, {"a": "output", "port": 2, "max_len": 0}]}
            if mode == "flow":
              first["match"] = "all"
            yield {"nports": 3, "steps": [first, {"mode": "buffer_out", "which": 0, "actions": second}]}
  # a table miss buffers the frame as received
  for fr in frames:
    for second in seconds:
      yield {"nports": 3, "steps": [{"mode": "miss", "frame": fr, "in_port": 1}, {"mode": "buffer_out", "which": 0, "actions": second}]}


def _l4_seg(proto, a, payload, v6):
  if v6:
    return (F12.build_udp6 if proto == 17 else F12.build_tcp6)(a["src"], a["dst"], a["sport"], a["dport"], payload)
  if proto == 17:
    return F.build_udp(a["src"], a["dst"], a["sport"], a["dport"], payload)
  return F.build_tcp(a["src"], a["dst"], a["sport"], a["dport"], payload, seq=5, ack=6, flags=0x18)


def _pseudo(proto, a, n, v6):
  return F12.pseudo_header6(a["src"], a["dst"], proto, n) if v6 else F.pseudo_header(a["src"], a["dst"], proto, n)


def _boundary_pair(proto, orig, final, payload, via, v6=False):
  """-> (segment to send, {field: value the rewrite must carry}): after the fields of `orig` have become those of `final`
  the segment's checksum computes to zero.  `via` names the free 16-bit word: "payload" (its first two octets), "sport", "dport"."""
  hl = 8 if proto == 17 else 20
  off = {"sport": 0, "dport": 2, "payload": hl}[via]
  seg_f = _l4_seg(proto, final, payload, v6)
  seg_f = F12.solve_checksum_word(seg_f, _pseudo(proto, final, len(seg_f), v6), off, 6 if proto == 17 else 16, proto == 17)
  w = int.from_bytes(seg_f[off:off + 2], "big")
  final = dict(final)
  orig = dict(orig)
  if via in ("sport", "dport"):
    if orig[via] == final[via]:
      orig[via] = w                      # not rewritten: the word is there from the start
    final[via] = w
  pl = seg_f[hl:]
  seg_o = _l4_seg(proto, orig, pl, v6)
  if _l4_seg(proto, final, pl, v6) != seg_f:
    raise HarnessError("boundary construction is inconsistent")
  return seg_o, final


def _boundary_cases():
  """Datagrams whose transport checksum COMPUTES to zero - as they arrive, or once one nw/tp rewrite has been applied.
  UDP must carry 0xffff then (RFC 768), TCP 0x0000 (RFC 793); UDP over IPv6 (plain output only) likewise 0xffff."""
  A, B = bytes.fromhex("0200000000a1"), bytes.fromhex("0200000000b2")
  base = {"src": 0x0a000001, "dst": 0x0a000002, "sport": 1234, "dport": 4321}
  rewrites = [None, ("set_nw_src", "src", 0xc0a80a01), ("set_nw_dst", "dst", 0xac100001), ("set_tp_src", "sport", 40000), ("set_tp_dst", "dport", 8080)]
  for proto in (17, 6):
    for rw in rewrites:
      for via in ("payload", "sport", "dport"):
        for payload in (b"\0\0boundary", b"\0\0odd"):
          final = dict(base)
          if rw:
            final[rw[1]] = rw[2]
          seg, final = _boundary_pair(proto, base, final, payload, via)
          acts = [{"a": rw[0], "v": final[rw[1]]}] if rw else []
          acts += [{"a": "output", "port": 2, "max_len": 0}, {"a": "output", "port": R.OFPP_CONTROLLER, "max_len": 0xffff}]
          for vlan in (None, (1, 0, 5)):
            fr = F.build_eth(B, A, F.ETH_IP, F.build_ipv4(base["src"], base["dst"], proto, seg, ident=41), vlan=vlan)
            for mode in ("flow", "packet_out"):
              step = {"mode": mode, "frame": fr, "in_port": 1, "actions": acts}
              if mode == "flow":
                step["match"] = "all"
              yield {"nports": 3, "steps": [step]}
  b6 = {"src": _IP6[0], "dst": _IP6[1], "sport": 1234, "dport": 4321}
  for proto in (17, 6):
    for via in ("payload", "sport", "dport"):
      seg, _f = _boundary_pair(proto, b6, b6, b"\0\0boundary", via, v6=True)
      for vlan in (None, (1, 0, 5)):
        fr = F.build_eth(B, A, F12.ETH_IPV6, F12.build_ipv6(b6["src"], b6["dst"], proto, seg), vlan=vlan)
        for mode in ("flow", "packet_out"):
          step = {"mode": mode, "frame": fr, "in_port": 1,
                  "actions": [{"a": "output", "port": 2, "max_len": 0}, {"a": "output", "port": R.OFPP_CONTROLLER, "max_len": 0xffff}]}
          if mode == "flow":
            step["match"] = "all"
          yield {"nports": 3, "steps": [step]}


def _trailer_cases():
  """Frames with a link-layer trailer behind the IP datagram (padding to the 60-octet Ethernet minimum, or a few octets),
  forwarded as they are and after each kind of rewrite: the trailer belongs to the frame and must come out again."""
  A, B = bytes.fromhex("0200000000a1"), bytes.fromhex("0200000000b2")
  S, D = 0x0a000001, 0x0a000002
  udp4 = F.build_ipv4(S, D, 17, F.build_udp(S, D, 1234, 4321, b"ab"), ident=51)
  tcp4 = F.build_ipv4(S, D, 6, F.build_tcp(S, D, 1234, 80, b"", seq=1, flags=0x02), ident=52)
  icmp4 = F.build_ipv4(S, D, 1, F.echo(8, 1, 1, b"xy"), ident=53)
  udp6 = F12.build_ipv6(_IP6[0], _IP6[1], 17, F12.build_udp6(_IP6[0], _IP6[1], 1234, 4321, b"ab"))
  tcp6 = F12.build_ipv6(_IP6[0], _IP6[1], 6, F12.build_tcp6(_IP6[0], _IP6[1], 1234, 80, b""))
  arp = F.build_arp(1, A, S, bytes(6), D)
  frames = []
  for et, pkt in ((F.ETH_IP, udp4), (F.ETH_IP, tcp4), (F.ETH_IP, icmp4), (F12.ETH_IPV6, udp6), (F12.ETH_IPV6, tcp6), (F.ETH_ARP, arp)):
    for vlan in (None, (2, 0, 9)):
      fr = F.build_eth(B, A, et, pkt, vlan=vlan)
      frames.append(fr + bytes(max(1, 60 - len(fr))))          # padded to the minimum (or by one octet)
      frames.append(fr + b"\xde\xad\xbe")                      # a short trailer that is not zeros
  acts = [None, {"a": "set_vlan_vid", "v": 7}, {"a": "strip_vlan"}, {"a": "set_dl_dst", "v": bytes.fromhex("02aabbccdd02")},
          {"a": "set_nw_src", "v": 0x0a0000fe}, {"a": "set_nw_tos", "v": 0x20}, {"a": "set_tp_dst", "v": 8081}]
  for fr in frames:
    for a in acts:
      for mode in ("flow", "packet_out", "miss"):
        if mode == "miss" and a is not None:
          continue
        step = {"mode": mode, "frame": fr, "in_port": 1}
        if mode != "miss":
          step["actions"] = ([a] if a else []) + [{"a": "output", "port": 2, "max_len": 0}, {"a": "output", "port": R.OFPP_CONTROLLER, "max_len": 0xffff}]
        if mode == "flow":
          step["match"] = "all"
        yield {"nports": 3, "steps": [step]}


def _irregular_cases():
  """Every kind of irregular packet ref/frames12m.py builds x 3 parameter sets x {untagged, tagged} x {as built, padded to 60
  octets / by one octet, 3-octet non-zero trailer} (where the irregularity admits a trailer) x {plain output, set_vlan_vid,
  strip_vlan, set_dl_src before the output} x {flow, packet-out} plus table miss: every octet behind the link-layer
  headers must come out as it went in, to the port and to the controller."""
  A, B = bytes.fromhex("0200000000a1"), bytes.fromhex("0200000000b2")
  acts = [None, {"a": "set_vlan_vid", "v": 7}, {"a": "strip_vlan"}, {"a": "set_dl_src", "v": bytes.fromhex("02aabbccdd01")}]
  for kind in F12M.KINDS:
    for p in ({"a": 0, "b": 0, "n": 4, "seed": 1}, {"a": 9, "b": 1, "n": 21, "seed": 2}, {"a": 4, "b": 2, "n": 9, "seed": 3}):
      et, pkt = F12M.build(kind, p)
      for vlan in (None, (2, 0, 9)):
        fr0 = F.build_eth(B, A, et, pkt, vlan=vlan)
        frames = [fr0]
        if F12M.may_take_trailer(kind):
          frames += [fr0 + bytes(range(1, max(1, 60 - len(fr0)) + 1)), fr0 + b"\xde\xad\xbe"]
        for fr in frames:
          for a in acts:
            for mode in ("flow", "packet_out", "miss"):
              if mode == "miss" and a is not None:
                continue
              step = {"mode": mode, "frame": fr, "in_port": 1, "irregular": True}
              if mode != "miss":
                step["actions"] = ([a] if a else []) + [{"a": "output", "port": 2, "max_len": 0}, {"a": "output", "port": R.OFPP_CONTROLLER, "max_len": 0xffff}]
              if mode == "flow":
                step["match"] = "all"
              yield {"nports": 3, "steps": [step]}


def _fragment_cases():
  """Fragment handling (OFPT_SET_CONFIG flags) x what arrives: {NORMAL, DROP, REASM (not offered by this datapath: as NORMAL)} x
  {whole datagram, first, middle, last fragment} of UDP / TCP / ICMP x {Ethernet II, 802.1Q tagged, priority tagged, CFI set,
  LLC/SNAP, tagged LLC/SNAP} x {flow with outputs, flow with a link-layer rewrite and FLOOD, table miss, packet-out}; and the
  mode switched between deliveries of one fragment (DROP, NORMAL, DROP again, then a whole datagram).  Under DROP no arriving
  fragment may be forwarded, shown to the controller or counted as transmitted; everything else is forwarded as it is."""
  A, B = bytes.fromhex("0200000000a1"), bytes.fromhex("0200000000b2")
  S, D = 0x0a000001, 0x0a000002
  data = bytes(range(1, 49))
  wholes = {"udp": (17, F.build_udp(S, D, 1111, 2222, data)),
            "tcp": (6, F.build_tcp(S, D, 1111, 80, data[:28], seq=3, ack=4, flags=0x18)),
            "icmp": (1, F.echo(8, 7, 1, data[:40]))}
  def packets(name):
    proto, seg = wholes[name]
    return [("whole", F.build_ipv4(S, D, proto, seg, ident=61)),
            ("first", F.build_ipv4(S, D, proto, seg[:24], ident=61, mf=True)),
            ("middle", F.build_ipv4(S, D, proto, seg[24:40], ident=61, mf=True, frag=3)),
            ("last", F.build_ipv4(S, D, proto, seg[40:] + b"\x55\x66\x77", ident=61, frag=5))]
  def encaps(pkt):
    out = [F.build_eth(B, A, F.ETH_IP, pkt, vlan=v) for v in (None, (0, 0, 5), (3, 0, 100), (7, 0, 0), (1, 1, 9))]
    out += [F.build_8023(B, A, pkt, snap=(bytes(3), F.ETH_IP), vlan=v) for v in (None, (2, 0, 77))]
    return out
  l_out = [{"a": "output", "port": 2, "max_len": 0}, {"a": "output", "port": R.OFPP_CONTROLLER, "max_len": 0xffff}]
  l_flood = [{"a": "set_dl_src", "v": bytes.fromhex("02aabbccdd01")}, {"a": "output", "port": R.OFPP_FLOOD, "max_len": 0}]
  def deliveries(fr):
    return [{"mode": "flow", "match": "all", "in_port": 1, "frame": fr, "actions": l_out},
            {"mode": "flow", "match": "in_port", "in_port": 1, "frame": fr, "actions": l_flood},
            {"mode": "miss", "in_port": 1, "frame": fr},
            {"mode": "packet_out", "in_port": 1, "frame": fr, "actions": l_out}]
  for name in ("udp", "tcp", "icmp"):
    pk = packets(name)
    whole = pk[0][1]
    for kind, pkt in pk:
      for fr, fr_whole in zip(encaps(pkt), encaps(whole)):
        for frag in (1, 0, 2):
          for d in deliveries(fr):
            case = {"nports": 3, "steps": [d], "stats_port": 2}
            if frag:
              case["frag"] = frag
            yield case
        if kind != "whole":
          d = deliveries(fr)
          yield {"nports": 3, "frag": 1, "stats_port": 1,
                 "steps": [d[0], {"mode": "set_config", "frag": 0}, d[1], {"mode": "set_config", "frag": 1}, d[2], deliveries(fr_whole)[0]]}


def plan(tier):
  n = 4000 if tier == "quick" else 300000
  return [
    Enum("grid-flow", lambda: _grid(tier, "flow"), shards=16),
    Enum("grid-packet-out", lambda: _grid(tier, "packet_out"), shards=16),
    Enum("grid-miss", lambda: _grid(tier, "miss"), shards=2),
    Enum("inapplicable-rewrites", _inapplicable_cases, shards=2),
    Enum("sequences", _sequence_cases, shards=16),
    Enum("tcp-option-layouts", _tcp_layout_cases, shards=4),
    Enum("buffered-packet-out", _buffered_cases, shards=2),
    Enum("checksum-boundary", _boundary_cases, shards=2),
    Enum("trailers", _trailer_cases, shards=2),
    Enum("irregular-frames", _irregular_cases, shards=8),
    Enum("fragment-handling", _fragment_cases, shards=4),
    Hyp("generated", case_strategy, examples=n, shards=16),
  ]
